package main

import (
	"go/constant"
	"go/token"
	"go/types"
	"sort"
	"strings"

	"golang.org/x/tools/go/ssa"
)

// Typestate: forward dataflow over the finite set lattice of an enum type for
// one field of local struct variables (Allocs) of a given named struct type.
//
//	⊤ (all values) after a whole-struct store from an unknown value (store read),
//	refined on ==/!= edges (if/&&/||/switch as lowered by go/ssa), set on a store
//	of a constant (or a φ of constants), ⊤ when the address escapes to a callee.
type EnumSet uint64

type Enum struct {
	Type   *types.Named
	Names  map[int64]string
	Values []int64
	All    EnumSet
}

func (p *Prog) EnumOf(nt *types.Named) *Enum {
	e := &Enum{Type: nt, Names: map[int64]string{}}
	sc := nt.Obj().Pkg().Scope()
	for _, n := range sc.Names() {
		if k, ok := sc.Lookup(n).(*types.Const); ok && types.Identical(k.Type(), nt) {
			if v, ok := constant.Int64Val(k.Val()); ok && v >= 0 && v < 64 {
				if _, dup := e.Names[v]; !dup {
					e.Names[v] = n
					e.Values = append(e.Values, v)
					e.All |= 1 << uint(v)
				}
			}
		}
	}
	sort.Slice(e.Values, func(i, j int) bool { return e.Values[i] < e.Values[j] })
	return e
}

func (e *Enum) Str(s EnumSet) string {
	var out []string
	for _, v := range e.Values {
		if s&(1<<uint(v)) != 0 {
			out = append(out, e.Names[v])
		}
	}
	return "{" + strings.Join(out, ",") + "}"
}

func (e *Enum) Set(names ...string) EnumSet {
	var s EnumSet
	for _, n := range names {
		found := false
		for v, nn := range e.Names {
			if nn == n {
				s |= 1 << uint(v)
				found = true
			}
		}
		if !found {
			panic(unresolved("enum constant " + n))
		}
	}
	return s
}

type tsKey struct {
	alloc *ssa.Alloc
}

type tsState struct {
	field map[*ssa.Alloc]EnumSet // abstract value of alloc.<Field>
	val   map[ssa.Value]EnumSet  // abstract value of loaded SSA values
	link  map[ssa.Value]*ssa.Alloc
	// same[a] = b: record a is a whole copy of record b and neither's field was written since — a test of one
	// refines the other (`next := current; switch current.Status { … next.Status = … }`)
	same map[*ssa.Alloc]*ssa.Alloc
}

func newTsState() *tsState {
	return &tsState{field: map[*ssa.Alloc]EnumSet{}, val: map[ssa.Value]EnumSet{}, link: map[ssa.Value]*ssa.Alloc{}, same: map[*ssa.Alloc]*ssa.Alloc{}}
}

func (s *tsState) clone() *tsState {
	n := newTsState()
	for k, v := range s.field {
		n.field[k] = v
	}
	for k, v := range s.val {
		n.val[k] = v
	}
	for k, v := range s.link {
		n.link[k] = v
	}
	for k, v := range s.same {
		n.same[k] = v
	}
	return n
}

func (s *tsState) join(o *tsState) bool {
	changed := false
	for k, v := range o.field {
		if nv := s.field[k] | v; nv != s.field[k] {
			s.field[k] = nv
			changed = true
		}
	}
	for k, v := range o.val {
		if nv := s.val[k] | v; nv != s.val[k] {
			s.val[k] = nv
			changed = true
		}
	}
	for k, a := range s.link {
		if oa, ok := o.link[k]; !ok || oa != a {
			delete(s.link, k)
			changed = true
		}
	}
	for k, a := range s.same {
		if oa, ok := o.same[k]; !ok || oa != a {
			delete(s.same, k)
			changed = true
		}
	}
	return changed
}

// Typestate result for one function.
type Typestate struct {
	p      *Prog
	Fn     *ssa.Function
	Enum   *Enum
	Struct *types.Named
	Field  string
	Allocs []*ssa.Alloc
	in     map[*ssa.BasicBlock]*tsState
	// state immediately before each instruction of interest
	before map[ssa.Instruction]*tsState
	linkOK map[*ssa.BasicBlock]map[ssa.Value]bool
	// IgnoreStores: field stores do not change the abstract value ("status as loaded", refined by guards only)
	IgnoreStores bool
	// flagState[φ][v]: the joined state at the point a boolean flag φ is defined, over the valuations in which it is v
	flagState map[*ssa.Phi]map[bool]*tsState
}

// FlagStatus: the possible values of alloc's field at the time the boolean flag ph was computed, given that the
// flag came out as val (e.g. `isCandidate := s == Active || s == Pending` being false means s ∉ {Active, Pending}).
func (ts *Typestate) FlagStatus(ph *ssa.Phi, val bool, a *ssa.Alloc) (EnumSet, bool) {
	m, ok := ts.flagState[ph]
	if !ok || m[val] == nil {
		return 0, false
	}
	s, ok := m[val].field[a]
	return s, ok
}

// constFlagValues: ph is a string / integer variable all of whose assignments are constants (directly or through other
// such φ-nodes): the distinct constants (at most 8), else nil.
func constFlagValues(ph *ssa.Phi) []constant.Value {
	bt, ok := ph.Type().Underlying().(*types.Basic)
	if !ok || bt.Info()&(types.IsString|types.IsInteger) == 0 {
		return nil
	}
	var vals []constant.Value
	seen := map[*ssa.Phi]bool{}
	var walk func(p *ssa.Phi) bool
	walk = func(p *ssa.Phi) bool {
		if seen[p] {
			return true
		}
		seen[p] = true
		for _, e := range p.Edges {
			switch x := e.(type) {
			case *ssa.Const:
				if x.Value == nil {
					return false
				}
				dup := false
				for _, v := range vals {
					if constant.Compare(v, token.EQL, x.Value) {
						dup = true
					}
				}
				if !dup {
					vals = append(vals, x.Value)
				}
			case *ssa.Phi:
				if !walk(x) {
					return false
				}
			default:
				return false
			}
		}
		return true
	}
	if !walk(ph) || len(vals) < 2 || len(vals) > 8 {
		return nil
	}
	return vals
}

func isFieldAddrOf(addr ssa.Value, structT *types.Named, field string) *ssa.Alloc {
	fa, ok := addr.(*ssa.FieldAddr)
	if !ok {
		return nil
	}
	a, ok := fa.X.(*ssa.Alloc)
	if !ok {
		return nil
	}
	if nt := namedOf(a.Type()); nt == nil || nt.Obj() != structT.Obj() {
		return nil
	}
	if fieldName(fa.X.Type(), fa.Field) != field {
		return nil
	}
	return a
}

// constSet evaluates a stored value to the set of enum constants it can be.
func (ts *Typestate) constSet(v ssa.Value, st *tsState, seen map[ssa.Value]bool) EnumSet {
	if seen[v] {
		return 0
	}
	seen[v] = true
	switch x := v.(type) {
	case *ssa.Const:
		if x.Value == nil {
			return ts.Enum.All
		}
		if i, ok := constant.Int64Val(x.Value); ok && i >= 0 && i < 64 {
			return 1 << uint(i)
		}
		return ts.Enum.All
	case *ssa.Phi:
		var s EnumSet
		for _, e := range x.Edges {
			s |= ts.constSet(e, st, seen)
		}
		return s
	case *ssa.ChangeType:
		return ts.constSet(x.X, st, seen)
	case *ssa.Convert:
		return ts.constSet(x.X, st, seen)
	}
	if st != nil {
		if s, ok := st.val[v]; ok {
			return s
		}
	}
	return ts.Enum.All
}

// AnalyzeTypestate runs the dataflow for field `field` (of enum type) of local
// variables of struct type structT in fn.
func (p *Prog) AnalyzeTypestate(fn *ssa.Function, structT *types.Named, field string, enum *Enum) *Typestate {
	return p.analyzeTypestate(fn, structT, field, enum, false)
}

// AnalyzeLoadedState: the value the field had when the record was loaded, refined by guards; field stores are ignored.
func (p *Prog) AnalyzeLoadedState(fn *ssa.Function, structT *types.Named, field string, enum *Enum) *Typestate {
	return p.analyzeTypestate(fn, structT, field, enum, true)
}

func (p *Prog) analyzeTypestate(fn *ssa.Function, structT *types.Named, field string, enum *Enum, ignoreStores bool) *Typestate {
	ts := &Typestate{p: p, Fn: fn, Enum: enum, Struct: structT, Field: field, IgnoreStores: ignoreStores,
		in: map[*ssa.BasicBlock]*tsState{}, before: map[ssa.Instruction]*tsState{}}
	for _, b := range fn.Blocks {
		for _, in := range b.Instrs {
			if a, ok := in.(*ssa.Alloc); ok {
				if nt := namedOf(a.Type()); nt != nil && nt.Obj() == structT.Obj() {
					if _, isPtr := a.Type().(*types.Pointer).Elem().(*types.Pointer); !isPtr {
						ts.Allocs = append(ts.Allocs, a)
					}
				}
			}
		}
	}
	if len(fn.Blocks) == 0 {
		return ts
	}
	// Trace partitioning on boolean flags: a boolean φ (`ok := a == X || a == Y`, `allowed := false; …`)
	// is a flag; the dataflow state is kept separately per known flag valuation, so that a later
	// `if ok && !other` is followed only by the states in which the flags have those values, and the
	// refinement made when the flag was computed (status ∈ {X, Y} where ok is true) is still attached.
	var flags []*ssa.Phi
	constVals := map[*ssa.Phi][]constant.Value{}
	flagIdx := map[*ssa.Phi]int{}
	flagsOf := map[*ssa.BasicBlock][]*ssa.Phi{}
	for _, b := range fn.Blocks {
		for _, in := range b.Instrs {
			ph, ok := in.(*ssa.Phi)
			if !ok {
				break
			}
			if bt, isB := ph.Type().Underlying().(*types.Basic); isB && bt.Kind() == types.Bool && len(flags) < 12 {
				flagIdx[ph] = len(flags)
				flags = append(flags, ph)
				flagsOf[b] = append(flagsOf[b], ph)
			} else if vals := constFlagValues(ph); vals != nil && len(flags) < 12 {
				// a variable that only ever holds one of a few constants (`action := ""; … action = "Lock"`) names the
				// branch that assigned it: it is a flag with more than two values
				flagIdx[ph] = len(flags)
				flags = append(flags, ph)
				flagsOf[b] = append(flagsOf[b], ph)
				constVals[ph] = vals
			}
		}
	}
	constIdx := func(ph *ssa.Phi, c *ssa.Const) byte {
		for i, v := range constVals[ph] {
			if c.Value != nil && constant.Compare(v, token.EQL, c.Value) {
				return byte('a' + i)
			}
		}
		return 0
	}
	// constFlagOfCond: the condition compares a constant-valued flag with a constant: (flag, the constant's letter, true when the
	// condition holds for equality)
	constFlagOfCond := func(c ssa.Value) (*ssa.Phi, byte, bool) {
		eq := true
		for {
			if u, ok := c.(*ssa.UnOp); ok && u.Op == token.NOT {
				c, eq = u.X, !eq
				continue
			}
			break
		}
		bo, ok := c.(*ssa.BinOp)
		if !ok || (bo.Op != token.EQL && bo.Op != token.NEQ) {
			return nil, 0, false
		}
		if bo.Op == token.NEQ {
			eq = !eq
		}
		x, y := bo.X, bo.Y
		if _, isC := x.(*ssa.Const); isC {
			x, y = y, x
		}
		ph, isPh := x.(*ssa.Phi)
		k, isC := y.(*ssa.Const)
		if !isPh || !isC || constVals[ph] == nil {
			return nil, 0, false
		}
		return ph, constIdx(ph, k), eq
	}
	blank := strings.Repeat("?", len(flags))
	parts := map[*ssa.BasicBlock]map[string]*tsState{}
	collapsed := map[*ssa.BasicBlock]bool{}
	zero := EnumSet(1) // zero value of the enum
	entry := newTsState()
	for _, a := range ts.Allocs {
		entry.field[a] = zero
	}
	parts[fn.Blocks[0]] = map[string]*tsState{blank: entry}
	setFlag := func(key string, ph *ssa.Phi, v byte) string {
		bs := []byte(key)
		bs[flagIdx[ph]] = v
		return string(bs)
	}
	flagOfCond := func(c ssa.Value) (*ssa.Phi, bool) { // (flag, negated)
		neg := false
		for {
			if u, ok := c.(*ssa.UnOp); ok && u.Op == token.NOT {
				c, neg = u.X, !neg
				continue
			}
			break
		}
		if ph, ok := c.(*ssa.Phi); ok {
			if _, isFlag := flagIdx[ph]; isFlag {
				return ph, neg
			}
		}
		return nil, false
	}
	sortedKeys := func(m map[string]*tsState) []string {
		ks := make([]string, 0, len(m))
		for k := range m {
			ks = append(ks, k)
		}
		sort.Strings(ks)
		return ks
	}
	type outPart struct {
		key string
		st  *tsState
	}
	// successor states of one partition leaving block b through successor i
	flow := func(b *ssa.BasicBlock, i int, key string, st *tsState) []outPart {
		succ := b.Succs[i]
		out := st.clone()
		if iff, ok := b.Instrs[len(b.Instrs)-1].(*ssa.If); ok {
			if ph, neg := flagOfCond(iff.Cond); ph != nil {
				want := byte('T')
				if (i == 0) == neg {
					want = 'F'
				}
				switch key[flagIdx[ph]] {
				case '?':
					key = setFlag(key, ph, want)
				case want:
				default:
					return nil // this valuation takes the other branch
				}
			} else if cph, letter, eq := constFlagOfCond(iff.Cond); cph != nil {
				takenEq := (i == 0) == eq // this successor is the one on which flag == constant
				switch cur := key[flagIdx[cph]]; {
				case cur == '?':
					if takenEq {
						if letter == 0 {
							return nil // the flag never holds that constant
						}
						key = setFlag(key, cph, letter)
					}
				case (cur == letter) != takenEq:
					return nil // this valuation takes the other branch
				}
			} else {
				ts.refine(iff.Cond, i == 0, out)
			}
		}
		res := []outPart{{key, out}}
		for _, ph := range flagsOf[succ] {
			k := -1
			for j, p := range succ.Preds {
				if p == b {
					k = j
					break
				}
			}
			if k < 0 {
				continue
			}
			e := ph.Edges[k]
			var next []outPart
			for _, r := range res {
				if constVals[ph] != nil {
					v := byte('?')
					switch x := e.(type) {
					case *ssa.Const:
						if l := constIdx(ph, x); l != 0 {
							v = l
						}
					case *ssa.Phi:
						if _, isFlag := flagIdx[x]; isFlag && constVals[x] != nil && r.key[flagIdx[x]] != '?' {
							// the same constant, under the numbering of this flag
							if i := int(r.key[flagIdx[x]] - 'a'); i >= 0 && i < len(constVals[x]) {
								for j, cv := range constVals[ph] {
									if constant.Compare(cv, token.EQL, constVals[x][i]) {
										v = byte('a' + j)
									}
								}
							}
						}
					}
					next = append(next, outPart{setFlag(r.key, ph, v), r.st})
					continue
				}
				switch x := e.(type) {
				case *ssa.Const:
					v := byte('F')
					if x.Value != nil && x.Value.String() == "true" {
						v = 'T'
					}
					next = append(next, outPart{setFlag(r.key, ph, v), r.st})
				case *ssa.Phi:
					if _, isFlag := flagIdx[x]; isFlag {
						next = append(next, outPart{setFlag(r.key, ph, r.key[flagIdx[x]]), r.st})
						continue
					}
					next = append(next, outPart{setFlag(r.key, ph, '?'), r.st})
				default:
					// the flag takes the value of a condition evaluated here: one partition per outcome
					t, f := r.st.clone(), r.st.clone()
					ts.refine(e, true, t)
					ts.refine(e, false, f)
					next = append(next, outPart{setFlag(r.key, ph, 'T'), t}, outPart{setFlag(r.key, ph, 'F'), f})
				}
			}
			res = next
		}
		return res
	}
	runBlock := func(b *ssa.BasicBlock, st *tsState, record bool) {
		for _, in := range b.Instrs {
			if record {
				if cur, ok := ts.before[in]; ok {
					cur.join(st)
				} else {
					ts.before[in] = st.clone()
				}
			}
			ts.transfer(in, st)
		}
	}
	work := []*ssa.BasicBlock{fn.Blocks[0]}
	inWork := map[*ssa.BasicBlock]bool{fn.Blocks[0]: true}
	iter := 0
	for len(work) > 0 {
		iter++
		if iter > 200000 {
			panic("typestate: no fixpoint")
		}
		b := work[0]
		work = work[1:]
		inWork[b] = false
		for _, key := range sortedKeys(parts[b]) {
			st := parts[b][key].clone()
			runBlock(b, st, false)
			for i, succ := range b.Succs {
				for _, o := range flow(b, i, key, st) {
					k := o.key
					if collapsed[succ] {
						k = blank
					}
					m := parts[succ]
					if m == nil {
						m = map[string]*tsState{}
						parts[succ] = m
					}
					changed := false
					if cur, ok := m[k]; !ok {
						m[k] = o.st.clone()
						changed = true
					} else if cur.join(o.st) {
						changed = true
					}
					if len(m) > 96 && !collapsed[succ] {
						// too many valuations: give up partitioning at this block
						all := newTsState()
						first := true
						for _, kk := range sortedKeys(m) {
							if first {
								all = m[kk].clone()
								first = false
							} else {
								all.join(m[kk])
							}
						}
						parts[succ] = map[string]*tsState{blank: all}
						collapsed[succ] = true
						changed = true
					}
					if changed && !inWork[succ] {
						work = append(work, succ)
						inWork[succ] = true
					}
				}
			}
		}
	}
	ts.flagState = map[*ssa.Phi]map[bool]*tsState{}
	for _, ph := range flags {
		if constVals[ph] != nil {
			continue
		}
		m := map[bool]*tsState{}
		for key, st := range parts[ph.Block()] {
			var v bool
			switch key[flagIdx[ph]] {
			case 'T':
				v = true
			case 'F':
				v = false
			default:
				continue
			}
			if m[v] == nil {
				m[v] = st.clone()
			} else {
				m[v].join(st)
			}
		}
		ts.flagState[ph] = m
	}
	// the state before each instruction: the join over all valuations that reach it
	for _, b := range fn.Blocks {
		for _, key := range sortedKeys(parts[b]) {
			runBlock(b, parts[b][key].clone(), true)
		}
		if m := parts[b]; len(m) > 0 {
			var all *tsState
			for _, key := range sortedKeys(m) {
				if all == nil {
					all = m[key].clone()
				} else {
					all.join(m[key])
				}
			}
			ts.in[b] = all
		}
	}
	return ts
}

func (ts *Typestate) transfer(in ssa.Instruction, st *tsState) {
	switch x := in.(type) {
	case *ssa.Alloc:
		for _, a := range ts.Allocs {
			if a == x {
				st.field[a] = 1 // fresh zero value each time the Alloc executes
				ts.unlink(st, a)
			}
		}
	case *ssa.Store:
		if a := isFieldAddrOf(x.Addr, ts.Struct, ts.Field); a != nil {
			if ts.IgnoreStores {
				ts.unlink(st, a)
				return
			}
			st.field[a] = ts.constSet(x.Val, st, map[ssa.Value]bool{})
			ts.unlink(st, a)
			return
		}
		if a, ok := x.Addr.(*ssa.Alloc); ok {
			for _, aa := range ts.Allocs {
				if aa == a {
					// whole-struct store: from another tracked local (load) or unknown
					st.field[a] = ts.wholeVal(x.Val, st)
					ts.unlink(st, a)
					if u, ok := x.Val.(*ssa.UnOp); ok && u.Op == token.MUL {
						if src, ok := u.X.(*ssa.Alloc); ok && src != a {
							if _, tracked := st.field[src]; tracked {
								st.same[a] = src
							}
						}
					}
				}
			}
		}
	case *ssa.UnOp:
		if x.Op == token.MUL {
			if a := isFieldAddrOf(x.X, ts.Struct, ts.Field); a != nil {
				st.val[x] = st.field[a]
				st.link[x] = a
			}
		}
	case ssa.CallInstruction:
		// address of a tracked alloc passed to a callee: unknown afterwards, unless the callee is a
		// repository function that (transitively) never stores to this field through a pointer
		readOnly := false
		if g := x.Common().StaticCallee(); g != nil && g.Blocks != nil && isProdPkgFn(g) {
			readOnly = !ts.p.mayStoreFieldThroughPointer(g, ts.Struct, ts.Field)
		}
		for _, arg := range x.Common().Args {
			if readOnly {
				break
			}
			if a, ok := arg.(*ssa.Alloc); ok {
				for _, aa := range ts.Allocs {
					if aa == a {
						st.field[a] = ts.Enum.All
						ts.unlink(st, a)
					}
				}
			}
		}
	}
}

func (ts *Typestate) wholeVal(v ssa.Value, st *tsState) EnumSet {
	// load of another tracked alloc: copy
	if u, ok := v.(*ssa.UnOp); ok && u.Op == token.MUL {
		if a, ok := u.X.(*ssa.Alloc); ok {
			if s, ok := st.field[a]; ok {
				return s
			}
		}
	}
	return ts.Enum.All
}

func (ts *Typestate) unlink(st *tsState, a *ssa.Alloc) {
	for v, la := range st.link {
		if la == a {
			delete(st.link, v)
		}
	}
	delete(st.same, a)
	for k, b := range st.same {
		if b == a {
			delete(st.same, k)
		}
	}
}

func (ts *Typestate) refine(cond ssa.Value, taken bool, st *tsState) {
	switch c := cond.(type) {
	case *ssa.Call:
		// a predicate method of the record (`v.IsRanked()`, `w.IsFinal()`): refine by the set of field values for
		// which it can answer the way this edge needs
		g := c.Call.StaticCallee()
		if g == nil || len(g.Blocks) == 0 || !isProdPkgFn(g) {
			return
		}
		for k, arg := range c.Call.Args {
			var a *ssa.Alloc
			switch x := arg.(type) {
			case *ssa.Alloc:
				a = x
			case *ssa.UnOp:
				if x.Op == token.MUL {
					a, _ = x.X.(*ssa.Alloc)
				}
			}
			if a == nil {
				continue
			}
			if _, tracked := st.field[a]; !tracked {
				continue
			}
			tset, fset, ok := ts.p.predicateSets(g, k, ts.Struct, ts.Field, ts.Enum)
			if !ok {
				continue
			}
			ns := fset
			if taken {
				ns = tset
			}
			group := map[*ssa.Alloc]bool{a: true}
			for changed := true; changed; {
				changed = false
				for x, y := range st.same {
					if group[x] != group[y] {
						group[x], group[y] = true, true
						changed = true
					}
				}
			}
			for gr := range group {
				st.field[gr] &= ns
			}
			for ov, oa := range st.link {
				if group[oa] {
					st.val[ov] &= ns
				}
			}
		}
	case *ssa.UnOp:
		if c.Op == token.NOT {
			ts.refine(c.X, !taken, st)
		}
	case *ssa.BinOp:
		if c.Op != token.EQL && c.Op != token.NEQ {
			return
		}
		var v ssa.Value
		var k *ssa.Const
		if kk, ok := c.Y.(*ssa.Const); ok {
			v, k = c.X, kk
		} else if kk, ok := c.X.(*ssa.Const); ok {
			v, k = c.Y, kk
		} else {
			return
		}
		if _, tracked := st.val[v]; !tracked || k.Value == nil {
			return
		}
		i, ok := constant.Int64Val(k.Value)
		if !ok || i < 0 || i >= 64 {
			return
		}
		bit := EnumSet(1) << uint(i)
		eq := (c.Op == token.EQL) == taken
		var ns EnumSet
		if eq {
			ns = st.val[v] & bit
		} else {
			ns = st.val[v] &^ bit
		}
		st.val[v] = ns
		if a, ok := st.link[v]; ok {
			group := map[*ssa.Alloc]bool{a: true}
			for changed := true; changed; {
				changed = false
				for x, y := range st.same {
					if group[x] != group[y] {
						group[x], group[y] = true, true
						changed = true
					}
				}
			}
			for g := range group {
				st.field[g] &= ns
			}
			// other loads linked to the same field (of the record or of an unmodified copy of it) hold the same value
			for ov, oa := range st.link {
				if group[oa] && ov != v {
					st.val[ov] &= ns
				}
			}
		}
	}
}

// EdgeOut returns the possible values of alloc's field on the i-th outgoing edge of block b (the block's
// joined in-state, its instructions, then the refinement of the branch condition for that edge).
func (ts *Typestate) EdgeOut(b *ssa.BasicBlock, i int, a *ssa.Alloc) (EnumSet, bool) {
	in, ok := ts.in[b]
	if !ok || len(b.Instrs) == 0 {
		return 0, false
	}
	st := in.clone()
	for _, ins := range b.Instrs {
		ts.transfer(ins, st)
	}
	if iff, isIf := b.Instrs[len(b.Instrs)-1].(*ssa.If); isIf {
		ts.refine(iff.Cond, i == 0, st)
	}
	s, ok := st.field[a]
	return s, ok
}

// At returns the possible values of alloc's field immediately before instruction in.
func (ts *Typestate) At(in ssa.Instruction, a *ssa.Alloc) (EnumSet, bool) {
	st, ok := ts.before[in]
	if !ok {
		return 0, false
	}
	s, ok := st.field[a]
	return s, ok
}

// ValAt returns the abstract value of a loaded SSA value before instruction in.
func (ts *Typestate) ValAt(in ssa.Instruction, v ssa.Value) (EnumSet, bool) {
	st, ok := ts.before[in]
	if !ok {
		return 0, false
	}
	s, ok := st.val[v]
	return s, ok
}

// StatusWrite is one store to the tracked field.
type StatusWrite struct {
	Store *ssa.Store
	Alloc *ssa.Alloc
	From  EnumSet
	To    EnumSet
	Fresh bool // the alloc is a composite literal / never loaded from the store
}

func (ts *Typestate) Writes() []StatusWrite {
	var out []StatusWrite
	for _, b := range ts.Fn.Blocks {
		for _, in := range b.Instrs {
			st, ok := in.(*ssa.Store)
			if !ok {
				continue
			}
			a := isFieldAddrOf(st.Addr, ts.Struct, ts.Field)
			if a == nil {
				continue
			}
			bs := ts.before[in]
			if bs == nil {
				continue // unreachable
			}
			w := StatusWrite{Store: st, Alloc: a, From: bs.field[a], To: ts.constSet(st.Val, bs, map[ssa.Value]bool{})}
			// fresh: a record built in this function, never (whole-)assigned from a loaded value
			w.Fresh = true
			for _, ref := range *a.Referrers() {
				if ws, ok := ref.(*ssa.Store); ok && ws.Addr == ssa.Value(a) {
					w.Fresh = false
				}
			}
			out = append(out, w)
		}
	}
	return out
}

// mayStoreFieldThroughPointer: can g, or a repository function it reaches, store to field `field` of
// struct structT through a pointer it did not allocate itself (a field store, a whole-struct store, or
// handing such a pointer to code outside the repository / behind an interface)?
func (p *Prog) mayStoreFieldThroughPointer(g *ssa.Function, structT *types.Named, field string) bool {
	key := structT.Obj().Pkg().Path() + "." + structT.Obj().Name() + "." + field
	if p.fieldPtrWriters == nil {
		p.fieldPtrWriters = map[string]map[*ssa.Function]bool{}
	}
	w, ok := p.fieldPtrWriters[key]
	if !ok {
		w = map[*ssa.Function]bool{}
		isS := func(t types.Type) bool {
			pt, ok := t.Underlying().(*types.Pointer)
			if !ok {
				return false
			}
			nt := namedOf(pt.Elem())
			return nt != nil && nt.Obj() == structT.Obj()
		}
		for _, f := range p.Funcs {
			for _, b := range f.Blocks {
				for _, in := range b.Instrs {
					switch x := in.(type) {
					case *ssa.Store:
						if fa, ok := x.Addr.(*ssa.FieldAddr); ok && isS(fa.X.Type()) && fieldName(fa.X.Type(), fa.Field) == field {
							if _, local := fa.X.(*ssa.Alloc); !local {
								w[f] = true
							}
						} else if isS(x.Addr.Type()) {
							if _, local := x.Addr.(*ssa.Alloc); !local {
								w[f] = true
							}
						}
					case ssa.CallInstruction:
						callee := x.Common().StaticCallee()
						if callee != nil && callee.Blocks != nil && isProdPkgFn(callee) {
							continue
						}
						for _, a := range x.Common().Args {
							if _, local := a.(*ssa.Alloc); !local && isS(a.Type()) {
								w[f] = true
							}
						}
					}
				}
			}
		}
		p.fieldPtrWriters[key] = w
	}
	reach, _ := p.CG().Reach([]*ssa.Function{g}, nil)
	for f := range reach {
		if w[f] {
			return true
		}
	}
	return false
}


type predKey struct {
	g *ssa.Function
	k int
	f string
}

var predMemo = map[predKey][3]uint64{}

// predicateSets: for a side-effect-free boolean function g whose k-th parameter is a record (value or pointer) of
// type structT: the set of values of the record's enum field for which g can return true, and for which it can
// return false. Decided by walking g's CFG once per enum value, following only the branches that value allows
// (comparisons of the field with constants are evaluated; every other condition goes both ways).
func (p *Prog) predicateSets(g *ssa.Function, k int, structT *types.Named, field string, en *Enum) (EnumSet, EnumSet, bool) {
	key := predKey{g, k, structT.Obj().Name() + "." + field}
	if m, ok := predMemo[key]; ok {
		return EnumSet(m[0]), EnumSet(m[1]), m[2] == 1
	}
	fail := func() (EnumSet, EnumSet, bool) { predMemo[key] = [3]uint64{0, 0, 0}; return 0, 0, false }
	res := g.Signature.Results()
	if res.Len() != 1 || k >= len(g.Params) {
		return fail()
	}
	if bt, ok := res.At(0).Type().Underlying().(*types.Basic); !ok || bt.Kind() != types.Bool {
		return fail()
	}
	if nt := namedOf(g.Params[k].Type()); nt == nil || nt.Obj() != structT.Obj() {
		return fail()
	}
	// no writes, no calls other than pure getters
	for _, b := range g.Blocks {
		for _, in := range b.Instrs {
			switch x := in.(type) {
			case *ssa.Store:
				// the spill of a value parameter into its local is fine
				if _, isParam := x.Val.(*ssa.Parameter); !isParam {
					return fail()
				}
			case *ssa.MapUpdate, *ssa.Send, *ssa.Go, *ssa.Defer:
				return fail()
			}
		}
	}
	// is v a load of the param's field?
	isField := func(v ssa.Value) bool {
		switch x := v.(type) {
		case *ssa.UnOp:
			if x.Op != token.MUL {
				return false
			}
			fa, ok := x.X.(*ssa.FieldAddr)
			if !ok || fieldName(fa.X.Type(), fa.Field) != field {
				return false
			}
			switch base := fa.X.(type) {
			case *ssa.Parameter:
				return base == g.Params[k]
			case *ssa.Alloc:
				for _, ref := range *base.Referrers() {
					if st, ok := ref.(*ssa.Store); ok && st.Addr == ssa.Value(base) && st.Val == ssa.Value(g.Params[k]) {
						return true
					}
				}
			}
		case *ssa.Field:
			return x.X == ssa.Value(g.Params[k]) && fieldName(x.X.Type(), x.Field) == field
		case *ssa.Call:
			if cf := calleeFunc(&x.Call); cf != nil && cf.Name() == "Get"+field && len(x.Call.Args) == 1 {
				if x.Call.Args[0] == ssa.Value(g.Params[k]) {
					return true
				}
			}
		}
		return false
	}
	// tri-state evaluation of a boolean value for field value `val`, entering its block from pred
	const (
		bFalse = 1
		bTrue  = 2
	)
	var eval func(v ssa.Value, val int64, pred *ssa.BasicBlock, depth int) int
	eval = func(v ssa.Value, val int64, pred *ssa.BasicBlock, depth int) int {
		if depth > 8 {
			return bFalse | bTrue
		}
		switch x := v.(type) {
		case *ssa.Const:
			if x.Value != nil && x.Value.String() == "true" {
				return bTrue
			}
			return bFalse
		case *ssa.UnOp:
			if x.Op == token.NOT {
				r := eval(x.X, val, pred, depth+1)
				out := 0
				if r&bTrue != 0 {
					out |= bFalse
				}
				if r&bFalse != 0 {
					out |= bTrue
				}
				return out
			}
		case *ssa.BinOp:
			if x.Op == token.EQL || x.Op == token.NEQ {
				var kc *ssa.Const
				var other ssa.Value
				if c, ok := x.Y.(*ssa.Const); ok {
					kc, other = c, x.X
				} else if c, ok := x.X.(*ssa.Const); ok {
					kc, other = c, x.Y
				}
				if kc != nil && kc.Value != nil && isField(other) {
					kv, _ := constant.Int64Val(constant.ToInt(kc.Value))
					if (kv == val) == (x.Op == token.EQL) {
						return bTrue
					}
					return bFalse
				}
			}
		case *ssa.Phi:
			if pred != nil && x.Block() != nil {
				for i, pb := range x.Block().Preds {
					if pb == pred {
						return eval(x.Edges[i], val, nil, depth+1)
					}
				}
			}
		}
		return bFalse | bTrue
	}
	var tset, fset EnumSet
	for _, val := range en.Values {
		type node struct{ b, pred *ssa.BasicBlock }
		seen := map[node]bool{}
		var walk func(b, pred *ssa.BasicBlock)
		result := 0
		walk = func(b, pred *ssa.BasicBlock) {
			if seen[node{b, pred}] {
				return
			}
			seen[node{b, pred}] = true
			switch last := b.Instrs[len(b.Instrs)-1].(type) {
			case *ssa.Return:
				result |= eval(last.Results[0], val, pred, 0)
			case *ssa.If:
				r := eval(last.Cond, val, pred, 0)
				if r&bTrue != 0 {
					walk(b.Succs[0], b)
				}
				if r&bFalse != 0 {
					walk(b.Succs[1], b)
				}
			default:
				for _, sb := range b.Succs {
					walk(sb, b)
				}
			}
		}
		walk(g.Blocks[0], nil)
		if val >= 0 && val < 64 {
			if result&bTrue != 0 {
				tset |= EnumSet(1) << uint(val)
			}
			if result&bFalse != 0 {
				fset |= EnumSet(1) << uint(val)
			}
		}
	}
	predMemo[key] = [3]uint64{uint64(tset), uint64(fset), 1}
	return tset, fset, true
}
