package main

// Normalisation of new private helpers.
//
// The rule instances of this checker were confirmed on a reference tree whose function inventory is frozen in
// inventory.txt. A later change that moves statements of a known function into a NEW function of the same package
// (extract-function, plan/apply split, keeper method …) does not change behaviour, but per-function path rules would
// no longer see the moved statements. Before the analysis proper, every statically resolved call to such a new
// function that stands in statement position is therefore replaced, in an in-memory overlay of the source, by the
// callee's body (parameters substituted or bound, locals renamed apart, returns turned into assignments and jumps to
// a label after the body — or, where the caller immediately bails out on the callee's error / boolean result, into a
// copy of that bail-out). New functions all of whose call sites were expanded are renamed to the blank identifier,
// so they no longer exist as functions. The transformation is semantics-preserving Go-to-Go; the result is
// type-checked again and discarded (the tree is then analysed as it stands) if it does not compile. On the reference
// tree there is no new function and nothing is rewritten.

import (
	"bytes"
	_ "embed"
	"fmt"
	"go/ast"
	"go/token"
	"go/types"
	"os"
	"regexp"
	"sort"
	"strconv"
	"strings"

	"golang.org/x/tools/go/packages"
)

//go:embed inventory.txt
var inventoryTxt string

func inventory() map[string]bool {
	m := map[string]bool{}
	for k := range inventorySigs() {
		m[k] = true
	}
	return m
}

// inventorySigs: key → signature (as written by -write-inventory: "key<TAB>signature").
func inventorySigs() map[string]string {
	m := map[string]string{}
	for _, l := range strings.Split(inventoryTxt, "\n") {
		if l = strings.TrimSpace(l); l != "" && !strings.HasPrefix(l, "#") {
			k, sig, _ := strings.Cut(l, "\t")
			m[k] = sig
		}
	}
	return m
}

func sigString(f *types.Func) string {
	sig := f.Type().(*types.Signature)
	q := func(p *types.Package) string { return p.Path() }
	tuple := func(t *types.Tuple) string {
		var xs []string
		for i := 0; i < t.Len(); i++ {
			xs = append(xs, types.TypeString(t.At(i).Type(), q))
		}
		return "(" + strings.Join(xs, ", ") + ")"
	}
	v := ""
	if sig.Variadic() {
		v = "…"
	}
	return "func" + tuple(sig.Params()) + v + " " + tuple(sig.Results())
}

// declaredFuncs: key → declared function of the production packages.
func declaredFuncs(pkgs []*packages.Package) map[string]*types.Func {
	out := map[string]*types.Func{}
	for _, pk := range pkgs {
		if !isProdPkg(pk.PkgPath) {
			continue
		}
		for _, f := range pk.Syntax {
			for _, d := range f.Decls {
				if fd, ok := d.(*ast.FuncDecl); ok && fd.Name.Name != "_" {
					if o, ok := pk.TypesInfo.Defs[fd.Name].(*types.Func); ok {
						out[declKey(pk, fd)] = o
					}
				}
			}
		}
	}
	return out
}

// computeRenames: a function of the reference inventory that is gone, and exactly one function that is not in the
// inventory with the same package, receiver type and signature: the function was renamed (new key → old key). The
// analysis then knows it under its old name; it is not a new helper.
func computeRenames(pkgs []*packages.Package) map[string]string {
	sigs := inventorySigs()
	decl := declaredFuncs(pkgs)
	scopeOf := func(key string) string { // package and receiver part of the key
		if i := strings.LastIndex(key, "."); i >= 0 {
			return key[:i]
		}
		return key
	}
	type slot struct{ scope, sig string }
	missing := map[slot][]string{}
	for k, sg := range sigs {
		if _, ok := decl[k]; !ok && sg != "" {
			s := slot{scopeOf(k), sg}
			missing[s] = append(missing[s], k)
		}
	}
	fresh := map[slot][]string{}
	for k, f := range decl {
		if _, ok := sigs[k]; !ok {
			s := slot{scopeOf(k), sigString(f)}
			fresh[s] = append(fresh[s], k)
		}
	}
	out := map[string]string{}
	for s, olds := range missing {
		if news := fresh[s]; len(olds) == 1 && len(news) == 1 {
			out[news[0]] = olds[0]
		}
	}
	return out
}

func declKey(pk *packages.Package, d *ast.FuncDecl) string {
	k := relPkg(pk.PkgPath) + "."
	if d.Recv != nil && len(d.Recv.List) == 1 {
		t := d.Recv.List[0].Type
		for {
			switch x := t.(type) {
			case *ast.StarExpr:
				t = x.X
				continue
			case *ast.ParenExpr:
				t = x.X
				continue
			case *ast.IndexExpr:
				t = x.X
				continue
			case *ast.IndexListExpr:
				t = x.X
				continue
			}
			break
		}
		if id, ok := t.(*ast.Ident); ok {
			k += id.Name + "."
		}
	}
	return k + d.Name.Name
}

func isGeneratedFileName(name string) bool {
	return strings.HasSuffix(name, ".pb.go") || strings.HasSuffix(name, ".pb.gw.go") || strings.HasSuffix(name, ".pulsar.go")
}

// inventoryLines: "key<TAB>signature" for every function declaration of the production packages.
func inventoryLines(pkgs []*packages.Package) []string {
	var out []string
	for k, f := range declaredFuncs(pkgs) {
		out = append(out, k+"\t"+sigString(f))
	}
	sort.Strings(out)
	return out
}

// declaredFuncKeys lists the keys of the function declarations of the production packages.
func declaredFuncKeys(pkgs []*packages.Package) []string {
	var out []string
	for _, pk := range pkgs {
		if !isProdPkg(pk.PkgPath) {
			continue
		}
		for _, f := range pk.Syntax {
			for _, d := range f.Decls {
				if fd, ok := d.(*ast.FuncDecl); ok && fd.Name.Name != "_" {
					out = append(out, declKey(pk, fd))
				}
			}
		}
	}
	sort.Strings(out)
	return dedupe(out)
}

type declInfo struct {
	decl *ast.FuncDecl
	pkg  *packages.Package
	file *ast.File
	key  string
	obj  *types.Func
	ok   bool // may be expanded at its call sites
	why  string
}

type textEdit struct {
	file       string
	start, end int
	text       string
}

type normaliser struct {
	pkgs    []*packages.Package
	fset    *token.FileSet
	inv     map[string]bool
	content func(file string) []byte
	decls   map[*types.Func]*declInfo
	counter *int
	log     *[]string
	// imports of a callee's file that the caller's file lacks (file → name → path), and where to put them
	addImport map[string]map[string]string
	importAt  map[string]int
}

func (n *normaliser) skip(cs *callSite, why string) []textEdit {
	if os.Getenv("GOATVERIF_NORMALISE_DEBUG") != "" {
		fmt.Fprintf(os.Stderr, "normalise: call of %s at %s left alone: %s\n", cs.callee.key, n.fset.Position(cs.call.Pos()), why)
	}
	return nil
}

// a call site in statement position
type callSite struct {
	pkg    *packages.Package
	file   *ast.File
	encl   *ast.FuncDecl
	stmt   ast.Stmt
	next   ast.Stmt // the statement after stmt in the same list
	call   *ast.CallExpr
	callee *declInfo
	recv   ast.Expr // receiver operand of a method call
	sel    *types.Selection
	form   int
	negate bool
	exp    *expansion
	outer  *ast.CallExpr // formHoist: the call whose argument list contains the site
	upto   int           // … and the index of the site in that list
}

const (
	formExpr = iota
	formAssign
	formIfInit
	formIfCond
	formReturn
	formInline // a call anywhere in an expression to a function whose body is `return <expression>`
	formHoist  // a call that is an argument of the statement's outer call: moved in front of the statement
)

func (n *normaliser) off(pos token.Pos) int { return n.fset.File(pos).Offset(pos) }

func (n *normaliser) fileOf(pos token.Pos) string { return n.fset.File(pos).Name() }

func (n *normaliser) src(lo, hi token.Pos) string {
	b := n.content(n.fileOf(lo))
	return string(b[n.off(lo):n.off(hi)])
}

// lineDir: a position directive making the text that follows it report the (adjusted) position of pos.
func (n *normaliser) lineDir(pos token.Pos) string {
	p := n.fset.Position(pos)
	if !p.IsValid() || strings.ContainsAny(p.Filename, "*\n") {
		return ""
	}
	return fmt.Sprintf("/*line %s:%d:%d*/", p.Filename, p.Line, p.Column)
}

func (n *normaliser) collectDecls() {
	n.decls = map[*types.Func]*declInfo{}
	for _, pk := range n.pkgs {
		if !isProdPkg(pk.PkgPath) {
			continue
		}
		for _, f := range pk.Syntax {
			fname := n.fileOf(f.Pos())
			if isGeneratedFileName(fname) || strings.HasSuffix(fname, "_test.go") {
				continue
			}
			for _, d := range f.Decls {
				fd, ok := d.(*ast.FuncDecl)
				if !ok || fd.Body == nil || fd.Name.Name == "_" {
					continue
				}
				obj, _ := pk.TypesInfo.Defs[fd.Name].(*types.Func)
				if obj == nil {
					continue
				}
				di := &declInfo{decl: fd, pkg: pk, file: f, key: declKey(pk, fd), obj: obj}
				if !n.inv[di.key] {
					di.ok, di.why = n.expandable(di)
				}
				n.decls[obj] = di
			}
		}
	}
}

// expandable: the body of the new function can stand in place of a call.
func (n *normaliser) expandable(di *declInfo) (bool, string) {
	fd := di.decl
	if fd.Name.Name == "init" || fd.Name.Name == "main" {
		return false, "init/main"
	}
	if ps := fd.Type.Params; ps != nil && len(ps.List) > 0 {
		if _, ok := ps.List[len(ps.List)-1].Type.(*ast.Ellipsis); ok {
			return false, "variadic"
		}
	}
	why := ""
	ast.Inspect(fd.Body, func(x ast.Node) bool {
		switch x := x.(type) {
		case *ast.DeferStmt:
			why = "defer"
		case *ast.CallExpr:
			if id, ok := x.Fun.(*ast.Ident); ok {
				if b, ok := di.pkg.TypesInfo.Uses[id].(*types.Builtin); ok && b.Name() == "recover" {
					why = "recover"
				}
			}
		case *ast.Ident:
			if di.pkg.TypesInfo.Uses[x] == types.Object(di.obj) {
				why = "recursive"
			}
		}
		return why == ""
	})
	return why == "", why
}

// staticCallee resolves a call expression to a declared repository function.
func (n *normaliser) staticCallee(pk *packages.Package, call *ast.CallExpr) (*declInfo, ast.Expr, *types.Selection) {
	fun := ast.Unparen(call.Fun)
	switch f := fun.(type) {
	case *ast.Ident:
		if o, ok := pk.TypesInfo.Uses[f].(*types.Func); ok {
			return n.decls[o.Origin()], nil, nil
		}
	case *ast.SelectorExpr:
		if sel := pk.TypesInfo.Selections[f]; sel != nil {
			if sel.Kind() != types.MethodVal {
				return nil, nil, nil
			}
			o, _ := sel.Obj().(*types.Func)
			if o == nil {
				return nil, nil, nil
			}
			if _, isIface := sel.Recv().Underlying().(*types.Interface); isIface {
				return nil, nil, nil
			}
			return n.decls[o.Origin()], f.X, sel
		}
		if o, ok := pk.TypesInfo.Uses[f.Sel].(*types.Func); ok {
			return n.decls[o.Origin()], nil, nil
		}
	}
	return nil, nil, nil
}

func (n *normaliser) eligibleCall(pk *packages.Package, e ast.Expr) (*ast.CallExpr, *declInfo, ast.Expr, *types.Selection) {
	call, ok := ast.Unparen(e).(*ast.CallExpr)
	if !ok || call.Ellipsis.IsValid() {
		return nil, nil, nil, nil
	}
	di, recv, sel := n.staticCallee(pk, call)
	if di == nil || !di.ok {
		return nil, nil, nil, nil
	}
	if di.pkg != pk && !di.obj.Exported() {
		return nil, nil, nil, nil
	}
	np := 0
	if di.decl.Type.Params != nil {
		for _, f := range di.decl.Type.Params.List {
			if len(f.Names) == 0 {
				np++
			} else {
				np += len(f.Names)
			}
		}
	}
	if np != len(call.Args) {
		return nil, nil, nil, nil
	}
	return call, di, recv, sel
}

// sites lists the call sites in statement position of every function body.
func (n *normaliser) sites() []*callSite {
	var out []*callSite
	for _, pk := range n.pkgs {
		if !isProdPkg(pk.PkgPath) {
			continue
		}
		for _, f := range pk.Syntax {
			fname := n.fileOf(f.Pos())
			if isGeneratedFileName(fname) || strings.HasSuffix(fname, "_test.go") {
				continue
			}
			for _, d := range f.Decls {
				fd, ok := d.(*ast.FuncDecl)
				if !ok || fd.Body == nil {
					continue
				}
				ast.Inspect(fd.Body, func(x ast.Node) bool {
					var list []ast.Stmt
					switch x := x.(type) {
					case *ast.BlockStmt:
						list = x.List
					case *ast.CaseClause:
						list = x.Body
					case *ast.CommClause:
						list = x.Body
					}
					for i, s := range list {
						var next ast.Stmt
						if i+1 < len(list) {
							next = list[i+1]
						}
						if cs := n.classify(pk, s, next); cs != nil {
							cs.pkg, cs.file, cs.encl = pk, f, fd
							out = append(out, cs)
						} else if cs := n.classifyHoist(pk, s); cs != nil {
							cs.pkg, cs.file, cs.encl = pk, f, fd
							out = append(out, cs)
						}
					}
					if ce, ok := x.(*ast.CallExpr); ok {
						if call, di, recv, sel := n.eligibleCall(pk, ce); call != nil && singleReturn(di.decl) != nil {
							out = append(out, &callSite{pkg: pk, file: f, encl: fd, stmt: &ast.ExprStmt{X: call}, call: call, callee: di, recv: recv, sel: sel, form: formInline})
						}
					}
					return true
				})
			}
		}
	}
	return out
}

func (n *normaliser) classify(pk *packages.Package, s ast.Stmt, next ast.Stmt) *callSite {
	mk := func(e ast.Expr, form int) *callSite {
		call, di, recv, sel := n.eligibleCall(pk, e)
		if call == nil {
			return nil
		}
		return &callSite{stmt: s, next: next, call: call, callee: di, recv: recv, sel: sel, form: form}
	}
	switch s := s.(type) {
	case *ast.ExprStmt:
		return mk(s.X, formExpr)
	case *ast.AssignStmt:
		if len(s.Rhs) == 1 && (s.Tok == token.DEFINE || s.Tok == token.ASSIGN) {
			return mk(s.Rhs[0], formAssign)
		}
	case *ast.ReturnStmt:
		if len(s.Results) == 1 {
			return mk(s.Results[0], formReturn)
		}
	case *ast.IfStmt:
		if s.Init != nil {
			switch in := s.Init.(type) {
			case *ast.AssignStmt:
				if len(in.Rhs) == 1 && (in.Tok == token.DEFINE || in.Tok == token.ASSIGN) {
					return mk(in.Rhs[0], formIfInit)
				}
			}
			return nil
		}
		c := ast.Unparen(s.Cond)
		neg := false
		if u, ok := c.(*ast.UnaryExpr); ok && u.Op == token.NOT {
			c, neg = ast.Unparen(u.X), true
		}
		if cs := mk(c, formIfCond); cs != nil {
			cs.negate = neg
			return cs
		}
	}
	return nil
}

// classifyHoist: the statement's outermost call has, among its arguments, a call of a new function that cannot be
// replaced in place; with the function operand and the earlier arguments free of effects (or moved along, in
// order), the argument can be computed in front of the statement.
func (n *normaliser) classifyHoist(pk *packages.Package, s ast.Stmt) *callSite {
	var root ast.Expr
	switch s := s.(type) {
	case *ast.ExprStmt:
		root = s.X
	case *ast.AssignStmt:
		if len(s.Rhs) == 1 {
			root = s.Rhs[0]
		}
	case *ast.ReturnStmt:
		if len(s.Results) == 1 {
			root = s.Results[0]
		}
	case *ast.IfStmt:
		if s.Init == nil {
			root = s.Cond
		} else if as, ok := s.Init.(*ast.AssignStmt); ok && len(as.Rhs) == 1 {
			root = as.Rhs[0]
		}
	}
	if root == nil {
		return nil
	}
	root = ast.Unparen(root)
	for {
		if u, ok := root.(*ast.UnaryExpr); ok && u.Op == token.NOT {
			root = ast.Unparen(u.X)
			continue
		}
		break
	}
	outer, ok := root.(*ast.CallExpr)
	if !ok || outer.Ellipsis.IsValid() {
		return nil
	}
	switch f := ast.Unparen(outer.Fun).(type) {
	case *ast.Ident:
	case *ast.SelectorExpr:
		if !pureStable(f.X) {
			return nil
		}
	default:
		return nil
	}
	if tv, ok := pk.TypesInfo.Types[outer.Fun]; ok && tv.IsType() {
		return nil // a conversion
	}
	for i, a := range outer.Args {
		call, di, recv, sel := n.eligibleCall(pk, a)
		if call == nil {
			continue
		}
		if res := di.decl.Type.Results; res == nil || len(res.List) != 1 || len(res.List[0].Names) > 1 {
			return nil
		}
		if len(outer.Args) == 1 {
			if _, isTuple := pk.TypesInfo.TypeOf(a).(*types.Tuple); isTuple {
				return nil
			}
		}
		return &callSite{stmt: s, call: call, callee: di, recv: recv, sel: sel, form: formHoist, outer: outer, upto: i}
	}
	return nil
}

// singleReturn: the body is exactly `return <one expression>`.
func singleReturn(d *ast.FuncDecl) ast.Expr {
	if d.Body == nil || len(d.Body.List) != 1 {
		return nil
	}
	r, ok := d.Body.List[0].(*ast.ReturnStmt)
	if !ok || len(r.Results) != 1 || d.Type.Results == nil || len(d.Type.Results.List) != 1 || len(d.Type.Results.List[0].Names) > 1 {
		return nil
	}
	return r.Results[0]
}

// terminates: the statements end by leaving the function, and contain no branch statement that a copy elsewhere
// would bind differently.
func terminates(b *ast.BlockStmt) bool {
	if b == nil || len(b.List) == 0 {
		return false
	}
	bad := false
	ast.Inspect(b, func(x ast.Node) bool {
		switch x.(type) {
		case *ast.BranchStmt, *ast.LabeledStmt:
			bad = true
		case *ast.FuncLit:
			return false
		}
		return !bad
	})
	if bad {
		return false
	}
	switch last := b.List[len(b.List)-1].(type) {
	case *ast.ReturnStmt:
		return true
	case *ast.ExprStmt:
		if c, ok := last.X.(*ast.CallExpr); ok {
			if id, ok := c.Fun.(*ast.Ident); ok && id.Name == "panic" {
				return true
			}
		}
	}
	return false
}

func isIdentNamed(e ast.Expr, name string) bool {
	id, ok := ast.Unparen(e).(*ast.Ident)
	return ok && id.Name == name
}

// errBailOut: `if <name> != nil { … leaves the function … }` without init and else.
func errBailOut(s ast.Stmt, name string) *ast.IfStmt {
	iff, ok := s.(*ast.IfStmt)
	if !ok || iff.Init != nil || iff.Else != nil || !terminates(iff.Body) {
		return nil
	}
	b, ok := ast.Unparen(iff.Cond).(*ast.BinaryExpr)
	if !ok || b.Op != token.NEQ {
		return nil
	}
	if (isIdentNamed(b.X, name) && isIdentNamed(b.Y, "nil")) || (isIdentNamed(b.Y, name) && isIdentNamed(b.X, "nil")) {
		return iff
	}
	return nil
}

// pureStable: an operand whose value cannot change while the callee runs and whose evaluation has no effect.
func pureStable(e ast.Expr) bool {
	switch x := e.(type) {
	case *ast.Ident:
		return true
	case *ast.ParenExpr:
		return pureStable(x.X)
	case *ast.SelectorExpr:
		return pureStable(x.X)
	}
	return false
}

type expansion struct {
	n      *normaliser
	cs     *callSite
	id     int
	info   *types.Info
	rename map[token.Pos]string // declaration position of a callee-local object → its new spelling
	qualify map[*ast.Ident]string // package-level names of a callee of another package → qualified spelling
	imports map[string]string     // imports the caller's file lacks (name → path)
	idents []*ast.Ident
	gotos  int
	label  string
	fail   bool
}

func (x *expansion) localKey(id *ast.Ident) (token.Pos, bool) {
	d := x.cs.callee.decl
	var pos token.Pos
	if o, ok := x.info.Defs[id]; ok {
		if o != nil {
			pos = o.Pos()
		} else {
			pos = id.Pos() // the symbolic variable of a type switch
		}
	} else if o := x.info.Uses[id]; o != nil {
		if _, isPkg := o.(*types.PkgName); isPkg {
			return 0, false
		}
		pos = o.Pos()
	} else {
		return 0, false
	}
	if pos >= d.Pos() && pos < d.End() && pos != d.Name.Pos() {
		return pos, true
	}
	return 0, false
}

// render returns the callee's source text between lo and hi with the local names replaced; `repl` are
// whole-node replacements (return statements) that take precedence over the identifier edits inside them.
func (x *expansion) render(lo, hi token.Pos, repl []textEdit) string {
	n := x.n
	var edits []textEdit
	edits = append(edits, repl...)
	inside := func(o int) bool {
		for _, r := range repl {
			if o >= r.start && o < r.end {
				return true
			}
		}
		return false
	}
	for _, id := range x.idents {
		if id.Pos() < lo || id.End() > hi || id.Name == "_" {
			continue
		}
		nn, isQ := x.qualify[id]
		if !isQ {
			k, ok := x.localKey(id)
			if !ok {
				continue
			}
			nn, ok = x.rename[k]
			if !ok {
				continue
			}
		}
		o := n.off(id.Pos())
		if inside(o) {
			continue
		}
		edits = append(edits, textEdit{start: o, end: n.off(id.End()), text: nn})
	}
	sort.Slice(edits, func(i, j int) bool { return edits[i].start < edits[j].start })
	src := n.content(n.fileOf(lo))
	var b strings.Builder
	cur := n.off(lo)
	for _, e := range edits {
		if e.start < cur {
			continue
		}
		b.Write(src[cur:e.start])
		b.WriteString(e.text)
		cur = e.end
	}
	b.Write(src[cur:n.off(hi)])
	return b.String()
}

type resultVar struct {
	name  string // named result of the callee ("" when unnamed)
	typ   ast.Expr
	tmp   string
	isErr bool
	isB   bool
}

// expand builds the edits that replace one call site; nil when the site has a form that is left alone.
func (n *normaliser) expand(cs *callSite) []textEdit {
	*n.counter++
	x := &expansion{n: n, cs: cs, id: *n.counter, info: cs.callee.pkg.TypesInfo, rename: map[token.Pos]string{}, qualify: map[*ast.Ident]string{}, imports: map[string]string{}}
	cs.exp = x
	if cs.form == formHoist {
		// the argument (and every earlier argument with a possible effect, in order) gets a temporary in front of
		// the statement; the next round replaces the call that now stands in statement position
		var pre strings.Builder
		var eds []textEdit
		file := n.fileOf(cs.stmt.Pos())
		for j := 0; j <= cs.upto; j++ {
			a := cs.outer.Args[j]
			tv := cs.pkg.TypesInfo.Types[a]
			if j < cs.upto && (pureStable(a) || tv.Value != nil || tv.IsNil()) {
				continue
			}
			if _, isFn := ast.Unparen(a).(*ast.FuncLit); isFn {
				return n.skip(cs, "an earlier argument is a function literal")
			}
			tmp := fmt.Sprintf("_h%d_%d", x.id, j)
			fmt.Fprintf(&pre, "%s := %s%s; ", tmp, n.lineDir(a.Pos()), n.src(a.Pos(), a.End()))
			eds = append(eds, textEdit{file, n.off(a.Pos()), n.off(a.End()), tmp + n.lineDir(a.End())})
		}
		eds = append(eds, textEdit{file, n.off(cs.stmt.Pos()), n.off(cs.stmt.Pos()), pre.String() + n.lineDir(cs.stmt.Pos())})
		return eds
	}
	x.label = fmt.Sprintf("_L%d", x.id)
	d := cs.callee.decl
	callerInfo := cs.pkg.TypesInfo
	ast.Inspect(d, func(nd ast.Node) bool {
		if id, ok := nd.(*ast.Ident); ok {
			x.idents = append(x.idents, id)
		}
		return true
	})
	// free names of the callee must mean the same thing at the call site
	scope := cs.pkg.Types.Scope().Innermost(cs.call.Pos())
	if scope == nil {
		return n.skip(cs, "form not handled (normalise.go:548)")
	}
	calleeFile := n.fileOf(d.Pos())
	callerFile := n.fileOf(cs.call.Pos())
	cross := cs.callee.pkg != cs.pkg
	qualName := ""
	if cross {
		for _, imp := range cs.file.Imports {
			if strings.Trim(imp.Path.Value, `"`) == cs.callee.pkg.PkgPath {
				qualName = cs.callee.pkg.Types.Name()
				if imp.Name != nil {
					qualName = imp.Name.Name
				}
			}
		}
		if qualName == "" || qualName == "." || qualName == "_" {
			return n.skip(cs, "the caller's file does not import the callee's package by name")
		}
		_, co := scope.LookupParent(qualName, cs.call.Pos())
		if cp, ok := co.(*types.PkgName); !ok || cp.Imported() != cs.callee.pkg.Types {
			return n.skip(cs, "the package name "+qualName+" is shadowed at the call site")
		}
	}
	for _, id := range x.idents {
		if _, local := x.localKey(id); local || id.Name == "_" {
			continue
		}
		o := x.info.Uses[id]
		if o == nil {
			continue
		}
		switch o := o.(type) {
		case *types.PkgName:
			_, co := scope.LookupParent(id.Name, cs.call.Pos())
			cp, ok := co.(*types.PkgName)
			if !ok || cp.Imported() != o.Imported() {
				if co != nil || calleeFile == callerFile {
					return n.skip(cs, "the name "+id.Name+" means something else at the call site")
				}
				// the callee's file imports a package the caller's file does not: the import is added
				if prev, ok := n.addImport[callerFile][id.Name]; ok && prev != o.Imported().Path() {
					return n.skip(cs, "two imports named "+id.Name)
				}
				x.imports[id.Name] = o.Imported().Path()
			}
		default:
			if o.Parent() == types.Universe || (!cross && o.Pkg() == cs.callee.pkg.Types && o.Parent() == o.Pkg().Scope()) {
				if _, co := scope.LookupParent(id.Name, cs.call.Pos()); co != o {
					return n.skip(cs, "the name "+id.Name+" means something else at the call site")
				}
			}
			if cross && o.Pkg() == cs.callee.pkg.Types {
				// a callee of another package: what it names must be visible from here, and is qualified
				if !o.Exported() {
					return n.skip(cs, "refers to the unexported "+id.Name+" of its package")
				}
				if o.Parent() == o.Pkg().Scope() {
					x.qualify[id] = qualName + "." + id.Name
				}
			}
		}
	}
	// every local name of the callee gets a suffix: nothing of the caller can be captured, and nothing of the
	// callee can shadow what the caller's own text (arguments, copied bail-out) refers to
	for _, id := range x.idents {
		if id.Name == "_" {
			continue
		}
		if k, ok := x.localKey(id); ok {
			if _, done := x.rename[k]; !done {
				name := id.Name
				if o := x.info.Uses[id]; o != nil {
					name = o.Name()
				}
				x.rename[k] = fmt.Sprintf("%s_i%d", name, x.id)
			}
		}
	}
	var pre, bind strings.Builder
	// type parameters: local aliases of the instantiation's type arguments
	if tps := d.Type.TypeParams; tps != nil {
		fun := ast.Unparen(cs.call.Fun)
		if se, isSel := fun.(*ast.SelectorExpr); isSel {
			fun = se.Sel
		}
		fid, ok := fun.(*ast.Ident)
		if !ok {
			return n.skip(cs, "form not handled (normalise.go:607)")
		}
		inst, ok := callerInfo.Instances[fid]
		if !ok {
			return n.skip(cs, "form not handled (normalise.go:611)")
		}
		i := 0
		qual := func(p *types.Package) string {
			if p == cs.pkg.Types {
				return ""
			}
			for _, imp := range cs.file.Imports {
				path := strings.Trim(imp.Path.Value, `"`)
				if path == p.Path() {
					if imp.Name != nil {
						return imp.Name.Name
					}
					return p.Name()
				}
			}
			x.fail = true
			return p.Name()
		}
		for _, f := range tps.List {
			for _, nm := range f.Names {
				if i >= inst.TypeArgs.Len() {
					return n.skip(cs, "form not handled (normalise.go:633)")
				}
				ts := types.TypeString(inst.TypeArgs.At(i), qual)
				if strings.Contains(ts, "struct{") || strings.Contains(ts, "interface{") && ts != "interface{}" {
					return n.skip(cs, "form not handled (normalise.go:637)")
				}
				if o := x.info.Defs[nm]; o != nil {
					fmt.Fprintf(&pre, "type %s = %s; ", x.rename[o.Pos()], ts)
				}
				i++
			}
		}
		if x.fail {
			return n.skip(cs, "form not handled (normalise.go:646)")
		}
	}
	// parameters and receiver
	written := x.writtenObjects()
	type param struct {
		id  *ast.Ident
		typ ast.Expr
		arg string
		raw ast.Expr
	}
	var params []param
	if d.Recv != nil && len(d.Recv.List) == 1 {
		if cs.recv == nil || cs.sel == nil {
			return n.skip(cs, "form not handled (normalise.go:660)")
		}
		rf := d.Recv.List[0]
		argText := n.src(cs.recv.Pos(), cs.recv.End())
		// the path through embedded fields, then the implicit & or *
		t := callerInfo.TypeOf(cs.recv)
		idx := cs.sel.Index()
		for _, fi := range idx[:len(idx)-1] {
			if pt, ok := t.Underlying().(*types.Pointer); ok {
				t = pt.Elem()
			}
			st, ok := t.Underlying().(*types.Struct)
			if !ok {
				return n.skip(cs, "form not handled (normalise.go:673)")
			}
			argText += "." + st.Field(fi).Name()
			t = st.Field(fi).Type()
		}
		_, recvPtr := x.info.TypeOf(rf.Type).(*types.Pointer)
		_, argPtr := t.Underlying().(*types.Pointer)
		raw := cs.recv
		switch {
		case recvPtr && !argPtr:
			argText = "(&" + argText + ")"
			raw = nil
		case !recvPtr && argPtr:
			argText = "(*" + argText + ")"
			raw = nil
		}
		var id *ast.Ident
		if len(rf.Names) == 1 {
			id = rf.Names[0]
		}
		params = append(params, param{id, rf.Type, argText, raw})
	}
	ai := 0
	if d.Type.Params != nil {
		for _, f := range d.Type.Params.List {
			names := f.Names
			if len(names) == 0 {
				names = []*ast.Ident{nil}
			}
			for _, nm := range names {
				a := cs.call.Args[ai]
				ai++
				params = append(params, param{nm, f.Type, n.src(a.Pos(), a.End()), a})
			}
		}
	}
	for _, p := range params {
		typ := x.render(p.typ.Pos(), p.typ.End(), nil)
		conv := "(" + typ + ")(" + p.arg + ")"
		if p.id == nil || p.id.Name == "_" {
			fmt.Fprintf(&bind, "_ = %s; ", conv)
			continue
		}
		o := x.info.Defs[p.id]
		if o == nil {
			return n.skip(cs, "form not handled (normalise.go:718)")
		}
		subst := false
		if p.raw != nil && !written[o.Pos()] {
			tv := callerInfo.Types[p.raw]
			switch {
			case tv.Value != nil || tv.IsNil():
				x.rename[o.Pos()], subst = conv, true
			case pureStable(p.raw):
				if types.Identical(tv.Type, o.Type()) || d.Type.TypeParams != nil {
					x.rename[o.Pos()] = "(" + p.arg + ")"
				} else {
					x.rename[o.Pos()] = conv
				}
				subst = true
			}
		} else if p.raw == nil && !written[o.Pos()] && pureStable(cs.recv) {
			x.rename[o.Pos()], subst = p.arg, true
		}
		if !subst {
			fmt.Fprintf(&bind, "var %s = %s; _ = %s; ", x.rename[o.Pos()], conv, x.rename[o.Pos()])
		}
	}
	// results
	var results []resultVar
	if d.Type.Results != nil {
		k := 0
		for _, f := range d.Type.Results.List {
			names := f.Names
			if len(names) == 0 {
				names = []*ast.Ident{nil}
			}
			for _, nm := range names {
				k++
				rv := resultVar{typ: f.Type, tmp: fmt.Sprintf("_r%d_%d", k, x.id)}
				if nm != nil && nm.Name != "_" {
					if o := x.info.Defs[nm]; o != nil {
						rv.name = x.rename[o.Pos()]
					}
				}
				t := x.info.TypeOf(f.Type)
				rv.isErr = t != nil && types.Identical(t, errorType)
				if bt, ok := t.(*types.Basic); ok && bt.Kind() == types.Bool {
					rv.isB = true
				}
				results = append(results, rv)
			}
		}
	}
	if cs.form == formInline {
		e := singleReturn(d)
		if e == nil || bind.Len() > 0 || pre.Len() > 0 || len(results) != 1 || results[0].name != "" {
			return n.skip(cs, "an argument would be evaluated more than once or not at all")
		}
		typ := x.render(results[0].typ.Pos(), results[0].typ.End(), nil)
		text := "((" + typ + ")(" + x.render(e.Pos(), e.End(), nil) + "))"
		if tv, ok := x.info.Types[e]; ok && tv.Value == nil && !tv.IsNil() && types.Identical(tv.Type, x.info.TypeOf(results[0].typ)) {
			// the expression already has the result type: no conversion (a conversion would turn a short-circuit
			// condition into a computed value)
			text = "(" + x.render(e.Pos(), e.End(), nil) + ")"
		}
		return []textEdit{{n.fileOf(cs.call.Pos()), n.off(cs.call.Pos()), n.off(cs.call.End()), text + n.lineDir(cs.call.End())}}
	}
	for _, rv := range results {
		typ := x.render(rv.typ.Pos(), rv.typ.End(), nil)
		if rv.name != "" {
			fmt.Fprintf(&bind, "var %s %s; _ = %s; ", rv.name, typ, rv.name)
		}
	}
	// how the caller consumes the results decides what a return of the callee becomes
	mode := "merge"
	var bail *ast.IfStmt  // the caller's bail-out on failure
	var lhs []ast.Expr    // where the caller puts the results
	var lhsDefine bool    // … by := (in the scope of an if statement when form is formIfInit)
	regionEnd := cs.stmt.End()
	last := len(results) - 1
	switch cs.form {
	case formReturn:
		mode = "tail"
	case formIfInit:
		iff := cs.stmt.(*ast.IfStmt)
		as := iff.Init.(*ast.AssignStmt)
		lhs, lhsDefine = as.Lhs, as.Tok == token.DEFINE
		if last >= 0 && results[last].isErr && len(as.Lhs) == len(results) && iff.Else == nil {
			if id, ok := as.Lhs[last].(*ast.Ident); ok && id.Name != "_" {
				probe := &ast.IfStmt{Cond: iff.Cond, Body: iff.Body}
				if errBailOut(probe, id.Name) != nil {
					mode, bail = "bail", iff
				}
			}
		}
	case formAssign:
		as := cs.stmt.(*ast.AssignStmt)
		lhs, lhsDefine = as.Lhs, as.Tok == token.DEFINE
		if last >= 0 && results[last].isErr && len(as.Lhs) == len(results) && cs.next != nil {
			if id, ok := as.Lhs[last].(*ast.Ident); ok && id.Name != "_" {
				if b := errBailOut(cs.next, id.Name); b != nil {
					mode, bail = "bail", b
					regionEnd = cs.next.End()
				}
			}
		}
	case formIfCond:
		iff := cs.stmt.(*ast.IfStmt)
		if len(results) == 1 && results[0].isB && iff.Else == nil && terminates(iff.Body) {
			mode, bail = "boolbail", iff
		}
	}
	if len(lhs) > 0 && len(lhs) != len(results) {
		return n.skip(cs, "form not handled (normalise.go:813)")
	}
	tmps := make([]string, len(results))
	for i, rv := range results {
		tmps[i] = rv.tmp
	}
	failText := ""
	if bail != nil {
		failText = n.lineDir(bail.Body.Lbrace+1) + n.src(bail.Body.Lbrace+1, bail.Body.Rbrace)
	}
	// binding of the caller's names inside a copied bail-out
	bailBind := func() string {
		var b strings.Builder
		for i, l := range lhs {
			lt := n.src(l.Pos(), l.End())
			if lt == "_" {
				continue
			}
			id, isId := l.(*ast.Ident)
			if lhsDefine && isId && callerInfo.Defs[id] != nil {
				fmt.Fprintf(&b, "%s := %s; _ = %s; ", lt, tmps[i], lt)
			} else {
				fmt.Fprintf(&b, "%s = %s; ", lt, tmps[i])
			}
		}
		return b.String()
	}
	// rewrite the returns of the callee
	var repl []textEdit
	body := d.Body
	var lastStmt ast.Stmt
	if len(body.List) > 0 {
		lastStmt = body.List[len(body.List)-1]
	}
	var walk func(nd ast.Node) bool
	walk = func(nd ast.Node) bool {
		switch r := nd.(type) {
		case *ast.FuncLit:
			return false
		case *ast.ReturnStmt:
			var vals []string
			for _, e := range r.Results {
				vals = append(vals, x.render(e.Pos(), e.End(), nil))
			}
			if len(r.Results) == 0 {
				for _, rv := range results {
					if rv.name == "" {
						if len(results) > 0 {
							x.fail = true
						}
						break
					}
					vals = append(vals, rv.name)
				}
			}
			spread := len(vals) == 1 && len(results) > 1 // return g() forwarding several values
			isLast := ast.Stmt(r) == lastStmt
			jump := ""
			if !isLast {
				jump = "goto " + x.label
				x.gotos++
			}
			var t strings.Builder
			t.WriteString("{ ")
			assign := func() {
				if len(results) > 0 {
					fmt.Fprintf(&t, "%s = %s; ", strings.Join(tmps, ", "), strings.Join(vals, ", "))
				}
			}
			switch mode {
			case "tail":
				if !isLast {
					x.gotos--
				}
				if spread || len(vals) == 0 {
					fmt.Fprintf(&t, "return %s ", strings.Join(vals, ", "))
				} else {
					var cv []string
					for i, v := range vals {
						cv = append(cv, "("+x.render(results[i].typ.Pos(), results[i].typ.End(), nil)+")("+v+")")
					}
					fmt.Fprintf(&t, "return %s ", strings.Join(cv, ", "))
				}
			case "bail":
				errNil := !spread && len(r.Results) > 0 && isIdentNamed(r.Results[len(r.Results)-1], "nil")
				if errNil {
					if len(results) > 1 {
						fmt.Fprintf(&t, "%s = %s; ", strings.Join(tmps[:last], ", "), strings.Join(vals[:last], ", "))
					}
				} else {
					assign()
					fmt.Fprintf(&t, "if %s != nil { %s%s }; ", tmps[last], bailBind(), failText+x.n.lineDir(r.End()))
				}
				t.WriteString(jump + " ")
			case "boolbail":
				v := vals[0]
				fires := "" // the constant outcome
				if len(r.Results) == 1 {
					if isIdentNamed(r.Results[0], "true") {
						fires = "true"
					} else if isIdentNamed(r.Results[0], "false") {
						fires = "false"
					}
				}
				switch {
				case fires != "" && (fires == "true") != cs.negate:
					// the caller's condition holds: its body runs (and leaves the function)
					if !isLast {
						x.gotos--
					}
					fmt.Fprintf(&t, "%s ", failText+x.n.lineDir(r.End()))
				case fires != "":
					t.WriteString(jump + " ")
				default:
					neg := ""
					if cs.negate {
						neg = "!"
					}
					fmt.Fprintf(&t, "if %s(%s) { %s }; %s ", neg, v, failText+x.n.lineDir(r.End()), jump)
				}
			default:
				assign()
				t.WriteString(jump + " ")
			}
			t.WriteString("}")
			repl = append(repl, textEdit{start: n.off(r.Pos()), end: n.off(r.End()), text: t.String() + n.lineDir(r.End())})
			return false
		}
		return true
	}
	ast.Inspect(body, walk)
	if x.fail {
		return n.skip(cs, "form not handled (normalise.go:945)")
	}
	bodyText := n.lineDir(body.Lbrace+1) + x.render(body.Lbrace+1, body.Rbrace, repl)
	// assemble
	var out strings.Builder
	out.WriteString(pre.String())
	if mode != "tail" && mode != "boolbail" {
		for _, rv := range results {
			fmt.Fprintf(&out, "var %s %s; _ = %s; ", rv.tmp, x.render(rv.typ.Pos(), rv.typ.End(), nil), rv.tmp)
		}
	}
	out.WriteString("{ " + bind.String() + bodyText + " }; ")
	if x.gotos > 0 {
		out.WriteString(x.label + ": ; ")
	}
	stmtStart := n.off(cs.stmt.Pos())
	file := n.fileOf(cs.stmt.Pos())
	use := func() string {
		var b strings.Builder
		for _, l := range lhs {
			if id, ok := l.(*ast.Ident); ok && id.Name != "_" {
				fmt.Fprintf(&b, "; _ = %s", id.Name)
			}
		}
		return b.String()
	}
	switch mode {
	case "tail":
		return []textEdit{{file, stmtStart, n.off(cs.stmt.End()), out.String() + n.lineDir(cs.stmt.End())}}
	case "boolbail":
		return []textEdit{{file, stmtStart, n.off(cs.stmt.End()), out.String() + n.lineDir(cs.stmt.End())}}
	case "bail":
		if cs.form == formAssign {
			as := cs.stmt.(*ast.AssignStmt)
			fmt.Fprintf(&out, "%s %s %s%s; ", n.src(as.Lhs[0].Pos(), as.Lhs[len(as.Lhs)-1].End()), as.Tok, strings.Join(tmps, ", "), use())
		}
		if cs.form == formIfInit && !lhsDefine {
			// `if x, err = f(…); err != nil {…}` assigns variables that outlive the statement
			as := cs.stmt.(*ast.IfStmt).Init.(*ast.AssignStmt)
			fmt.Fprintf(&out, "%s = %s; ", n.src(as.Lhs[0].Pos(), as.Lhs[len(as.Lhs)-1].End()), strings.Join(tmps, ", "))
		}
		return []textEdit{{file, stmtStart, n.off(regionEnd), out.String() + n.lineDir(regionEnd)}}
	}
	// merge: the body is hoisted in front of the statement and the call is replaced by the temporaries
	switch cs.form {
	case formExpr:
		return []textEdit{{file, stmtStart, n.off(cs.stmt.End()), out.String() + n.lineDir(cs.stmt.End())}}
	case formIfCond:
		if len(results) != 1 {
			return n.skip(cs, "form not handled (normalise.go:989)")
		}
	}
	if len(results) == 0 {
		return n.skip(cs, "form not handled (normalise.go:993)")
	}
	return []textEdit{
		{file, stmtStart, stmtStart, out.String() + n.lineDir(cs.stmt.Pos())},
		{file, n.off(cs.call.Pos()), n.off(cs.call.End()), strings.Join(tmps, ", ") + n.lineDir(cs.call.End())},
	}
}

// writtenObjects: the callee-local variables that are assigned, incremented, address-taken or have a
// pointer-receiver method called on them (declaration position → true).
func (x *expansion) writtenObjects() map[token.Pos]bool {
	w := map[token.Pos]bool{}
	root := func(e ast.Expr) *ast.Ident {
		for {
			switch y := e.(type) {
			case *ast.ParenExpr:
				e = y.X
			case *ast.SelectorExpr:
				e = y.X
			case *ast.IndexExpr:
				e = y.X
			case *ast.StarExpr:
				return nil // writes through a pointer do not change the variable itself
			case *ast.Ident:
				return y
			default:
				return nil
			}
		}
	}
	mark := func(e ast.Expr) {
		if id := root(e); id != nil {
			if o := x.info.Uses[id]; o != nil {
				w[o.Pos()] = true
			}
		}
	}
	ast.Inspect(x.cs.callee.decl.Body, func(nd ast.Node) bool {
		switch s := nd.(type) {
		case *ast.AssignStmt:
			for _, l := range s.Lhs {
				// a field or element written through a pointer-typed variable leaves the variable alone
				if id := root(l); id != nil {
					if se, ok := ast.Unparen(l).(*ast.SelectorExpr); ok {
						if _, isPtr := x.info.TypeOf(se.X).Underlying().(*types.Pointer); isPtr {
							continue
						}
					}
					if ie, ok := ast.Unparen(l).(*ast.IndexExpr); ok {
						switch x.info.TypeOf(ie.X).Underlying().(type) {
						case *types.Slice, *types.Map, *types.Pointer:
							continue
						}
					}
					mark(l)
				}
			}
		case *ast.IncDecStmt:
			mark(s.X)
		case *ast.RangeStmt:
			if s.Tok == token.ASSIGN {
				if s.Key != nil {
					mark(s.Key)
				}
				if s.Value != nil {
					mark(s.Value)
				}
			}
		case *ast.UnaryExpr:
			if s.Op == token.AND {
				mark(s.X)
			}
		case *ast.SelectorExpr:
			if sel := x.info.Selections[s]; sel != nil && sel.Kind() == types.MethodVal {
				if f, ok := sel.Obj().(*types.Func); ok {
					if r := f.Type().(*types.Signature).Recv(); r != nil {
						_, rp := r.Type().(*types.Pointer)
						_, xp := x.info.TypeOf(s.X).Underlying().(*types.Pointer)
						if rp && !xp {
							mark(s.X)
						}
					}
				}
			}
		}
		return true
	})
	return w
}

// pass performs one round: the call sites whose callee contains no further expandable site are expanded.
func (n *normaliser) pass() (map[string][]byte, int) {
	n.collectDecls()
	sites := n.sites()
	if len(sites) == 0 {
		return nil, 0
	}
	hasSite := map[*ast.FuncDecl]bool{}
	for _, s := range sites {
		hasSite[s.encl] = true
	}
	// innermost regions first; overlapping regions wait for the next round
	sort.SliceStable(sites, func(i, j int) bool {
		return sites[i].stmt.End()-sites[i].stmt.Pos() < sites[j].stmt.End()-sites[j].stmt.Pos()
	})
	type span struct{ lo, hi int }
	taken := map[string][]span{}
	perFile := map[string][]textEdit{}
	count := 0
	for _, s := range sites {
		if hasSite[s.callee.decl] {
			continue
		}
		file := n.fileOf(s.stmt.Pos())
		lo, hi := n.off(s.stmt.Pos()), n.off(s.stmt.End())
		if s.next != nil {
			hi = n.off(s.next.End())
		}
		clash := false
		for _, t := range taken[file] {
			if lo < t.hi && t.lo < hi {
				clash = true
			}
		}
		if clash {
			continue
		}
		eds := n.expand(s)
		if eds == nil {
			continue
		}
		if len(s.exp.imports) > 0 {
			if n.addImport[file] == nil {
				n.addImport[file] = map[string]string{}
			}
			clashImp := false
			for nm, path := range s.exp.imports {
				if prev, ok := n.addImport[file][nm]; ok && prev != path {
					clashImp = true
				}
			}
			if clashImp {
				continue
			}
			for nm, path := range s.exp.imports {
				n.addImport[file][nm] = path
			}
			n.importAt[file] = n.off(s.file.Name.End())
		}
		taken[file] = append(taken[file], span{lo, hi})
		perFile[file] = append(perFile[file], eds...)
		count++
		*n.log = append(*n.log, fmt.Sprintf("expanded %s at %s", s.callee.key, n.fset.Position(s.call.Pos())))
	}
	if count == 0 {
		return nil, 0
	}
	out := map[string][]byte{}
	for file, eds := range perFile {
		if imps := n.addImport[file]; len(imps) > 0 {
			var names []string
			for nm := range imps {
				names = append(names, nm)
			}
			sort.Strings(names)
			t := ""
			for _, nm := range names {
				t += fmt.Sprintf("; import %s %q", nm, imps[nm])
			}
			eds = append(eds, textEdit{file, n.importAt[file], n.importAt[file], t})
		}
		out[file] = applyEdits(n.content(file), eds)
	}
	return out, count
}

func applyEdits(src []byte, eds []textEdit) []byte {
	sort.SliceStable(eds, func(i, j int) bool { return eds[i].start < eds[j].start })
	var b bytes.Buffer
	cur := 0
	for _, e := range eds {
		if e.start < cur {
			continue
		}
		b.Write(src[cur:e.start])
		b.WriteString(e.text)
		cur = e.end
	}
	b.Write(src[cur:])
	return b.Bytes()
}

// blankUnreferenced renames the new functions that nothing refers to any more to `_`.
func (n *normaliser) blankUnreferenced() (map[string][]byte, int) {
	n.collectDecls()
	refs := map[*types.Func]int{}
	for _, pk := range n.pkgs {
		for id, o := range pk.TypesInfo.Uses {
			_ = id
			if f, ok := o.(*types.Func); ok {
				refs[f.Origin()]++
			}
		}
	}
	perFile := map[string][]textEdit{}
	count := 0
	var ifaceNames map[string]bool
	for obj, di := range n.decls {
		if n.inv[di.key] || refs[obj] > 0 || !di.ok {
			continue
		}
		if di.decl.Recv != nil && obj.Exported() {
			if ifaceNames == nil {
				ifaceNames = interfaceMethodNames(n.pkgs)
			}
			if ifaceNames[obj.Name()] {
				continue // may be called through an interface
			}
		}
		file := n.fileOf(di.decl.Pos())
		perFile[file] = append(perFile[file], textEdit{file, n.off(di.decl.Name.Pos()), n.off(di.decl.Name.End()), "_"})
		*n.log = append(*n.log, "dropped "+di.key+" (every call expanded)")
		count++
	}
	out := map[string][]byte{}
	for file, eds := range perFile {
		out[file] = applyEdits(n.content(file), eds)
	}
	return out, count
}

// lastLoadErrors: the type errors of the most recent failed reload (set by the loader callback).
var lastLoadErrors []packages.Error

var unusedImportRe = regexp.MustCompile(`^"([^"]+)" imported (as \S+ )?and not used$`)

// fixUnusedImports turns every import reported as unused into a blank import of the same package.
func fixUnusedImports(files map[string][]byte, errs []packages.Error) bool {
	fixed := false
	for _, e := range errs {
		m := unusedImportRe.FindStringSubmatch(e.Msg)
		if m == nil {
			continue
		}
		parts := strings.Split(e.Pos, ":")
		if len(parts) < 2 {
			continue
		}
		file := parts[0]
		line, err := strconv.Atoi(parts[1])
		src, ok := files[file]
		if err != nil || !ok {
			if b, rerr := os.ReadFile(file); rerr == nil && err == nil {
				src, ok = b, true
			}
		}
		if !ok {
			continue
		}
		lines := strings.Split(string(src), "\n")
		if line < 1 || line > len(lines) {
			continue
		}
		q := `"` + m[1] + `"`
		l := lines[line-1]
		i := strings.Index(l, q)
		if i < 0 {
			continue
		}
		// drop an alias in front of the path, put the blank identifier there
		head := strings.TrimRight(l[:i], " \t")
		j := len(head)
		for j > 0 && (head[j-1] == '_' || head[j-1] == '.' || head[j-1] >= '0' && head[j-1] <= '9' || head[j-1] >= 'a' && head[j-1] <= 'z' || head[j-1] >= 'A' && head[j-1] <= 'Z') {
			j--
		}
		if w := head[j:]; w == "import" {
			j = len(head)
			head += " "
		}
		lines[line-1] = head[:j] + "_ " + l[i:]
		files[file] = []byte(strings.Join(lines, "\n"))
		fixed = true
	}
	return fixed
}

// interfaceMethodNames: the names of all methods of all interface types declared in the loaded packages and the
// packages they import (transitively).
func interfaceMethodNames(pkgs []*packages.Package) map[string]bool {
	names := map[string]bool{}
	seen := map[*types.Package]bool{}
	var visit func(tp *types.Package)
	visit = func(tp *types.Package) {
		if tp == nil || seen[tp] {
			return
		}
		seen[tp] = true
		sc := tp.Scope()
		for _, nm := range sc.Names() {
			tn, ok := sc.Lookup(nm).(*types.TypeName)
			if !ok {
				continue
			}
			if it, ok := tn.Type().Underlying().(*types.Interface); ok {
				for i := 0; i < it.NumMethods(); i++ {
					names[it.Method(i).Name()] = true
				}
			}
		}
		for _, imp := range tp.Imports() {
			visit(imp)
		}
	}
	for _, pk := range pkgs {
		visit(pk.Types)
	}
	return names
}

// Normalise rewrites overlay (absolute file → content) until no call to a new function in statement position is
// left; load re-type-checks the tree with an overlay. Returns the packages to analyse and a log.
func Normalise(pkgs []*packages.Package, overlay map[string][]byte, load func(map[string][]byte) ([]*packages.Package, bool)) ([]*packages.Package, map[string][]byte, []string) {
	inv := inventory()
	for nk := range computeRenames(pkgs) {
		inv[nk] = true // a renamed function of the inventory, not a new helper
	}
	anyNew := false
	for _, k := range declaredFuncKeys(pkgs) {
		if !inv[k] {
			anyNew = true
		}
	}
	if !anyNew {
		return pkgs, overlay, nil
	}
	var log []string
	counter := 0
	cur := overlay
	for round := 0; round < 6; round++ {
		final := round == 5
		n := &normaliser{pkgs: pkgs, fset: pkgs[0].Fset, inv: inv, counter: &counter, log: &log, addImport: map[string]map[string]string{}, importAt: map[string]int{}}
		snapshot := cur
		n.content = func(file string) []byte {
			if b, ok := snapshot[file]; ok {
				return b
			}
			b, err := os.ReadFile(file)
			if err != nil {
				infraFail("normalise: %v", err)
			}
			return b
		}
		mark := len(log)
		changed, cnt := n.pass()
		blanking := false
		if cnt == 0 || final {
			changed, cnt = n.blankUnreferenced()
			blanking = true
			if cnt == 0 {
				break
			}
		}
		next := map[string][]byte{}
		for k, v := range cur {
			next[k] = v
		}
		for k, v := range changed {
			next[k] = v
		}
		np, ok := load(next)
		if !ok && len(lastLoadErrors) > 0 {
			// an import whose every use was in replaced text: it becomes a blank import, and the load is retried once
			if fixUnusedImports(next, lastLoadErrors) {
				np, ok = load(next)
			}
		}
		if !ok {
			log = append(log[:mark], "a rewritten file did not type-check: the last round of rewriting was discarded")
			if os.Getenv("GOATVERIF_KEEP_NORMALISED") != "" {
				for k, v := range changed {
					os.WriteFile(os.Getenv("GOATVERIF_KEEP_NORMALISED")+"/"+strings.ReplaceAll(strings.TrimPrefix(k, "/"), "/", "__")+".rejected", v, 0o644)
				}
			}
			break
		}
		pkgs, cur = np, next
		if blanking {
			break
		}
	}
	if d := os.Getenv("GOATVERIF_KEEP_NORMALISED"); d != "" {
		for k, v := range cur {
			os.WriteFile(d+"/"+strings.ReplaceAll(strings.TrimPrefix(k, "/"), "/", "__"), v, 0o644)
		}
	}
	return pkgs, cur, log
}
