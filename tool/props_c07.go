package main

import (
	"fmt"
	"go/token"
	"go/types"
	"sort"
	"strings"

	"golang.org/x/tools/go/ssa"
)

func init() { register("C07", propC07) }

var nondetExt = []string{
	"time.Now", "time.Since", "time.Until", "time.After", "time.Sleep", "time.Tick", "time.NewTimer", "time.NewTicker", "time.AfterFunc",
	"math/rand.", "math/rand/v2.", "crypto/rand.", "os.Getenv", "os.LookupEnv", "os.Environ", "os.Hostname", "os.Getpid",
	"runtime.NumGoroutine", "runtime.NumCPU", "runtime.GOMAXPROCS",
	"(*golang.org/x/sync/errgroup.Group).Go", "(*sync.WaitGroup).", "(*sync.Pool).New",
}

// loopBlocks: the strongly connected component of the block containing instr `in`.
func loopBlocks(r *Renderer, header *ssa.BasicBlock) []*ssa.BasicBlock {
	var out []*ssa.BasicBlock
	fromH := r.blockReach(header)
	for _, b := range header.Parent().Blocks {
		if (b == header || fromH[b]) && (b == header || r.blockReach(b)[header]) {
			if b == header && !fromH[header] {
				continue
			}
			out = append(out, b)
		}
	}
	return out
}

// observabilitySink: the call hands its arguments to logging or metrics, which no consensus value depends on.
func observabilitySink(c *ssa.CallCommon) bool {
	if c.IsInvoke() {
		if nt := namedOf(c.Value.Type()); nt != nil && nt.Obj().Pkg() != nil {
			path := nt.Obj().Pkg().Path()
			return path == "cosmossdk.io/log" && nt.Obj().Name() == "Logger"
		}
		return false
	}
	f := calleeFunc(c)
	if f == nil || f.Pkg() == nil {
		return false
	}
	switch f.Pkg().Path() {
	case "github.com/cosmos/cosmos-sdk/telemetry", "github.com/hashicorp/go-metrics", "github.com/armon/go-metrics", "github.com/prometheus/client_golang/prometheus":
		return true
	}
	return false
}

// onlyObserved: every use of v (followed through time arithmetic, conversions and the packaging of variadic
// arguments) is an argument of a logging / metrics call.
func onlyObserved(v ssa.Value) bool {
	seen := map[ssa.Value]bool{}
	var ok func(v ssa.Value) bool
	ok = func(v ssa.Value) bool {
		if seen[v] {
			return true
		}
		seen[v] = true
		refs := v.Referrers()
		if refs == nil {
			return false
		}
		for _, in := range *refs {
			switch x := in.(type) {
			case *ssa.DebugRef:
			case ssa.CallInstruction:
				cc := x.Common()
				if observabilitySink(cc) {
					continue
				}
				if f := calleeFunc(cc); f != nil && f.Pkg() != nil && f.Pkg().Path() == "time" {
					if val, isV := in.(ssa.Value); isV && ok(val) {
						continue
					}
				}
				return false
			case *ssa.MakeInterface:
				if !ok(x) {
					return false
				}
			case *ssa.Convert:
				if !ok(x) {
					return false
				}
			case *ssa.ChangeType:
				if !ok(x) {
					return false
				}
			case *ssa.BinOp:
				if !ok(x) {
					return false
				}
			case *ssa.Store:
				// element of the array behind a variadic argument list
				ia, isIdx := x.Addr.(*ssa.IndexAddr)
				if !isIdx || x.Val != v {
					return false
				}
				arr, isAlloc := ia.X.(*ssa.Alloc)
				if !isAlloc {
					return false
				}
				for _, r := range *arr.Referrers() {
					if sl, isSl := r.(*ssa.Slice); isSl && !ok(sl) {
						return false
					}
				}
			case *ssa.Slice:
				if !ok(x) {
					return false
				}
			default:
				return false
			}
		}
		return true
	}
	return ok(v)
}

func propC07(c *Check) {
	p := c.p
	c.Rule("R1", "sources: from tx, block-hook, ante and genesis entry points no repository function reaches wall-clock time, randomness, environment, goroutines, channels or select (resolved callees; positive control: they ARE found from the proposal context)")
	c.Rule("R2", "map ranges reachable from those contexts are order-insensitive: in gas-metered (tx/ante) context the loop body performs no store access at all; in block context it writes only keys derived from the iteration key and appends only to the order-free validator-update result")
	c.Rule("R3", "no process-local state: no store to a package-level variable from consensus code")
	c.Rule("R4", "floating point in consensus code is limited to IEEE + - * / comparisons and math.Ceil, with no fusable a*b+c expression")
	cg := p.CG()
	ctx := p.Contexts()
	det := map[string][]*ssa.Function{"tx": ctx.Tx, "block": ctx.Block, "ante": ctx.Ante, "genesis": ctx.Genesis}
	isNondet := func(name string) bool {
		for _, n := range nondetExt {
			if name == n || (strings.HasSuffix(n, ".") && strings.HasPrefix(name, n)) {
				return true
			}
		}
		return false
	}
	scan := func(f *ssa.Function) []string {
		var hits []string
		for _, e := range cg.Ext[f] {
			if isNondet(e.Name) {
				// a clock reading that only ever reaches the logger / the metrics registry decides nothing
				if v, ok := e.Site.(ssa.Value); ok && strings.HasPrefix(e.Name, "time.") && onlyObserved(v) {
					continue
				}
				hits = append(hits, e.Name+" @ "+p.InstrPos(e.Site))
			}
		}
		for _, b := range f.Blocks {
			for _, in := range b.Instrs {
				switch x := in.(type) {
				case *ssa.Go:
					hits = append(hits, "go statement @ "+p.InstrPos(in))
				case *ssa.Select:
					hits = append(hits, "select @ "+p.InstrPos(in))
				case *ssa.Send:
					hits = append(hits, "channel send @ "+p.InstrPos(in))
				case *ssa.MakeChan:
					hits = append(hits, "make(chan) @ "+p.InstrPos(in))
				case *ssa.UnOp:
					if x.Op == token.ARROW {
						hits = append(hits, "channel receive @ "+p.InstrPos(in))
					}
				}
			}
		}
		return hits
	}
	gasMetered := map[*ssa.Function]bool{}
	detReach := map[*ssa.Function]string{}
	var names []string
	for n := range det {
		names = append(names, n)
	}
	sort.Strings(names)
	total := 0
	for _, name := range names {
		reach, parent := cg.Reach(det[name], nil)
		bad := 0
		for f := range reach {
			c.touch(f)
			total++
			if _, ok := detReach[f]; !ok {
				detReach[f] = name
			}
			if name == "tx" || name == "ante" {
				gasMetered[f] = true
			}
			for _, h := range scan(f) {
				bad++
				c.Violated("R1", "nondeterminism-source "+strings.SplitN(h, " @ ", 2)[0]+" in "+FuncKey(f), strings.SplitN(h, " @ ", 2)[1], "reachable from "+name+" context: "+cg.PathTo(f, parent))
			}
		}
		if bad == 0 {
			c.Held("R1", "no-nondeterminism-source from "+name+" context", "", fmt.Sprintf("%d functions reachable, none calls time/rand/env or uses goroutines, channels, select", len(reach)))
		}
	}
	// positive control
	{
		reach, _ := cg.Reach(ctx.Proposal, nil)
		nNow, nRand, nGo := 0, 0, 0
		for f := range reach {
			for _, h := range scan(f) {
				switch {
				case strings.HasPrefix(h, "time.Now"):
					nNow++
				case strings.HasPrefix(h, "crypto/rand."):
					nRand++
				case strings.Contains(h, "errgroup.Group).Go"):
					nGo++
				}
			}
		}
		if nNow >= 2 && nRand >= 1 && nGo >= 4 {
			c.Held("R1", "positive-control proposal-context", "", fmt.Sprintf("time.Now ×%d, crypto/rand ×%d, errgroup.Go ×%d found from Prepare/ProcessProposal (allowed there)", nNow, nRand, nGo))
		} else {
			c.Violated("R1", "positive-control proposal-context", "", fmt.Sprintf("expected time.Now ×2, crypto/rand ×1, errgroup.Go ×4 in the proposal context, found %d/%d/%d: the detector is blind reason=not-established", nNow, nRand, nGo))
		}
	}

	// R2 map ranges
	mw := p.mayAccessStore()
	nRanges := 0
	for f, ctxName := range detReach {
		r := p.R(f)
		for _, b := range f.Blocks {
			for _, in := range b.Instrs {
				rg, ok := in.(*ssa.Range)
				if !ok {
					continue
				}
				if _, isMap := rg.X.Type().Underlying().(*types.Map); !isMap {
					continue
				}
				nRanges++
				cons := "map-range over " + r.E(rg.X) + " @ " + FuncKey(f)
				// loop body
				var next *ssa.Next
				for _, ref := range *rg.Referrers() {
					if n, ok := ref.(*ssa.Next); ok {
						next = n
					}
				}
				if next == nil {
					c.Violated("R2", cons, p.InstrPos(in), "range without next reason=not-established")
					continue
				}
				body := loopBlocks(r, next.Block())
				var accesses, appends, badWrites []string
				for _, lb := range body {
					for _, li := range lb.Instrs {
						ci, ok := li.(ssa.CallInstruction)
						if !ok {
							continue
						}
						if sa := storeAccess(ci.Common()); sa != nil {
							accesses = append(accesses, sa.Field.Name()+"."+sa.Method+" @ "+p.InstrPos(li))
							if writeMethods[sa.Method] {
								keyOK := len(sa.Args) > 0 && strings.Contains(r.E(sa.Args[0]), "next(range(")
								if !keyOK {
									badWrites = append(badWrites, sa.Field.Name()+"."+sa.Method+" @ "+p.InstrPos(li))
								}
							}
							continue
						}
						for _, e := range cg.Out[f] {
							if e.Site == li && mw[e.To] {
								accesses = append(accesses, "call "+FuncKey(e.To)+" (accesses the store) @ "+p.InstrPos(li))
								if ctxName == "block" || ctxName == "genesis" {
									badWrites = append(badWrites, "call "+FuncKey(e.To)+" @ "+p.InstrPos(li))
								}
							}
						}
						if bi, ok := ci.Common().Value.(*ssa.Builtin); ok && bi.Name() == "append" {
							appends = append(appends, r.E(ci.Value())+" @ "+p.InstrPos(li))
						}
					}
				}
				if gasMetered[f] {
					if len(accesses) > 0 {
						c.Violated("R2", cons, p.InstrPos(in), "map iteration order is observable: the loop body accesses the store in a gas-metered context (gas used and the failing item depend on the order): "+strings.Join(accesses, "; "))
					} else if len(appends) > 0 {
						c.Violated("R2", cons, p.InstrPos(in), "map iteration order leaks into a slice: "+strings.Join(appends, "; "))
					} else {
						c.Held("R2", cons, p.InstrPos(in), "no store access and no append in the loop body")
					}
					continue
				}
				// block / genesis context
				okAppend := true
				for _, a := range appends {
					if !strings.Contains(a, "ValidatorUpdate") {
						okAppend = false
					}
				}
				// appended slices must be the function's []abci.ValidatorUpdate result
				resOK := false
				res := f.Signature.Results()
				for i := 0; i < res.Len(); i++ {
					if strings.Contains(res.At(i).Type().String(), "abci/types.ValidatorUpdate") {
						resOK = true
					}
				}
				switch {
				case len(badWrites) > 0:
					c.Violated("R2", cons, p.InstrPos(in), "store write in an unordered loop whose key does not derive from the iteration key: "+strings.Join(badWrites, "; "))
				case len(appends) > 0 && !(okAppend && resOK):
					c.Violated("R2", cons, p.InstrPos(in), "map iteration order leaks into a slice that is not the order-free validator-update result: "+strings.Join(appends, "; "))
				default:
					c.Held("R2", cons, p.InstrPos(in), fmt.Sprintf("%s context: %d store accesses keyed by the iteration key, appends only to the order-free []abci.ValidatorUpdate result", ctxName, len(accesses)))
				}
			}
		}
	}
	// no floor: a tree without any map range in consensus code satisfies the rule (the rule's sensitivity is
	// exercised by the mutant corpus, which adds such loops)
	c.Held("R2", "map ranges in consensus code", "", fmt.Sprintf("%d map-range loops reachable from deterministic entry points were examined", nRanges))

	c.noGlobalWrites("R3")

	// R4 floats
	nFloat := 0
	for f := range detReach {
		r := p.R(f)
		for _, b := range f.Blocks {
			for _, in := range b.Instrs {
				switch x := in.(type) {
				case *ssa.BinOp:
					if !isFloat(x.X.Type()) {
						continue
					}
					nFloat++
					switch x.Op {
					case token.ADD, token.SUB:
						for _, o := range []ssa.Value{x.X, x.Y} {
							if m, ok := o.(*ssa.BinOp); ok && m.Op == token.MUL {
								c.Violated("R4", "fusable-multiply-add @ "+FuncKey(f), p.InstrPos(in), "x*y ± z on floats may be fused on some architectures: "+r.E(x))
							}
						}
					case token.MUL, token.QUO, token.LSS, token.LEQ, token.GTR, token.GEQ, token.EQL, token.NEQ:
					default:
						c.Violated("R4", "float-op @ "+FuncKey(f), p.InstrPos(in), "unexpected floating-point operation "+x.Op.String())
					}
				case *ssa.Call:
					if fn := calleeFunc(&x.Call); fn != nil && fn.Pkg() != nil && fn.Pkg().Path() == "math" {
						nFloat++
						if fn.Name() != "Ceil" && fn.Name() != "Floor" && fn.Name() != "MaxInt64" {
							c.Violated("R4", "math."+fn.Name()+" @ "+FuncKey(f), p.InstrPos(in), "math function whose result is not guaranteed bit-identical across platforms")
						}
					}
				}
			}
		}
	}
	c.Held("R4", "float-operations", "", fmt.Sprintf("%d floating-point operations in consensus code, all exact IEEE operations", nFloat))
	_ = total
}

// mayAccessStore: functions that (transitively) read or write a collection.
func (p *Prog) mayAccessStore() map[*ssa.Function]bool {
	cg := p.CG()
	w := map[*ssa.Function]bool{}
	var work []*ssa.Function
	for _, f := range p.ProdFuncs {
		if len(p.StoreSites(f)) > 0 {
			w[f] = true
			work = append(work, f)
		}
	}
	for len(work) > 0 {
		f := work[0]
		work = work[1:]
		for _, e := range cg.In[f] {
			if !w[e.From] {
				w[e.From] = true
				work = append(work, e.From)
			}
		}
	}
	return w
}
