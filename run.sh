#!/bin/bash
# ./run.sh <Cxx> quick|thorough      decide one property on /repo's current working tree
# ./run.sh build                     (re)build the checker from tool/ (vendored, offline)
# ./run.sh dump <regexp>             print the rendered SSA facts of matching functions
set -u
cd "$(dirname "$0")"
VERIF="$(pwd)"
REPO="${VERIF_REPO:-/repo}"
export GOPROXY=off GOSUMDB=off GOTOOLCHAIN=local CARGO_NET_OFFLINE=true
unset GOWORK
build() {
  (cd "$VERIF/tool" && GOFLAGS=-mod=vendor go build -o "$VERIF/bin/goatverif" .) || { echo "INFRA-FAILURE: checker build failed"; exit 2; }
}
need_build() {
  [ ! -x "$VERIF/bin/goatverif" ] && return 0
  [ -n "$(find "$VERIF/tool" \( -name '*.go' -o -name inventory.txt \) -newer "$VERIF/bin/goatverif" -not -path '*/vendor/*' -print -quit)" ] && return 0
  return 1
}
case "${1:-}" in
  build) mkdir -p bin; build; exit 0;;
  dump) need_build && { mkdir -p bin; build; }; exec "$VERIF/bin/goatverif" -repo "$REPO" -dump "$2";;
esac
ID="$1"; TIER="${2:-${VERIF_TIER:-quick}}"
need_build && { mkdir -p bin; build; }
if [ "$TIER" = thorough ]; then
  exec python3 "$VERIF/selftest.py" "$ID" "$REPO"
fi
exec "$VERIF/bin/goatverif" -repo "$REPO" -verif "$VERIF" -prop "$ID" -tier "$TIER"
