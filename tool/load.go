package main

import (
	"encoding/json"
	"fmt"
	"go/token"
	"go/types"
	"os"
	"path/filepath"
	"sort"
	"strings"

	"golang.org/x/tools/go/packages"
	"golang.org/x/tools/go/ssa"
	"golang.org/x/tools/go/ssa/ssautil"
)

const modPath = "github.com/goatnetwork/goat"

// Prog is the loaded, type-checked repository with SSA for its own packages.
type Prog struct {
	Dir    string
	Fset   *token.FileSet
	Pkgs   []*packages.Package
	ByPath map[string]*packages.Package
	SSA    *ssa.Program
	// all source functions (with bodies) of the repository, including closures
	Funcs []*ssa.Function
	// production universe: app, x/..., pkg/...
	ProdFuncs []*ssa.Function
	byName    map[string]*ssa.Function
	rend      map[*ssa.Function]*Renderer
	cg        *CallGraph
	NFiles    int
	// Overlay: absolute path under Dir -> replacement content (mutant self-test: the variant tree is
	// /repo's working tree with these files replaced; never used for the verdict on /repo itself)
	Overlay     map[string][]byte
	overlayJSON string

	fieldPtrWriters map[string]map[*ssa.Function]bool
	ptrWritesMemo   map[string][]ptrWrite
	paramMap        map[*ssa.Function][]int
	soleArgBusy     map[*ssa.Function]bool
	droppedRef  map[*ssa.Function]map[string]int
	// NormaliseLog: what normalise.go rewrote before the analysis (empty on the reference tree)
	NormaliseLog []string
}

// progOf: the loaded program an SSA program belongs to (two views of the tree may be loaded side by side).
var progOf = map[*ssa.Program]*Prog{}

func infraFail(format string, a ...any) {
	fmt.Fprintf(os.Stderr, "INFRA-FAILURE: "+format+"\n", a...)
	fmt.Printf("INFRA-FAILURE: "+format+"\n", a...)
	os.Exit(2)
}

func isProdPkg(path string) bool {
	if !strings.HasPrefix(path, modPath) {
		return false
	}
	rel := strings.TrimPrefix(strings.TrimPrefix(path, modPath), "/")
	return rel == "app" || strings.HasPrefix(rel, "x/") || strings.HasPrefix(rel, "pkg/")
}

// Load type-checks ./... of dir and builds SSA for the repository packages.
func Load(dir string, overlayDir string, normalise bool) *Prog {
	overlay := map[string][]byte{}
	overlayJSON := ""
	if overlayDir != "" {
		repl := map[string]string{}
		err := filepath.Walk(overlayDir, func(path string, info os.FileInfo, err error) error {
			if err != nil || info.IsDir() {
				return err
			}
			rel, _ := filepath.Rel(overlayDir, path)
			b, err := os.ReadFile(path)
			if err != nil {
				return err
			}
			overlay[filepath.Join(dir, rel)] = b
			repl[filepath.Join(dir, rel)] = path
			return nil
		})
		if err != nil || len(overlay) == 0 {
			infraFail("overlay %s: %v (%d files)", overlayDir, err, len(overlay))
		}
		jb, _ := json.Marshal(map[string]any{"Replace": repl})
		f, err := os.CreateTemp("", "goatverif-overlay-*.json")
		if err != nil {
			infraFail("overlay json: %v", err)
		}
		f.Write(jb)
		f.Close()
		overlayJSON = f.Name()
	}
	env := append(os.Environ(),
		"GOFLAGS=-mod=mod", "GOPROXY=off", "GOSUMDB=off", "GOTOOLCHAIN=local", "GOWORK=off", "CGO_ENABLED=1")
	cfg := &packages.Config{
		Mode:       packages.LoadSyntax | packages.NeedModule,
		Dir:        dir,
		Env:        env,
		BuildFlags: []string{"-tags", "verif"},
		Tests:      false,
		Overlay:    overlay,
	}
	pkgs, err := packages.Load(cfg, "./...")
	if err != nil {
		infraFail("packages.Load: %v", err)
	}
	if len(pkgs) == 0 {
		infraFail("no packages loaded from %s", dir)
	}
	var normLog []string
	if normalise && os.Getenv("GOATVERIF_NO_NORMALISE") == "" {
		clean := true
		for _, pk := range pkgs {
			if len(pk.Errors) > 0 || pk.IllTyped {
				clean = false
			}
		}
		if clean {
			// calls to functions that are not in the reference inventory are expanded in place (normalise.go)
			pkgs, overlay, normLog = Normalise(pkgs, overlay, func(ov map[string][]byte) ([]*packages.Package, bool) {
				c2 := *cfg
				c2.Overlay = ov
				np, err := packages.Load(&c2, "./...")
				if err != nil || len(np) == 0 {
					return nil, false
				}
				lastLoadErrors = nil
				for _, pk := range np {
					lastLoadErrors = append(lastLoadErrors, pk.Errors...)
				}
				for _, pk := range np {
					if len(pk.Errors) > 0 || pk.IllTyped {
						if os.Getenv("GOATVERIF_KEEP_NORMALISED") != "" {
							for _, e := range pk.Errors {
								fmt.Fprintf(os.Stderr, "normalise: %v\n", e)
							}
						}
						return nil, false
					}
				}
				return np, true
			})
		}
	}
	p := &Prog{Dir: dir, Pkgs: pkgs, ByPath: map[string]*packages.Package{}, byName: map[string]*ssa.Function{}, rend: map[*ssa.Function]*Renderer{}, Overlay: overlay, overlayJSON: overlayJSON}
	for _, pk := range pkgs {
		if len(pk.Errors) > 0 || pk.IllTyped {
			for _, e := range pk.Errors {
				fmt.Fprintf(os.Stderr, "package error: %s: %v\n", pk.PkgPath, e)
			}
			infraFail("package %s has errors or is ill-typed (the tree must compile)", pk.PkgPath)
		}
		if pk.Types == nil || pk.TypesInfo == nil {
			infraFail("package %s has no type information", pk.PkgPath)
		}
		p.ByPath[pk.PkgPath] = pk
		p.Fset = pk.Fset
		p.NFiles += len(pk.Syntax)
	}
	// functions of the reference inventory that were only renamed keep their old key
	renamedKeys = computeRenames(pkgs)
	for nk, ok := range renamedKeys {
		normLog = append(normLog, "renamed: "+ok+" is now "+nk+" (same package, receiver and signature; analysed under its old name)")
	}
	prog, spkgs := ssautil.Packages(pkgs, ssa.InstantiateGenerics)
	for i, sp := range spkgs {
		if sp == nil {
			infraFail("no SSA package for %s", pkgs[i].PkgPath)
		}
	}
	prog.Build()
	p.SSA = prog
	p.NormaliseLog = normLog
	progOf[prog] = p
	for i, sp := range spkgs {
		_ = i
		for _, m := range sp.Members {
			switch m := m.(type) {
			case *ssa.Function:
				p.addFunc(m)
			case *ssa.Type:
				t := m.Type()
				for _, tt := range []types.Type{t, types.NewPointer(t)} {
					ms := prog.MethodSets.MethodSet(tt)
					for j := 0; j < ms.Len(); j++ {
						fn := prog.MethodValue(ms.At(j))
						if fn != nil && fn.Pkg == sp {
							p.addFunc(fn)
						}
					}
				}
			}
		}
	}
	sort.Slice(p.Funcs, func(i, j int) bool { return p.Funcs[i].Pos() < p.Funcs[j].Pos() })
	for _, f := range p.Funcs {
		if f.Pkg != nil && isProdPkg(f.Pkg.Pkg.Path()) {
			p.ProdFuncs = append(p.ProdFuncs, f)
		} else if f.Pkg == nil && f.Parent() != nil {
			// closure: classified with its root
			root := f
			for root.Parent() != nil {
				root = root.Parent()
			}
			if root.Pkg != nil && isProdPkg(root.Pkg.Pkg.Path()) {
				p.ProdFuncs = append(p.ProdFuncs, f)
			}
		}
	}
	if len(p.ProdFuncs) < 300 {
		infraFail("only %d production functions found (expected several hundred): partial load", len(p.ProdFuncs))
	}
	return p
}

func (p *Prog) addFunc(f *ssa.Function) {
	if f == nil || f.Blocks == nil || f.Synthetic != "" {
		return
	}
	name := FuncKey(f)
	if _, ok := p.byName[name]; ok {
		return
	}
	p.byName[name] = f
	p.Funcs = append(p.Funcs, f)
	for _, a := range f.AnonFuncs {
		p.addAnon(a)
	}
}

func (p *Prog) addAnon(f *ssa.Function) {
	if f.Blocks == nil {
		return
	}
	p.byName[FuncKey(f)] = f
	p.Funcs = append(p.Funcs, f)
	for _, a := range f.AnonFuncs {
		p.addAnon(a)
	}
}

// relPkg returns the package path relative to the module root.
func relPkg(path string) string {
	if path == modPath {
		return "."
	}
	return strings.TrimPrefix(path, modPath+"/")
}

// FuncKey is the stable name used to look functions up:
//
//	x/bitcoin/keeper.msgServer.NewDeposits, x/bitcoin/types.VerifyMerkelProof,
//	x/goat/keeper.Keeper.verifyEthBlockProposal$1 (closures)
func FuncKey(f *ssa.Function) string {
	if f.Parent() != nil {
		// closure: parent key + $n
		n := f.Name()
		if i := strings.LastIndex(n, "$"); i >= 0 {
			return FuncKey(f.Parent()) + n[i:]
		}
		return FuncKey(f.Parent()) + "$" + n
	}
	pkg := ""
	if f.Pkg != nil {
		pkg = relPkg(f.Pkg.Pkg.Path())
	} else if o := f.Object(); o != nil && o.Pkg() != nil {
		pkg = relPkg(o.Pkg().Path())
	}
	k := pkg + "." + f.Name()
	if recv := f.Signature.Recv(); recv != nil {
		t := recv.Type()
		if pt, ok := t.(*types.Pointer); ok {
			t = pt.Elem()
		}
		if nt, ok := t.(*types.Named); ok {
			k = pkg + "." + nt.Obj().Name() + "." + f.Name()
		}
	}
	if old, ok := renamedKeys[k]; ok {
		return old
	}
	return k
}

// renamedKeys: new key → key in the reference inventory (computeRenames).
var renamedKeys = map[string]string{}

// Fn resolves a function by key; failing to resolve an anchor is an infrastructure failure.
func (p *Prog) Fn(key string) *ssa.Function {
	f := p.byName[key]
	if f == nil {
		return nil
	}
	return f
}

func (p *Prog) MustFn(key string) *ssa.Function {
	f := p.byName[key]
	if f == nil {
		panic(unresolved("function " + key))
	}
	return f
}

type unresolved string

func (p *Prog) Pos(pos token.Pos) string {
	if !pos.IsValid() {
		return "-"
	}
	ps := p.Fset.Position(pos)
	f := ps.Filename
	if strings.HasPrefix(f, p.Dir+"/") {
		f = strings.TrimPrefix(f, p.Dir+"/")
	}
	return fmt.Sprintf("%s:%d", f, ps.Line)
}

func (p *Prog) InstrPos(in ssa.Instruction) string {
	pos := in.Pos()
	if !pos.IsValid() {
		// fall back to the nearest instruction with a position in the same block
		b := in.Block()
		for _, x := range b.Instrs {
			if x.Pos().IsValid() {
				pos = x.Pos()
				if x == in {
					break
				}
			}
			if x == in && pos.IsValid() {
				break
			}
		}
	}
	return p.Pos(pos)
}

// LookupType finds a named type in a repository package (relative path).
func (p *Prog) LookupType(rel, name string) *types.Named {
	pk := p.ByPath[modPath+"/"+rel]
	if pk == nil {
		panic(unresolved("package " + rel))
	}
	o := pk.Types.Scope().Lookup(name)
	if o == nil {
		panic(unresolved("type " + rel + "." + name))
	}
	nt, ok := o.Type().(*types.Named)
	if !ok {
		panic(unresolved("named type " + rel + "." + name))
	}
	return nt
}

func (p *Prog) LookupObj(rel, name string) types.Object {
	pk := p.ByPath[modPath+"/"+rel]
	if pk == nil {
		panic(unresolved("package " + rel))
	}
	o := pk.Types.Scope().Lookup(name)
	if o == nil {
		panic(unresolved("object " + rel + "." + name))
	}
	return o
}
