package main

import (
	"fmt"
	"go/constant"
	"go/token"
	"go/types"
	"regexp"
	"sort"
	"strconv"
	"strings"

	"golang.org/x/tools/go/ssa"
)

// errorDiscipline: in hand-written production code no error result is discarded.
//
// "A rejected or failed transaction leaves every module's state exactly as it was" rests on the
// SDK discarding the cache-wrapped store when the handler returns an error; a step whose error
// is dropped turns a failure into a reported success with partially applied state (tx context)
// or lets block processing continue on a failed write (block context). The rule is exact:
// for every call whose callee's last result is `error`, that result must have a real use
// (compared, returned, passed on, stored) — φ-nodes are followed, debug refs ignored.
// `_ = f()`, `v, _ := f()`, a bare `f()` statement, `defer f()` and `go f()` discard it.
//
// Exceptions are listed by callee with a reason; nothing else is exempt.
var errDropExempt = map[string]string{
	"Iterator.Close":               "collections iterator Close (read-only cursor; the walk's own errors are checked separately), the error carries no state",
	"KeySetIterator.Close":         "collections key-set iterator Close, as above",
	"rand.Read":                    "crypto/rand.Read: fills the buffer or the runtime aborts; used for key generation tooling and the proposer-side payload id only (nothing a validator accepts depends on it)",
	"maxprocs.Set":                 "process start-up tuning in package app init, not consensus code",
	"Writer.Write":                 "only when the receiver's static type is hash.Hash: hash writes never return an error (documented)",
	"Hash.Write":                   "hash writes never return an error (documented)",
	"EventManager.EmitTypedEvent":  "events are not state and not part of LastResultsHash (CometBFT 0.38); fails only on marshalling a generated type",
	"EventManager.EmitTypedEvents": "as EmitTypedEvent",
}

func lastIsError(sig *types.Signature) (int, bool) {
	n := sig.Results().Len()
	if n == 0 {
		return 0, false
	}
	if types.Identical(sig.Results().At(n-1).Type(), errorType) {
		return n - 1, true
	}
	return 0, false
}

func hasRealUse(v ssa.Value, seen map[ssa.Value]bool) bool {
	if seen[v] {
		return false
	}
	seen[v] = true
	refs := v.Referrers()
	if refs == nil {
		return true
	}
	for _, r := range *refs {
		switch x := r.(type) {
		case *ssa.DebugRef:
			continue
		case *ssa.Phi:
			if hasRealUse(x, seen) {
				return true
			}
		case *ssa.BinOp:
			// a comparison whose own result goes nowhere (`_ = err != nil`) examines nothing
			if hasRealUse(x, seen) {
				return true
			}
		case *ssa.MakeInterface:
			if hasRealUse(x, seen) {
				return true
			}
		case *ssa.ChangeInterface:
			if hasRealUse(x, seen) {
				return true
			}
		default:
			return true
		}
	}
	return false
}

type errDrop struct {
	fn     *ssa.Function
	in     ssa.Instruction
	callee string
	how    string
}

// droppedErrors lists every discarded error result in fn.
func (p *Prog) droppedErrors(fn *ssa.Function) (drops []errDrop, sites int) {
	for _, b := range fn.Blocks {
		for _, in := range b.Instrs {
			ci, ok := in.(ssa.CallInstruction)
			if !ok {
				continue
			}
			com := ci.Common()
			sig := com.Signature()
			if sig == nil {
				continue
			}
			idx, isErr := lastIsError(sig)
			if !isErr {
				continue
			}
			sites++
			name := "?"
			if cf := calleeFunc(com); cf != nil {
				name = funcShort(cf)
			} else {
				name = p.R(fn).E(com.Value)
			}
			switch x := in.(type) {
			case *ssa.Defer:
				drops = append(drops, errDrop{fn, in, name, "deferred call: result discarded"})
			case *ssa.Go:
				drops = append(drops, errDrop{fn, in, name, "go statement: result discarded"})
			case *ssa.Call:
				if sig.Results().Len() == 1 {
					if !hasRealUse(x, map[ssa.Value]bool{}) {
						drops = append(drops, errDrop{fn, in, name, "error result unused"})
					}
					continue
				}
				found := false
				used := false
				if refs := x.Referrers(); refs != nil {
					for _, r := range *refs {
						if ex, ok := r.(*ssa.Extract); ok && ex.Index == idx {
							found = true
							if hasRealUse(ex, map[ssa.Value]bool{}) {
								used = true
							}
						}
					}
				}
				if !found || !used {
					drops = append(drops, errDrop{fn, in, name, "error result of the tuple unused"})
				}
			}
		}
	}
	return
}

func (c *Check) errorDiscipline(rule string, floor int) {
	p := c.p
	total, nfn := 0, 0
	exempted := map[string]int{}
	var bad []errDrop
	for _, f := range p.ProdFuncs {
		if p.isGenerated(f) || len(f.Blocks) == 0 {
			continue
		}
		file := p.Fset.Position(rootOf(f).Pos()).Filename
		if strings.Contains(file, "/cmd/") || strings.HasSuffix(file, "_test.go") {
			continue
		}
		c.touch(f)
		nfn++
		drops, sites := p.droppedErrors(f)
		total += sites
		for _, d := range drops {
			if _, ok := errDropExempt[d.callee]; ok {
				okRecv := true
				if d.callee == "Writer.Write" {
					okRecv = false
					if com := d.in.(ssa.CallInstruction).Common(); com.IsInvoke() {
						if nt, isN := com.Value.Type().(*types.Named); isN && nt.Obj().Pkg() != nil && nt.Obj().Pkg().Path() == "hash" && nt.Obj().Name() == "Hash" {
							okRecv = true
						}
					}
				}
				if okRecv {
					exempted[d.callee]++
					continue
				}
			}
			bad = append(bad, d)
		}
	}
	sort.Slice(bad, func(i, j int) bool { return bad[i].in.Pos() < bad[j].in.Pos() })
	for _, d := range bad {
		c.Violated(rule, "error-dropped "+d.callee+" @ "+FuncKey(d.fn), p.InstrPos(d.in), d.how+": a failure of this step would not fail the transaction/block")
	}
	var ex []string
	for k, n := range exempted {
		ex = append(ex, fmt.Sprintf("%s×%d", k, n))
	}
	sort.Strings(ex)
	if len(bad) == 0 {
		c.Held(rule, "no-error-dropped", "", fmt.Sprintf("%d error-returning call sites in %d hand-written production functions: every error result is used; exempt: %s", total, nfn, strings.Join(ex, ", ")))
	}
	c.Floor(rule, "error-returning call sites analysed", total, floor)
}

// ---- a failed state write must fail the caller ----

// errValueOf returns the error result of a call as an SSA value (nil when it is not extracted).
func errValueOf(call *ssa.Call) ssa.Value {
	sig := call.Call.Signature()
	idx, ok := lastIsError(sig)
	if !ok {
		return nil
	}
	if sig.Results().Len() == 1 {
		return call
	}
	if refs := call.Referrers(); refs != nil {
		for _, r := range *refs {
			if ex, ok := r.(*ssa.Extract); ok && ex.Index == idx {
				return ex
			}
		}
	}
	return nil
}

// flowsInto: v reaches w through φ-nodes only.
func flowsInto(v, w ssa.Value, seen map[ssa.Value]bool) bool {
	if v == w {
		return true
	}
	if seen[w] {
		return false
	}
	seen[w] = true
	if ph, ok := w.(*ssa.Phi); ok {
		for _, e := range ph.Edges {
			if flowsInto(v, e, seen) {
				return true
			}
		}
	}
	return false
}

// writeFailureMustFail: for every state-writing call (collection mutators and calls to repository
// functions that may write) whose error is tested, the `err != nil` edge must not reach a success
// exit of the function: a swallowed write failure would let the transaction commit (or the block
// continue) on partially applied state. Returns that hand the tested error value itself back are
// failure exits; exits whose error operand is unrelated and possibly nil are success exits.
func (c *Check) writeFailureMustFail(rule string, floor int) {
	p := c.p
	n := 0
	bad := 0
	for _, f := range p.ProdFuncs {
		if p.isGenerated(f) || len(f.Blocks) == 0 {
			continue
		}
		res := f.Signature.Results()
		if res.Len() == 0 || !types.Identical(res.At(res.Len()-1).Type(), errorType) {
			continue // the function cannot report failure; its dropped errors are R5's business
		}
		var exits []Exit
		for _, in := range p.writeSites(f) {
			call, ok := in.(*ssa.Call)
			if !ok {
				continue
			}
			ev := errValueOf(call)
			if ev == nil {
				continue
			}
			if exits == nil {
				exits = Exits(f)
			}
			c.touch(f)
			n++
			// the nil edges of every test of ev (directly or through φ) are the success edges
			avoid := map[edgeKey]bool{}
			tested := false
			for _, b := range f.Blocks {
				iff, ok := b.Instrs[len(b.Instrs)-1].(*ssa.If)
				if !ok {
					continue
				}
				bo, ok := iff.Cond.(*ssa.BinOp)
				if !ok {
					continue
				}
				var other ssa.Value
				if isNilConst(bo.Y) {
					other = bo.X
				} else if isNilConst(bo.X) {
					other = bo.Y
				} else {
					continue
				}
				if !flowsInto(ev, other, map[ssa.Value]bool{}) {
					continue
				}
				tested = true
				nilIdx := 0 // EQL: true edge is the nil edge
				if bo.Op.String() == "!=" {
					nilIdx = 1
				}
				avoid[edgeKey{b: b, i: nilIdx}] = true
			}
			if !tested {
				continue // returned or passed on untested: covered by R5 (must be used) and by the callers' own tests
			}
			targets := map[ssa.Instruction]bool{}
			for _, e := range exits {
				if e.Kind == exitFailure {
					continue
				}
				op := e.Ret.Results[len(e.Ret.Results)-1]
				if sv := spilledValue(op, e.Ret); sv != nil {
					op = sv
				}
				if e.Kind == exitMaybe && flowsInto(ev, op, map[ssa.Value]bool{}) {
					continue // hands the tested error back
				}
				targets[e.Ret] = true
			}
			ps := &PathSearch{Fn: f, AvoidEdges: avoid, From: call, IsTarget: func(i ssa.Instruction) bool { return targets[i] }}
			if t, path := ps.Find(); t != nil {
				bad++
				c.Violated(rule, "write-failure-swallowed "+p.CallStr(call)+" @ "+FuncKey(f), p.InstrPos(call), "a success exit is reachable on the branch where this state write failed", p.describePath(path)...)
			}
		}
	}
	if bad == 0 {
		c.Held(rule, "write-failure-fails", "", fmt.Sprintf("%d tested state-write calls: no `err != nil` branch reaches a success exit", n))
	}
	c.Floor(rule, "tested state-write calls", n, floor)
}

// readFailureForgivenOnlyIfNotFound: for every store READ (Get, Peek, Has, Iterate, Walk …) whose error is tested, the
// `err != nil` branch may flow on to a success exit only over an edge on which `errors.Is(err, …)` came out true (the
// "not found means empty" idiom): any other failure of the store must fail the caller instead of being taken for an
// empty entry.
func (c *Check) readFailureForgivenOnlyIfNotFound(rule string) {
	p := c.p
	n, bad := 0, 0
	for _, f := range p.ProdFuncs {
		if p.isGenerated(f) || len(f.Blocks) == 0 {
			continue
		}
		res := f.Signature.Results()
		if res.Len() == 0 || !types.Identical(res.At(res.Len()-1).Type(), errorType) {
			continue
		}
		var exits []Exit
		r := p.R(f)
		for _, s := range p.StoreSites(f) {
			if writeMethods[s.Method] {
				continue
			}
			call, ok := s.Call.(*ssa.Call)
			if !ok {
				continue
			}
			ev := errValueOf(call)
			if ev == nil {
				continue
			}
			avoid := map[edgeKey]bool{}
			tested := false
			for _, b := range f.Blocks {
				iff, ok := b.Instrs[len(b.Instrs)-1].(*ssa.If)
				if !ok {
					continue
				}
				bo, ok := iff.Cond.(*ssa.BinOp)
				if !ok {
					continue
				}
				var other ssa.Value
				if isNilConst(bo.Y) {
					other = bo.X
				} else if isNilConst(bo.X) {
					other = bo.Y
				} else {
					continue
				}
				if !flowsInto(ev, other, map[ssa.Value]bool{}) {
					continue
				}
				tested = true
				nilIdx := 0
				if bo.Op.String() == "!=" {
					nilIdx = 1
				}
				avoid[edgeKey{b: b, i: nilIdx}] = true
			}
			if !tested {
				continue
			}
			// the forgiving edges: errors.Is(err, X) true
			isRe := regexp.MustCompile(`^errors\.Is\(` + regexp.QuoteMeta(r.E(ev)) + `, `)
			for _, ef := range p.EdgeFacts(f) {
				if ef.Pred == nil && isRe.MatchString(ef.Fact) {
					avoid[ef.Key()] = true
				}
			}
			if exits == nil {
				exits = Exits(f)
			}
			c.touch(f)
			n++
			targets := map[ssa.Instruction]bool{}
			for _, e := range exits {
				if e.Kind == exitFailure {
					continue
				}
				op := e.Ret.Results[len(e.Ret.Results)-1]
				if sv := spilledValue(op, e.Ret); sv != nil {
					op = sv
				}
				if e.Kind == exitMaybe && flowsInto(ev, op, map[ssa.Value]bool{}) {
					continue
				}
				targets[e.Ret] = true
			}
			ps := &PathSearch{Fn: f, AvoidEdges: avoid, From: call, IsTarget: func(i ssa.Instruction) bool { return targets[i] }}
			if t, path := ps.Find(); t != nil {
				bad++
				c.Violated(rule, "read-failure-swallowed "+p.CallStr(call)+" @ "+FuncKey(f), p.InstrPos(call), "a success exit is reachable on the branch where this store read failed, without the failure having been recognised as `not found`", p.describePath(path)...)
			}
		}
	}
	if bad == 0 {
		c.Held(rule, "read-failure-fails", "", fmt.Sprintf("%d tested store reads: an `err != nil` branch reaches a success exit only over an errors.Is(err, …) edge", n))
	}
}

// ---- lost updates: two read-modify-write sequences on one map whose keys may coincide ----

type rmwPair struct {
	get, set CtxCall
	key      string
}

// lostUpdates reports, for the keeper maps named in `maps` (nil: all), every function in which two
// read-modify-write sequences on the same map with different key expressions are interleaved
// (both entries are read before the first is written back): when the two keys coincide at run time
// the second write-back overwrites the first one's update. Keys that are the same expression are
// the same entry (one sequence); keys proven different by a branch on the way are not reported.
func (c *Check) lostUpdates(rule string, maps map[string]bool) (int, int) {
	p := c.p
	n, bad := 0, 0
	for _, f := range p.ProdFuncs {
		if p.isGenerated(f) || len(f.Blocks) == 0 || f.Parent() != nil {
			continue
		}
		gets := p.FindCallsDeep(f, `^\w+\.Get\(`)
		sets := p.FindCallsDeep(f, `^\w+\.Set\(`)
		if len(gets) < 2 || len(sets) < 2 {
			continue
		}
		byMap := map[string][]rmwPair{}
		for _, s := range sets {
			sa := storeAccess(s.Call.Common())
			if sa == nil || len(sa.Args) != 2 || (maps != nil && !maps[sa.Field.Name()]) {
				continue
			}
			m := sa.Field.Name()
			key, val := s.X.r.E(sa.Args[0]), s.X.r.E(sa.Args[1])
			for _, g := range gets {
				ga := storeAccess(g.Call.Common())
				if ga == nil || ga.Field != sa.Field || len(ga.Args) != 1 {
					continue
				}
				gk := g.X.r.E(ga.Args[0])
				if gk == key && strings.Contains(val, m+".Get("+gk+")") {
					byMap[m] = append(byMap[m], rmwPair{g, s, key})
				}
			}
		}
		for m, prs := range byMap {
			for i := 0; i < len(prs); i++ {
				for j := 0; j < len(prs); j++ {
					a, b := prs[i], prs[j]
					if i == j || a.key == b.key {
						continue
					}
					sites := map[ssa.Instruction]bool{a.get.Site0(): true, a.set.Site0(): true, b.get.Site0(): true, b.set.Site0(): true}
					if len(sites) < 4 {
						continue // sequences inside one callee: judged in that callee
					}
					n++
					c.touch(f)
					// b's entry is read, then a's is written back while b's copy is still pending, then b's is written
					bs := b.set.Site0()
					t1, _ := (&PathSearch{Fn: f, From: b.get.Site0(), AvoidInstr: func(in ssa.Instruction) bool { return in == bs }, IsTarget: func(in ssa.Instruction) bool { return in == a.set.Site0() }}).Find()
					if t1 == nil {
						continue
					}
					// a's read must precede too (otherwise a's write is not based on a stale copy; order of the reads is irrelevant)
					t2, path := (&PathSearch{Fn: f, From: a.set.Site0(), IsTarget: func(in ssa.Instruction) bool { return in == bs }}).Find()
					if t2 == nil {
						continue
					}
					// keys compared on the way: a branch fact (ka != kb) before the write-backs makes them distinct
					distinct := regexp.MustCompile(`^\((` + regexp.QuoteMeta(a.key) + ` != ` + regexp.QuoteMeta(b.key) + `|` + regexp.QuoteMeta(b.key) + ` != ` + regexp.QuoteMeta(a.key) + `)\)$|^!Time\.Equal\(`)
					if edges := p.MatchEdges(f, distinct); len(edges) > 0 {
						if tt, _ := (&PathSearch{Fn: f, AvoidEdges: edgeSet(edges), IsTarget: func(in ssa.Instruction) bool { return in == bs }}).Find(); tt == nil {
							continue
						}
					}
					bad++
					c.Violated(rule, "lost-update "+m+"["+a.key+"] / ["+b.key+"] @ "+FuncKey(f), p.InstrPos(b.set.Call), "two entries of "+m+" are read, modified and written back in an interleaved way; when the keys coincide the second write-back ("+b.key+") overwrites the first one's update", p.describePath(path)...)
				}
			}
		}
	}
	return n, bad
}

// ---- import-side validators accept every record the running chain writes ----

// staticByteLen: the length of a byte-slice value when it is fixed by its type:
// common.Hash.Bytes() → 32, common.Address.Bytes() → 20, x[:] of a [N]byte, make([]byte, const).
func staticByteLen(v ssa.Value) (int64, bool) {
	switch x := v.(type) {
	case *ssa.Call:
		if f := calleeFunc(&x.Call); f != nil && f.Name() == "Bytes" && len(x.Call.Args) == 1 {
			t := x.Call.Args[0].Type()
			if pt, ok := t.Underlying().(*types.Pointer); ok {
				t = pt.Elem()
			}
			if at, ok := t.Underlying().(*types.Array); ok {
				if bt, ok := at.Elem().Underlying().(*types.Basic); ok && bt.Kind() == types.Uint8 {
					return at.Len(), true
				}
			}
		}
	case *ssa.Slice:
		if x.Low == nil && x.High == nil {
			t := x.X.Type()
			if pt, ok := t.Underlying().(*types.Pointer); ok {
				t = pt.Elem()
			}
			if at, ok := t.Underlying().(*types.Array); ok {
				return at.Len(), true
			}
		}
	case *ssa.MakeSlice:
		if k, ok := x.Len.(*ssa.Const); ok && k.Value != nil {
			return constant.Int64Val(constant.ToInt(k.Value))
		}
	case *ssa.ChangeType:
		return staticByteLen(x.X)
	}
	return 0, false
}

// importValidatorsAcceptRuntimeRecords: for every repository struct type T whose Validate method is reachable
// from an InitGenesis, and every record of type T the running chain builds (a local T whose fields are set to
// constants / values of statically known length and which is then written to a keeper collection), T.Validate
// must have a success path consistent with those known fields. Otherwise a state exported while such a record
// exists cannot be imported.
func (c *Check) importValidatorsAcceptRuntimeRecords(rule string) {
	p := c.p
	greach, _ := p.CG().Reach(p.Contexts().Genesis, nil)
	validators := map[*types.TypeName]*ssa.Function{}
	for f := range greach {
		if f.Name() != "Validate" || f.Signature.Recv() == nil || len(f.Blocks) == 0 || p.isGenerated(f) {
			continue
		}
		if nt := namedOf(f.Signature.Recv().Type()); nt != nil {
			if _, isStruct := nt.Underlying().(*types.Struct); isStruct {
				validators[nt.Obj()] = f
			}
		}
	}
	lenRe := regexp.MustCompile(`^\((\d+) (==|!=) len\(\$0\.(\w+)\)\)$`)
	eqRe := regexp.MustCompile(`^\((\$0\.(\w+)|(\w+)) (==|!=) (\$0\.(\w+)|(\w+))\)$`)
	nRec, nBad := 0, 0
	for _, f := range p.ProdFuncs {
		if p.isGenerated(f) || len(f.Blocks) == 0 || greach[f] {
			continue
		}
		key := FuncKey(f)
		if strings.Contains(key, "/module.") || strings.HasPrefix(key, "cmd/") || strings.Contains(key, "/types.") {
			continue // genesis / tooling / constructors
		}
		r := p.R(f)
		for _, b := range f.Blocks {
			for _, in := range b.Instrs {
				a, ok := in.(*ssa.Alloc)
				if !ok {
					continue
				}
				nt := namedOf(a.Type())
				if nt == nil {
					continue
				}
				vf := validators[nt.Obj()]
				if vf == nil {
					continue
				}
				// a record built here: never assigned as a whole from elsewhere
				if len(r.wholeStores[a]) > 0 {
					continue
				}
				knownLen := map[string]int64{}
				knownConst := map[string]string{}
				for _, st := range r.fieldStores[a] {
					fa, ok := st.Addr.(*ssa.FieldAddr)
					if !ok || fa.X != ssa.Value(a) {
						continue
					}
					name := fieldName(fa.X.Type(), fa.Field)
					if n, ok := staticByteLen(st.Val); ok {
						knownLen[name] = n
					}
					if k, ok := st.Val.(*ssa.Const); ok {
						knownConst[name] = r.E(k)
					}
				}
				if len(knownLen) == 0 {
					continue
				}
				// is the record handed to a keeper collection?
				stored := false
				for _, s := range p.StoreSites(f) {
					if s.IsWrite() {
						for _, arg := range s.Args {
							if strings.Contains(r.E(arg), "new("+typeShort(nt)+")") || rootsAt(arg, a) {
								stored = true
							}
						}
					}
				}
				if !stored {
					continue
				}
				nRec++
				c.touch(f)
				c.touch(vf)
				avoid := map[edgeKey]bool{}
				for _, ef := range p.EdgeFacts(vf) {
					if m := lenRe.FindStringSubmatch(ef.Fact); m != nil {
						if l, ok := knownLen[m[3]]; ok {
							want, _ := strconv.ParseInt(m[1], 10, 64)
							if (m[2] == "==") != (l == want) {
								avoid[ef.Key()] = true
							}
						}
						continue
					}
					if m := eqRe.FindStringSubmatch(ef.Fact); m != nil {
						field, konst := m[2], m[7]
						if field == "" {
							field, konst = m[6], m[3]
						}
						if field == "" || konst == "" {
							continue
						}
						if kv, ok := knownConst[field]; ok {
							if (m[4] == "==") != (kv == konst) {
								avoid[ef.Key()] = true
							}
						}
					}
				}
				if t, _ := (&PathSearch{Fn: vf, AvoidEdges: avoid, IsTarget: successTargets(vf)}).Find(); t == nil {
					nBad++
					var kl []string
					for k, v := range knownLen {
						kl = append(kl, fmt.Sprintf("len(%s)=%d", k, v))
					}
					for k, v := range knownConst {
						kl = append(kl, k+"="+v)
					}
					sort.Strings(kl)
					c.Violated(rule, "import-rejects-runtime-record "+typeShort(nt)+" @ "+key, p.InstrPos(a), "the running chain stores a "+typeShort(nt)+" with "+strings.Join(kl, ", ")+", but "+FuncKey(vf)+" (run by InitGenesis on every imported record) has no success path for such a record: a state exported while it exists cannot be imported")
				}
			}
		}
	}
	if nBad == 0 {
		c.Held(rule, "import-validators-accept-runtime-records", "", fmt.Sprintf("%d records built at run time with fields of statically known length, checked against %d Validate methods reachable from InitGenesis", nRec, len(validators)))
	}
}

// rootsAt: v is (a load of) alloc a.
func rootsAt(v ssa.Value, a *ssa.Alloc) bool {
	for {
		switch x := v.(type) {
		case *ssa.UnOp:
			v = x.X
		case *ssa.Alloc:
			return x == a
		case *ssa.MakeInterface:
			v = x.X
		case *ssa.ChangeType:
			v = x.X
		default:
			return false
		}
	}
}

// ---- no stored status value is rejected on import ----

// importAcceptsEveryStatus: in the functions that run on genesis import (InitGenesis, its closures and the
// repository functions it reaches), a value of a repository enum type (a record status) that is compared with
// constants must not lead to a panic for any of the enum's named non-zero values: every status a record can
// have on the running chain can be in an exported state.
func (c *Check) importAcceptsEveryStatus(rule string) {
	p := c.p
	greach, _ := p.CG().Reach(p.Contexts().Genesis, nil)
	var fns []*ssa.Function
	for f := range greach {
		if !p.isGenerated(f) && len(f.Blocks) > 0 && isProdPkgFn(f) {
			fns = append(fns, f)
		}
	}
	// closures of those functions
	for _, f := range p.Funcs {
		if f.Parent() != nil && greach[rootOf(f)] && !greach[f] && len(f.Blocks) > 0 {
			fns = append(fns, f)
		}
	}
	sort.Slice(fns, func(i, j int) bool { return fns[i].Pos() < fns[j].Pos() })
	nCmp, nBad := 0, 0
	for _, f := range fns {
		// status-typed values compared with constants
		type cmpEdge struct {
			b     *ssa.BasicBlock
			val   ssa.Value
			konst int64
			eqIdx int // successor index on which val == konst
		}
		byVal := map[ssa.Value][]cmpEdge{}
		enumOf := map[ssa.Value]*Enum{}
		for _, b := range f.Blocks {
			iff, ok := b.Instrs[len(b.Instrs)-1].(*ssa.If)
			if !ok {
				continue
			}
			cond, neg := iff.Cond, false
			for {
				if u, ok := cond.(*ssa.UnOp); ok && u.Op == token.NOT {
					cond, neg = u.X, !neg
					continue
				}
				break
			}
			bo, ok := cond.(*ssa.BinOp)
			if !ok || (bo.Op != token.EQL && bo.Op != token.NEQ) {
				continue
			}
			v, k := bo.X, bo.Y
			if _, isC := v.(*ssa.Const); isC {
				v, k = k, v
			}
			kc, isC := k.(*ssa.Const)
			nt := namedOf(v.Type())
			if !isC || kc.Value == nil || nt == nil || nt.Obj().Pkg() == nil || !strings.HasPrefix(nt.Obj().Pkg().Path(), modPath) {
				continue
			}
			if bt, isB := nt.Underlying().(*types.Basic); !isB || bt.Info()&types.IsInteger == 0 {
				continue
			}
			en := p.EnumOf(nt)
			if len(en.Values) < 2 {
				continue
			}
			kv, _ := constant.Int64Val(constant.ToInt(kc.Value))
			eqIdx := 0
			if (bo.Op == token.NEQ) != neg {
				eqIdx = 1
			}
			byVal[v] = append(byVal[v], cmpEdge{b, v, kv, eqIdx})
			enumOf[v] = en
		}
		for v, edges := range byVal {
			en := enumOf[v]
			c.touch(f)
			nCmp += len(edges)
			// panics that depend on v: unreachable once every comparison edge of v is removed
			all := map[edgeKey]bool{}
			for _, e := range edges {
				all[edgeKey{b: e.b, i: 0}] = true
				all[edgeKey{b: e.b, i: 1}] = true
			}
			isPanic := func(in ssa.Instruction) bool { _, ok := in.(*ssa.Panic); return ok }
			// panics decided by the status alone: every predecessor of the panicking block branches on this value
			cmpBlock := map[*ssa.BasicBlock]bool{}
			for _, e := range edges {
				cmpBlock[e.b] = true
			}
			dependent := map[ssa.Instruction]bool{}
			for _, b := range f.Blocks {
				for _, in := range b.Instrs {
					if !isPanic(in) || len(b.Preds) == 0 {
						continue
					}
					okPreds := true
					for _, pb := range b.Preds {
						if !cmpBlock[pb] {
							okPreds = false
						}
					}
					if okPreds {
						dependent[in] = true
					}
				}
			}
			if len(dependent) == 0 {
				continue
			}
			for _, val := range en.Values {
				if val == 0 {
					continue // the zero value (unspecified) is never stored
				}
				avoid := map[edgeKey]bool{}
				for _, e := range edges {
					if e.konst == val {
						avoid[edgeKey{b: e.b, i: 1 - e.eqIdx}] = true
					} else {
						avoid[edgeKey{b: e.b, i: e.eqIdx}] = true
					}
				}
				if t, path := (&PathSearch{Fn: f, AvoidEdges: avoid, IsTarget: func(x ssa.Instruction) bool { return dependent[x] }}).Find(); t != nil {
					nBad++
					c.Violated(rule, "status-rejected-on-import "+en.Names[val]+" @ "+FuncKey(f), p.InstrPos(t), "genesis import panics for a "+typeShort(en.Type)+" of "+en.Names[val]+", a value records have on the running chain: a state exported while such a record exists cannot be imported", p.describePath(path)...)
				}
			}
		}
	}
	if nBad == 0 {
		c.Held(rule, "import-accepts-every-status", "", fmt.Sprintf("%d status comparisons in %d functions run on genesis import: no named status value leads to a panic", nCmp, len(fns)))
	}
}

// errorsIsArgumentOrder: errors.Is(err, target) asks whether err is (or wraps) target. With the arguments the other way
// round — a package-level sentinel first, the error at hand second — the answer is false for every wrapped error (the
// store's "not found" is returned wrapped), so the branch that forgives the sentinel is never taken: an absent entry turns
// into a failing block hook, proposal or export.
func (c *Check) errorsIsArgumentOrder(rule string) {
	p := c.p
	n, bad := 0, 0
	isSentinel := func(v ssa.Value) bool {
		if u, ok := v.(*ssa.UnOp); ok && u.Op == token.MUL {
			_, isG := u.X.(*ssa.Global)
			return isG
		}
		return false
	}
	// where a dead forgiving branch fails a transaction, a block hook, a proposal or an export (not the query servers)
	ctx := p.Contexts()
	var roots []*ssa.Function
	for _, l := range [][]*ssa.Function{ctx.Tx, ctx.Block, ctx.Ante, ctx.Genesis, ctx.Proposal} {
		roots = append(roots, l...)
	}
	for _, mod := range []string{"bitcoin", "relayer", "goat", "locking"} {
		if f := p.byName["x/"+mod+"/module.ExportGenesis"]; f != nil {
			roots = append(roots, f)
		}
	}
	reach, _ := p.CG().Reach(roots, nil)
	var fns []*ssa.Function
	for f := range reach {
		fns = append(fns, f)
	}
	sort.Slice(fns, func(i, j int) bool { return FuncKey(fns[i]) < FuncKey(fns[j]) })
	for _, f := range fns {
		if p.isGenerated(f) || !isProdPkgFn(f) {
			continue
		}
		for _, ci := range callsIn(f) {
			cf := calleeFunc(ci.Common())
			if cf == nil || cf.FullName() != "errors.Is" || len(ci.Common().Args) != 2 {
				continue
			}
			n++
			a := ci.Common().Args
			if isSentinel(a[0]) && !isSentinel(a[1]) {
				bad++
				c.touch(f)
				c.Violated(rule, "errors.Is-argument-order @ "+FuncKey(f), p.InstrPos(ci), "errors.Is("+p.R(f).E(a[0])+", "+p.R(f).E(a[1])+"): the sentinel comes first, so a wrapped error never matches and the forgiving branch is dead")
			}
		}
	}
	if bad == 0 {
		c.Held(rule, "errors.Is-argument-order", "", fmt.Sprintf("%d errors.Is calls: the error at hand first, the sentinel second", n))
	}
	c.Floor(rule, "errors.Is calls", n, 3)
}
