package main

import (
	"fmt"
	"go/constant"
	"go/token"
	"go/types"
	"regexp"
	"sort"
	"strings"

	"golang.org/x/tools/go/ssa"
)

func init() { register("C08", propC08) }

// requireFactFrom: every path from instruction `from` to a target takes an edge whose fact matches.
func (c *Check) requireFactFrom(fn *ssa.Function, rule, name, pattern string, from ssa.Instruction, target instrPred, targetDesc string) bool {
	c.touch(fn)
	p := c.p
	construct := name + " @ " + FuncKey(fn)
	re := regexp.MustCompile(pattern)
	edges := p.MatchEdges(fn, re)
	if target == nil {
		// success exits, except a `return f(…)` whose success means the fact itself
		target = p.successTargetsFor(fn, re)
	} else if len(edges) == 0 {
		c.Violated(rule, construct, p.Pos(fn.Pos()), "no branch establishes the fact /"+pattern+"/ reason=not-established")
		return false
	}
	ps := &PathSearch{Fn: fn, From: from, AvoidEdges: edgeSet(edges), IsTarget: target}
	if t, path := ps.Find(); t != nil {
		if len(edges) == 0 {
			c.Violated(rule, construct, p.Pos(fn.Pos()), "no branch establishes the fact /"+pattern+"/ reason=not-established")
			return false
		}
		c.Violated(rule, construct, p.InstrPos(t), fmt.Sprintf("a path reaches %s without establishing /%s/", targetDesc, pattern), p.describePath(path)...)
		return false
	}
	if len(edges) == 0 {
		c.Held(rule, construct, p.Pos(fn.Pos()), "fact on every path to "+targetDesc+" (implied by the returned call)")
		return true
	}
	c.Held(rule, construct, p.InstrPos(edges[0].Block.Instrs[len(edges[0].Block.Instrs)-1]), fmt.Sprintf("fact %q on every path to %s", edges[0].Fact, targetDesc))
	return true
}

// ---- shared-memory effects of goroutine closures ----

type effects struct {
	W map[string]string // path -> where
	R map[string]string
}

func sharedRoot(path string) bool {
	return strings.HasPrefix(path, "^") || strings.HasPrefix(path, "$")
}

// fnEffects: reads/writes of memory reachable from pointer-like parameters ($i) and captured variables (^x),
// including repository callees up to the given depth (callee paths are rewritten into the caller's terms).
func (p *Prog) fnEffects(fn *ssa.Function, depth int, memo map[*ssa.Function]*effects) *effects {
	if e, ok := memo[fn]; ok {
		return e
	}
	e := &effects{W: map[string]string{}, R: map[string]string{}}
	memo[fn] = e
	r := p.R(fn)
	ptrParam := func(path string) bool {
		// $i... rooted at a parameter that can alias caller memory (pointer, slice, map, interface)
		if !strings.HasPrefix(path, "$") {
			return strings.HasPrefix(path, "^")
		}
		var idx int
		fmt.Sscanf(path[1:], "%d", &idx)
		if idx >= len(fn.Params) {
			return false
		}
		switch fn.Params[idx].Type().Underlying().(type) {
		case *types.Pointer, *types.Slice, *types.Map, *types.Interface:
			return true
		}
		return false
	}
	for _, b := range fn.Blocks {
		for _, in := range b.Instrs {
			switch x := in.(type) {
			case *ssa.Store:
				if a, _ := rootAlloc(x.Addr); a != nil && len(r.wholeStores[a]) == 1 {
					// a local copy of a by-value parameter or local variable: private
					if _, isParam := r.wholeStores[a][0].Val.(*ssa.Parameter); isParam {
						continue
					}
				}
				path := r.E(x.Addr)
				if sharedRoot(path) && ptrParam(path) {
					e.W[path] = p.InstrPos(in)
				}
			case *ssa.MapUpdate:
				path := r.E(x.Map)
				if sharedRoot(path) && ptrParam(path) {
					e.W[path+"[]"] = p.InstrPos(in)
				}
			case *ssa.UnOp:
				if x.Op == token.MUL {
					if a, _ := rootAlloc(x.X); a != nil {
						continue
					}
					path := r.E(x.X)
					if sharedRoot(path) && ptrParam(path) {
						e.R[path] = p.InstrPos(in)
					}
				}
			case ssa.CallInstruction:
				if depth <= 0 {
					continue
				}
				callee := x.Common().StaticCallee()
				if callee == nil || callee.Blocks == nil || !isProdPkgFn(callee) {
					continue
				}
				ce := p.fnEffects(callee, depth-1, memo)
				args := x.Common().Args
				subst := func(path string) (string, bool) {
					if !strings.HasPrefix(path, "$") {
						return "", false
					}
					var idx int
					n, _ := fmt.Sscanf(path[1:], "%d", &idx)
					if n != 1 || idx >= len(args) {
						return "", false
					}
					rest := strings.TrimPrefix(path[1:], fmt.Sprint(idx))
					return r.E(args[idx]) + rest, true
				}
				for wp, pos := range ce.W {
					if np, ok := subst(wp); ok && sharedRoot(np) && ptrParam(np) {
						e.W[np] = pos + " (via " + FuncKey(callee) + ")"
					}
				}
				for rp, pos := range ce.R {
					if np, ok := subst(rp); ok && sharedRoot(np) && ptrParam(np) {
						e.R[np] = pos + " (via " + FuncKey(callee) + ")"
					}
				}
			}
		}
	}
	return e
}

func isProdPkgFn(f *ssa.Function) bool {
	root := rootOf(f)
	return root.Pkg != nil && isProdPkg(root.Pkg.Pkg.Path())
}

// overlaps: an access to path `acc` touches memory written at path `w` when it is
// that location or lies inside it (reading the pointer that leads there does not).
func overlaps(w, acc string) bool {
	return acc == w || strings.HasPrefix(acc, w+".") || strings.HasPrefix(acc, w+"[")
}

func propC08(c *Check) {
	p := c.p
	c.Rule("R1", "ProcessProposal skeleton: 1..maxTxLen txs; every tx passes ProcessProposalVerifyTx; tx 0 has exactly one message, a *MsgNewEthBlock, accepted by verifyEthBlockProposal; no later tx carries a MsgNewEthBlock; ACCEPT only after the whole list")
	c.Rule("R2", "cap agreement: PrepareProposal stops adding mempool txs when len+1 reaches the same maxTxLen that ProcessProposal enforces")
	c.Rule("R3", "sibling agreement between verifyEthBlockProposal (proposal check) and NewEthBlock (execution): proposer = consensus proposer = fee recipient, parent hash, number+1, beacon root, VerifyDequeue, decodable requests, exactly one gas request; createEthBlockProposal sources the same state")
	c.Rule("R4", "engine verdict: NewPayloadV4 error or non-VALID rejects; ForkchoiceUpdatedV3 error, non-VALID or nil payload id fails the proposal")
	c.Rule("R6", "byte budget: every mempool tx that enters the prepared proposal passes a guard comparing a size that includes this tx and the block tx with RequestPrepareProposal.MaxTxBytes (CometBFT refuses to build a proposal block whose txs exceed it, for every proposer alike)")
	c.Rule("R7", "proposal/finalise agreement: no begin-of-block code writes a collection that the proposal-time dequeue and its re-verification in MsgNewEthBlock read (the proposal handlers run on the last committed state without the begin blockers; the message is the first tx of the block)")
	c.Rule("R5", "goroutine isolation: no memory reachable from captured variables is written by one errgroup closure (callees to depth 3 included) and read or written by its sibling")

	maxTx, _ := constant.Int64Val(p.LookupObj("x/goat/keeper", "maxTxLen").(*types.Const).Val())
	if maxTx == 16 {
		c.Held("R1", "proposal-cap-is-16", "", "maxTxLen = 16")
	} else {
		c.Violated("R1", "proposal-cap-is-16", p.Pos(p.LookupObj("x/goat/keeper", "maxTxLen").Pos()), fmt.Sprintf("the cap on the transactions of a proposal is %d, the property fixes it at 16", maxTx))
	}
	pp := p.returnedClosure("x/goat/keeper.Keeper.ProcessProposalHandler")
	c.RequireFact(pp, "R1", "non-empty", lit(NE("0", "len($1.Txs)")), nil, "")
	c.RequireFact(pp, "R1", "at-most-maxTxLen", fmt.Sprintf(`^\(len\(\$1\.Txs\) <= %d\)$|^\(len\(\$1\.Txs\) < %d\)$`, maxTx, maxTx+1), nil, "")
	vcalls := p.FindCalls(pp, `^ProposalTxVerifier\.ProcessProposalVerifyTx\(`)
	// which transactions a verification site covers: the loop over all of Txs, the first one (Txs[0], peeled out of
	// the loop) or the rest (a loop over Txs[1:])
	const ctr = "φ{(1 + @)|0}"
	type vsite struct {
		ci    ssa.CallInstruction
		cover string // all | first | rest
	}
	var sites []vsite
	for _, vc := range vcalls {
		a := p.argStr(vc, 0)
		switch a {
		case "$1.Txs[" + ctr + "]":
			sites = append(sites, vsite{vc, "all"})
		case "$1.Txs[0]":
			sites = append(sites, vsite{vc, "first"})
		case "$1.Txs[1:][" + ctr + "]":
			sites = append(sites, vsite{vc, "rest"})
		}
	}
	shape := ""
	for _, s := range sites {
		shape += s.cover + " "
	}
	switch {
	case len(sites) == 1 && len(vcalls) == 1 && sites[0].cover == "all":
		c.RequireFact(pp, "R1", "accept-after-all-txs", lit("(len($1.Txs) <= "+ctr+")"), nil, "")
	case len(sites) == 2 && len(vcalls) == 2 && ((sites[0].cover == "first" && sites[1].cover == "rest") || (sites[0].cover == "rest" && sites[1].cover == "first")):
		c.RequireFact(pp, "R1", "accept-after-all-txs", lit("(len($1.Txs[1:]) <= "+ctr+")"), nil, "")
	default:
		sites = nil
		c.Violated("R1", "per-tx-verification @ "+FuncKey(pp), p.Pos(pp.Pos()), fmt.Sprintf("%d ProcessProposalVerifyTx call sites (%s): they do not cover every transaction in a recognised way reason=not-established", len(vcalls), strings.TrimSpace(shape)))
	}
	for _, site := range sites {
		vc := site.ci
		vs := p.CallStr(vc)
		succ := successTargets(pp)
		next := func(in ssa.Instruction) bool { return in == ssa.Instruction(vc) || succ(in) }
		q := regexp.QuoteMeta
		msgs := "Tx.GetMsgs(" + vs + "#0)"
		alt := func(skip, fact string) string {
			if skip == "" {
				return fact
			}
			return skip + "|" + fact
		}
		notFirst, first := "", ""
		if site.cover == "all" {
			notFirst, first = lit(NE(ctr, "0")), lit(EQ(ctr, "0"))
		}
		tag := ""
		if site.cover != "all" {
			tag = "(" + site.cover + ")"
		}
		c.requireFactFrom(pp, "R1", "tx-verified"+tag, `^\(`+q(vs)+`#1 == nil\)$`, vc, next, "next tx / ACCEPT")
		if site.cover != "rest" {
			c.requireFactFrom(pp, "R1", "first-tx-one-message", alt(notFirst, lit(EQ("1", "len("+msgs+")"))), vc, next, "next tx / ACCEPT")
			c.requireFactFrom(pp, "R1", "first-tx-is-MsgNewEthBlock", alt(notFirst, lit(msgs+"[0].(*goat/types.MsgNewEthBlock)#1")), vc, next, "next tx / ACCEPT")
			c.requireFactFrom(pp, "R1", "first-tx-block-verified", alt(notFirst, `^\(Keeper\.verifyEthBlockProposal\((?:[^()]*(?:\([^()]*(?:\([^()]*\))?[^()]*\))?[^()]*, )*`+regexp.QuoteMeta(msgs+"[0].(*goat/types.MsgNewEthBlock)#0")+`\) == nil\)$`), vc, next, "next tx / ACCEPT")
		}
		if site.cover != "first" {
			// every message inspected: the inspection loop runs to the end, or the library search over all
			// messages (any(msgs, · is *MsgNewEthBlock)) answered false
			anyBlk := "any(" + msgs + ", ·.(*goat/types.MsgNewEthBlock)#1)"
			c.requireFactFrom(pp, "R1", "later-tx-all-messages-inspected", alt(first, lit("(len("+msgs+") <= "+ctr+")")+"|"+lit("!"+anyBlk)), vc, next, "next tx / ACCEPT")
			// a MsgNewEthBlock in a later tx can only fail
			bad := p.MatchEdges(pp, regexp.MustCompile(lit(msgs+"["+ctr+"].(*goat/types.MsgNewEthBlock)#1")+"|"+lit(anyBlk)))
			if len(bad) == 0 {
				c.Violated("R1", "later-tx-no-MsgNewEthBlock @ "+FuncKey(pp), p.Pos(pp.Pos()), "no type test of later messages against *MsgNewEthBlock reason=not-established")
			} else {
				ok := true
				for _, e := range bad {
					if canReachSuccessFromBlock(pp, e.Block.Succs[e.Idx]) {
						ok = false
						c.Violated("R1", "later-tx-no-MsgNewEthBlock @ "+FuncKey(pp), p.InstrPos(e.Block.Instrs[len(e.Block.Instrs)-1]), "a MsgNewEthBlock outside the first tx can still be accepted")
					}
				}
				if ok {
					c.Held("R1", "later-tx-no-MsgNewEthBlock @ "+FuncKey(pp), p.InstrPos(bad[0].Block.Instrs[0]), "type test true → reject")
				}
			}
		}
	}
	// R2
	pm := p.closureCalling(p.returnedClosure("x/goat/keeper.Keeper.PrepareProposalHandler"), `^Mempool\.Select\(`)
	{
		c.touch(pm)
		r := p.R(pm)
		// the append that collects mempool txs into a slice captured from the enclosing closure
		var app ssa.Instruction
		mem := ""
		for _, b := range pm.Blocks {
			for _, in := range b.Instrs {
				if st, ok := in.(*ssa.Store); ok {
					a := r.E(st.Addr)
					if strings.HasPrefix(a, "^new([") && strings.HasPrefix(r.E(st.Val), "append("+a+", ") {
						app, mem = in, strings.TrimPrefix(a, "^")
					}
				}
			}
		}
		if app == nil {
			c.Violated("R2", "mempool-append @ "+FuncKey(pm), p.Pos(pm.Pos()), "append to the selected mempool txs not found reason=not-established")
		} else {
			// how the response is composed decides how many txs a collected length stands for:
			//   Txs = append([blockTx], mem...)                → 1 + len(mem), mem starts empty
			//   mem = make(.., 1, ..); mem[0] = blockTx; Txs = mem → len(mem), the slot is counted already
			outer := pm.Parent()
			ro := p.R(outer)
			txsVal, slot0 := "", false
			for _, b := range outer.Blocks {
				for _, in := range b.Instrs {
					if st, ok := in.(*ssa.Store); ok {
						a := ro.E(st.Addr)
						if strings.HasSuffix(a, "ResponsePrepareProposal)#0.Txs") {
							txsVal = ro.E(st.Val)
						}
						if a == mem+"[0]" {
							slot0 = true
						}
					}
				}
			}
			L := `len\(\^` + regexp.QuoteMeta(mem) + `\)`
			pat := ""
			switch {
			case oneElemPrepend(txsVal, mem) && regexp.MustCompile(`^new\(\[\]\[\]byte\)#\d+$`).MatchString(mem):
				pat = fmt.Sprintf(`^\(\(1 \+ %s\) < %d\)$|^\(\(1 \+ %s\) <= %d\)$|^\(%s < %d\)$|^\(%s <= %d\)$`, L, maxTx, L, maxTx-1, L, maxTx-1, L, maxTx-2)
				c.Held("R2", "response-composition @ "+FuncKey(outer), p.Pos(outer.Pos()), "Txs = [block tx] + collected mempool txs")
			case oneElemThenLoopOver(txsVal, mem) && regexp.MustCompile(`^new\(\[\]\[\]byte\)#\d+$`).MatchString(mem):
				// Txs starts as [blockTx] and grows by at most one element of mem per iteration of a loop over mem
				pat = fmt.Sprintf(`^\(\(1 \+ %s\) < %d\)$|^\(\(1 \+ %s\) <= %d\)$|^\(%s < %d\)$|^\(%s <= %d\)$`, L, maxTx, L, maxTx-1, L, maxTx-1, L, maxTx-2)
				c.Held("R2", "response-composition @ "+FuncKey(outer), p.Pos(outer.Pos()), "Txs = [block tx] + a selection of the collected mempool txs (one per loop iteration)")
			case (txsVal == mem+"[:φ{(1 + @)|1}]" || txsVal == mem+"[:φ{(1 + @)|0}]") && slot0 && regexp.MustCompile(`^new\(\[\d+\]\[\]byte\)#\d+\[:1\]$`).MatchString(mem):
				// a prefix of the collected slice (whose reserved slot 0 holds the block tx): never longer than the slice
				pat = fmt.Sprintf(`^\(%s < %d\)$|^\(%s <= %d\)$|^\(\(1 \+ %s\) <= %d\)$`, L, maxTx, L, maxTx-1, L, maxTx)
				c.Held("R2", "response-composition @ "+FuncKey(outer), p.Pos(outer.Pos()), "Txs = a prefix of the collected slice whose reserved slot 0 holds the block tx")
			case txsVal == mem && slot0 && regexp.MustCompile(`^new\(\[\d+\]\[\]byte\)#\d+\[:1\]$`).MatchString(mem):
				pat = fmt.Sprintf(`^\(%s < %d\)$|^\(%s <= %d\)$|^\(\(1 \+ %s\) <= %d\)$`, L, maxTx, L, maxTx-1, L, maxTx)
				c.Held("R2", "response-composition @ "+FuncKey(outer), p.Pos(outer.Pos()), "Txs = collected slice whose reserved slot 0 holds the block tx")
			default:
				c.Violated("R2", "response-composition @ "+FuncKey(outer), p.Pos(outer.Pos()), "cannot relate the response Txs ("+txsVal+") to the collected mempool txs ("+mem+") reason=not-established")
			}
			if pat != "" {
				c.requireFactFrom(pm, "R2", "stop-at-maxTxLen", pat, app, func(in ssa.Instruction) bool { return in == app }, "next append")
			}
		}
	}

	c.prepareByteBudget("R6")
	c.beginBlockKeepsProposalInputs("R7")

	// R3 siblings
	V := p.closureCalling(p.MustFn("x/goat/keeper.Keeper.verifyEthBlockProposal"), `^Keeper\.VerifyDequeue\(`)
	N := p.MustFn("x/goat/keeper.msgServer.NewEthBlock")
	type sib struct {
		fn  *ssa.Function
		msg string
	}
	for _, s := range []sib{{V, "^$2"}, {N, "$2"}} {
		pl := s.msg + ".Payload"
		prop := "Codec.StringToBytes(" + s.msg + ".Proposer)#0"
		c.RequireFact(s.fn, "R3", "O1 proposer=consensus-proposer", lit("bytes.Equal("+prop+", BlockInfo.GetProposerAddress(Context.CometInfo()))"), nil, "")
		c.RequireFact(s.fn, "R3", "O2 proposer=fee-recipient", lit("bytes.Equal("+prop+", "+pl+".FeeRecipient)"), nil, "")
		c.RequireFact(s.fn, "R3", "O3 parent-hash", lit("bytes.Equal(Block.Get()#0.BlockHash, "+pl+".ParentHash)"), nil, "")
		c.RequireFact(s.fn, "R3", "O4 number+1", lit(EQ("(1 + Block.Get()#0.BlockNumber)", pl+".BlockNumber")), nil, "")
		c.RequireFact(s.fn, "R3", "O5 beacon-root", lit("bytes.Equal(BeaconRoot.Get()#0, "+pl+".BeaconRoot)"), nil, "")
		c.RequireFact(s.fn, "R3", "O6 system-txs", lit("(Keeper.VerifyDequeue("+pl+".ExtraData, "+pl+".Transactions) == nil)"), nil, "")
		c.RequireFact(s.fn, "R3", "O9 block-hash-32-bytes", lit(EQ("32", "len("+pl+".BlockHash)")), nil, "")
		c.RequireFact(s.fn, "R3", "O7 requests-decode", lit("(goattypes.DecodeRequests("+pl+".Requests)#3 == nil)"), nil, "")
	}
	c.RequireFact(V, "R3", "O8 one-gas-request", lit(EQ("1", "len(goattypes.DecodeRequests(^$2.Payload.Requests)#2.Gas)")), nil, "")
	c.RequireFact(N, "R3", "O8 one-gas-request (via ProcessLockingRequest)", lit("(LockingKeeper.ProcessLockingRequest(goattypes.DecodeRequests($2.Payload.Requests)#2) == nil)"), nil, "")
	plr := p.MustFn("x/locking/keeper.Keeper.ProcessLockingRequest")
	c.RequireFact(plr, "R3", "O8 one-gas-request (UpdateRewardPool called)", lit("(Keeper.UpdateRewardPool($2.Gas, $2.Grants) == nil)"), nil, "")
	urp := p.MustFn("x/locking/keeper.Keeper.UpdateRewardPool")
	c.RequireFact(urp, "R3", "O8 one-gas-request", lit(EQ("1", "len($2)")), nil, "")
	c.RequireFact(N, "R3", "no-blob-gas", patLE("$2.Payload.BlobGasUsed", "0")+"|"+lit(EQ("0", "$2.Payload.BlobGasUsed")), nil, "")
	c.RequireFact(N, "R3", "bridge-requests-processed", lit("(BitcoinKeeper.ProcessBridgeRequest(goattypes.DecodeRequests($2.Payload.Requests)#0) == nil)"), nil, "")
	c.RequireFact(N, "R3", "relayer-requests-processed", lit("(RelayerKeeper.ProcessRelayerRequest(goattypes.DecodeRequests($2.Payload.Requests)#1) == nil)"), nil, "")

	// createEthBlockProposal sources the same state
	P := p.MustFn("x/goat/keeper.Keeper.createEthBlockProposal")
	{
		c.touch(P)
		r := p.R(P)
		want := map[string]string{
			"new(engine.ForkchoiceStateV1)#0.HeadBlockHash":         "common.BytesToHash(Block.Get()#0.BlockHash)",
			"new(engine.PayloadAttributes)#0.SuggestedFeeRecipient": "common.BytesToAddress($4.ProposerAddress)",
			"new(engine.PayloadAttributes)#0.BeaconRoot":            "common.BytesToHash(BeaconRoot.Get()#0)",
			"new(engine.PayloadAttributes)#0.GoatTxs":               "Keeper.Dequeue()#0",
			"new(goat/types.MsgNewEthBlock)#0.Proposer":             "Codec.BytesToString($4.ProposerAddress)#0",
		}
		for _, b := range P.Blocks {
			for _, in := range b.Instrs {
				if st, ok := in.(*ssa.Store); ok {
					a := r.E(st.Addr)
					if w, ok := want[a]; ok {
						if v := r.E(st.Val); v == w {
							c.Held("R3", "proposal "+a+" @ "+FuncKey(P), p.InstrPos(in), v)
						} else {
							c.Violated("R3", "proposal "+a+" @ "+FuncKey(P), p.InstrPos(in), "built from "+v+", expected "+w)
						}
						delete(want, a)
					}
				}
			}
		}
		for a := range want {
			c.Violated("R3", "proposal "+a+" @ "+FuncKey(P), p.Pos(P.Pos()), "store not found reason=not-established")
		}
		if calls := p.FindCallsDeep(P, `^TxBuilder\.SetTimeoutHeight\(`); len(calls) == 1 && strings.HasSuffix(calls[0].Str, ", $4.Height)") {
			c.Held("R3", "proposal timeout-height @ "+FuncKey(P), p.InstrPos(calls[0].Call), "timeout height = proposal height (matches the ante rule)")
		} else {
			c.Violated("R3", "proposal timeout-height @ "+FuncKey(P), p.Pos(P.Pos()), "timeout height is not set to the proposal height reason=not-established")
		}
		fcu := "EngineClient.ForkchoiceUpdatedV3(new(engine.ForkchoiceStateV1)#0, new(engine.PayloadAttributes)#0)"
		c.RequireFact(P, "R4", "forkchoice-error", lit("("+fcu+"#1 == nil)"), nil, "")
		c.RequireFact(P, "R4", "forkchoice-VALID", lit("("+fcu+"#0.PayloadStatus.Status == engine.VALID)"), nil, "")
		c.RequireFact(P, "R4", "payload-id", lit("("+fcu+"#0.PayloadID != nil)"), nil, "")
		c.RequireFact(P, "R4", "get-payload-error", lit("(EngineClient.GetPayloadV4(*"+fcu+"#0.PayloadID)#1 == nil)"), nil, "")
	}
	V2 := p.closureCalling(p.MustFn("x/goat/keeper.Keeper.verifyEthBlockProposal"), `^EngineClient\.NewPayloadV4\(`)
	np := "EngineClient.NewPayloadV4(goat/types.PayloadToExecutableData(^$2.Payload), [], common.BytesToHash(^$2.Payload.BeaconRoot), ^$2.Payload.Requests)"
	c.RequireFact(V2, "R4", "newPayload-error", lit("("+np+"#1 == nil)"), nil, "")
	c.RequireFact(V2, "R4", "newPayload-VALID", lit("("+np+"#0.Status == engine.VALID)"), nil, "")
	// verifyEthBlockProposal returns the group's verdict
	vp := p.MustFn("x/goat/keeper.Keeper.verifyEthBlockProposal")
	{
		c.touch(vp)
		ok := false
		for _, e := range Exits(vp) {
			if e.Kind == exitFailure {
				continue
			}
			ok = p.R(vp).E(e.Ret.Results[0]) == "Group.Wait(errgroup.WithContext()#0)"
			if !ok {
				c.Violated("R4", "group-verdict @ "+FuncKey(vp), p.InstrPos(e.Ret), "returns "+p.R(vp).E(e.Ret.Results[0])+" instead of the errgroup's Wait()")
			}
		}
		if ok {
			c.Held("R4", "group-verdict @ "+FuncKey(vp), p.Pos(vp.Pos()), "returns eg.Wait()")
		}
		gos := p.FindCalls(vp, `^Group\.Go\(`)
		if len(gos) != 2 {
			c.Violated("R4", "both-checks-started @ "+FuncKey(vp), p.Pos(vp.Pos()), fmt.Sprintf("%d Group.Go calls (want the structural and the engine check)", len(gos)))
		} else {
			c.Held("R4", "both-checks-started @ "+FuncKey(vp), p.InstrPos(gos[0]), "structural check and engine check both run in the group")
		}
	}

	// R5 goroutine isolation
	groups := map[string][]*ssa.Function{}
	for _, f := range p.ProdFuncs {
		for _, ci := range callsIn(f) {
			cf := calleeFunc(ci.Common())
			if cf == nil || cf.FullName() != "(*golang.org/x/sync/errgroup.Group).Go" {
				continue
			}
			args := ci.Common().Args
			if mc, ok := args[len(args)-1].(*ssa.MakeClosure); ok {
				groups[FuncKey(f)] = append(groups[FuncKey(f)], mc.Fn.(*ssa.Function))
			} else {
				c.Violated("R5", "errgroup-closure @ "+FuncKey(f), p.InstrPos(ci), "errgroup.Go with a non-literal function: cannot analyse reason=not-established")
			}
		}
	}
	var gkeys []string
	for k := range groups {
		gkeys = append(gkeys, k)
	}
	sort.Strings(gkeys)
	nClosures := 0
	memo := map[*ssa.Function]*effects{}
	for _, gk := range gkeys {
		cl := groups[gk]
		nClosures += len(cl)
		for i := 0; i < len(cl); i++ {
			for j := i + 1; j < len(cl); j++ {
				ei, ej := p.fnEffects(cl[i], 3, memo), p.fnEffects(cl[j], 3, memo)
				c.touch(cl[i])
				c.touch(cl[j])
				conflicts := 0
				check := func(w map[string]string, wfn *ssa.Function, other *effects, ofn *ssa.Function) {
					for wp, wpos := range w {
						var hits []string
						for op, opos := range other.R {
							if overlaps(wp, op) {
								hits = append(hits, "reads "+op+" at "+opos)
							}
						}
						for op, opos := range other.W {
							if overlaps(wp, op) || overlaps(op, wp) {
								hits = append(hits, "writes "+op+" at "+opos)
							}
						}
						if len(hits) > 0 {
							sort.Strings(hits)
							conflicts++
							c.Violated("R5", "shared-write "+wp+" @ "+FuncKey(wfn), wpos, "written in "+FuncKey(wfn)+" while the concurrent sibling "+FuncKey(ofn)+" "+strings.Join(hits, "; "))
						}
					}
				}
				check(ei.W, cl[i], ej, cl[j])
				check(ej.W, cl[j], ei, cl[i])
				if conflicts == 0 {
					c.Held("R5", "isolated "+FuncKey(cl[i])+" ∥ "+FuncKey(cl[j]), p.Pos(cl[i].Pos()),
						fmt.Sprintf("writes %v / %v never overlap the sibling's accesses (%d/%d shared reads)", keys(ei.W), keys(ej.W), len(ei.R), len(ej.R)))
				}
			}
		}
	}
	c.Floor("R5", "errgroup closures", nClosures, 2)

	// joined before use: from every Group.Go no path reaches a success exit of the starter, or a read of a
	// captured variable the closure writes, without passing the group's Wait
	nJoin := 0
	for _, f := range p.ProdFuncs {
		var gos, waits []ssa.Instruction
		written := map[ssa.Value]bool{}
		for _, ci := range callsIn(f) {
			cf := calleeFunc(ci.Common())
			if cf == nil {
				continue
			}
			switch cf.FullName() {
			case "(*golang.org/x/sync/errgroup.Group).Wait":
				if _, isDefer := ci.(*ssa.Defer); !isDefer {
					waits = append(waits, ci)
				}
			case "(*golang.org/x/sync/errgroup.Group).Go":
				gos = append(gos, ci)
				args := ci.Common().Args
				if mc, ok := args[len(args)-1].(*ssa.MakeClosure); ok {
					cfn := mc.Fn.(*ssa.Function)
					for i, fv := range cfn.FreeVars {
						for _, ref := range *fv.Referrers() {
							if st, ok := ref.(*ssa.Store); ok && st.Addr == fv {
								written[mc.Bindings[i]] = true
							}
						}
					}
				}
			}
		}
		if len(gos) == 0 {
			continue
		}
		c.touch(f)
		isWait := instrSet(waits)
		success := successTargets(f)
		target := func(in ssa.Instruction) bool {
			if success(in) {
				return true
			}
			if u, ok := in.(*ssa.UnOp); ok && u.Op == token.MUL && written[u.X] {
				return true
			}
			return false
		}
		for _, g := range gos {
			nJoin++
			construct := "joined-before-use @ " + FuncKey(f) + " " + fmt.Sprint(indexOfInstr(gos, g))
			ps := &PathSearch{Fn: f, From: g, AvoidInstr: isWait, IsTarget: target}
			if t, path := ps.Find(); t != nil {
				c.Violated("R5", construct, p.InstrPos(t), "a path from Group.Go reaches a success exit or a read of a variable the goroutine writes without passing Group.Wait (the goroutine may still be running)", p.describePath(path)...)
			} else {
				c.Held("R5", construct, p.InstrPos(g), "Group.Wait lies on every path from this Go to a success exit and to every read of the variables the goroutine writes")
			}
		}
	}
	c.Floor("R5", "errgroup starts joined", nJoin, 4)
}

func indexOfInstr(list []ssa.Instruction, x ssa.Instruction) int {
	for i, y := range list {
		if y == x {
			return i
		}
	}
	return -1
}

func keys(m map[string]string) []string {
	var out []string
	for k := range m {
		out = append(out, k)
	}
	sort.Strings(out)
	return out
}

// oneElemPrepend: v is append([x], mem) with exactly one literal element x.
// oneElemThenLoopOver: v is φ{[X]|append(@, [mem[i]])} with i the canonical counter of a loop over mem:
// the slice starts with one element and receives at most one element of mem per iteration.
func oneElemThenLoopOver(v, mem string) bool {
	if !strings.HasPrefix(v, "φ{") || !strings.HasSuffix(v, "}") {
		return false
	}
	alts := splitTop(v[len("φ{") : len(v)-1])
	if len(alts) != 2 {
		return false
	}
	grow := "append(@, [" + mem + "[φ{(1 + @)|0}]])"
	var first string
	switch {
	case alts[0] == grow:
		first = alts[1]
	case alts[1] == grow:
		first = alts[0]
	default:
		return false
	}
	if regexp.MustCompile(`^make\(\[\]\[\]byte,1,.*\)$`).MatchString(first) && balancedTop(first) {
		return true // one pre-allocated slot (filled with the block tx), then grown by the loop
	}
	if !strings.HasPrefix(first, "[") || !strings.HasSuffix(first, "]") || !balancedTop(first[1:len(first)-1]) {
		return false
	}
	depth := 0
	for _, ch := range first[1 : len(first)-1] {
		switch ch {
		case '(', '[', '{':
			depth++
		case ')', ']', '}':
			depth--
		case ',':
			if depth == 0 {
				return false
			}
		}
	}
	return true
}

func oneElemPrepend(v, mem string) bool {
	if !strings.HasPrefix(v, "append([") || !strings.HasSuffix(v, "], "+mem+")") {
		return false
	}
	inner := v[len("append([") : len(v)-len("], "+mem+")")]
	depth := 0
	for _, ch := range inner {
		switch ch {
		case '(', '[', '{':
			depth++
		case ')', ']', '}':
			depth--
		case ',':
			if depth == 0 {
				return false
			}
		}
	}
	return depth == 0 && inner != ""
}
