package main

import (
	"bufio"
	"encoding/json"
	"fmt"
	"os"
	"path/filepath"
	"regexp"
	"sort"
	"strings"
	"time"

	"golang.org/x/tools/go/ssa"
)

// Ob is one obligation (rule, construct) with its verdict on the current tree.
type Ob struct {
	Rule      string   `json:"rule"`
	Construct string   `json:"construct"`
	Status    string   `json:"status"` // HELD | VIOLATED | UNDECIDED
	Pos       string   `json:"pos,omitempty"`
	Detail    string   `json:"detail,omitempty"`
	Witness   []string `json:"witness,omitempty"`
}

func (o Ob) Key() string { return o.Rule + " @ " + o.Construct }

// Check accumulates the obligations of one property run.
type Check struct {
	p        *Prog
	ID       string
	Tier     string
	Obs      []Ob
	Notes    []string
	Counters map[string]int
	fnSeen   map[*ssa.Function]bool
	Rules    map[string]string // rule id -> description
	start    time.Time
	Extra    map[string]any
	Quiet    bool // sub-check run on behalf of another property: no output
}

func NewCheck(p *Prog, id, tier string) *Check {
	return &Check{p: p, ID: id, Tier: tier, Counters: map[string]int{}, fnSeen: map[*ssa.Function]bool{}, Rules: map[string]string{}, start: time.Now(), Extra: map[string]any{}}
}

func (c *Check) Rule(id, desc string) { c.Rules[id] = desc }

func (c *Check) touch(fn *ssa.Function) {
	if fn == nil || c.fnSeen[fn] {
		return
	}
	c.fnSeen[fn] = true
	c.Counters["functions_analysed"]++
	c.Counters["blocks_analysed"] += len(fn.Blocks)
	for _, b := range fn.Blocks {
		c.Counters["instructions_analysed"] += len(b.Instrs)
	}
}

func (c *Check) add(o Ob) {
	c.Obs = append(c.Obs, o)
	if c.Quiet {
		return
	}
	tag := o.Status
	line := fmt.Sprintf("%-9s %s %s", tag, c.ID+"/"+o.Rule, o.Construct)
	if o.Pos != "" {
		line += " [" + o.Pos + "]"
	}
	if o.Detail != "" {
		line += " — " + o.Detail
	}
	fmt.Println(line)
	for _, w := range o.Witness {
		fmt.Println("            witness: " + w)
	}
}

func (c *Check) Held(rule, construct, pos, detail string) {
	c.add(Ob{Rule: rule, Construct: construct, Status: "HELD", Pos: pos, Detail: detail})
}

func (c *Check) Violated(rule, construct, pos, detail string, witness ...string) {
	c.add(Ob{Rule: rule, Construct: construct, Status: "VIOLATED", Pos: pos, Detail: detail, Witness: witness})
}

func (c *Check) Undecided(rule, construct, pos, detail string) {
	c.add(Ob{Rule: rule, Construct: construct, Status: "UNDECIDED", Pos: pos, Detail: detail})
}

func (c *Check) Note(format string, a ...any) {
	s := fmt.Sprintf(format, a...)
	c.Notes = append(c.Notes, s)
	if c.Quiet {
		return
	}
	fmt.Println("NOTE      " + c.ID + " " + s)
}

// Floor fails the check when a rule matched fewer instances than confirmed by hand.
func (c *Check) Floor(rule, what string, got, want int) {
	if got < want {
		c.Violated(rule, "floor:"+what, "", fmt.Sprintf("rule matched %d instances, floor is %d (rule would pass vacuously) reason=not-established", got, want))
	} else {
		c.Held(rule, "floor:"+what, "", fmt.Sprintf("%d instances (floor %d)", got, want))
	}
}

// ---- known findings ----

type knownFindings struct {
	findings map[string]string // "Cxx|rule @ construct" -> description
	fixed    []string
}

func loadKnown(verifDir string) *knownFindings {
	k := &knownFindings{findings: map[string]string{}}
	f, err := os.Open(filepath.Join(verifDir, "known_findings.txt"))
	if err != nil {
		return k
	}
	defer f.Close()
	sc := bufio.NewScanner(f)
	re := regexp.MustCompile(`^finding:\s+property=(C\d+)\s+key=\[(.*?)\]\s*(.*)$`)
	for sc.Scan() {
		line := strings.TrimSpace(sc.Text())
		if strings.HasPrefix(line, "fixed:") {
			k.fixed = append(k.fixed, line)
			continue
		}
		if m := re.FindStringSubmatch(line); m != nil {
			k.findings[m[1]+"|"+m[2]] = m[3]
		}
	}
	return k
}

// ---- finishing: verdict, evidence, reports ----

// Unlisted counts the violated / undecided obligations that the known-findings file does not list.
func (c *Check) Unlisted(verifDir string) int {
	known := loadKnown(verifDir)
	n := 0
	for _, o := range c.Obs {
		if o.Status == "VIOLATED" || o.Status == "UNDECIDED" {
			if _, ok := known.findings[c.ID+"|"+o.Key()]; ok && o.Status == "VIOLATED" {
				continue
			}
			n++
		}
	}
	return n
}

func (c *Check) Finish(verifDir string, selftest map[string]any) int {
	known := loadKnown(verifDir)
	held, viol, und := 0, 0, 0
	var unlisted []Ob
	for _, o := range c.Obs {
		switch o.Status {
		case "HELD":
			held++
		case "VIOLATED", "UNDECIDED":
			if o.Status == "UNDECIDED" {
				und++
			}
			if desc, ok := known.findings[c.ID+"|"+o.Key()]; ok && o.Status == "VIOLATED" {
				fmt.Printf("KNOWN-FINDING: property=%s %s — %s\n", c.ID, o.Key(), desc)
				continue
			}
			viol++
			unlisted = append(unlisted, o)
		}
	}
	_ = os.MkdirAll(filepath.Join(verifDir, "reports"), 0o755)
	_ = os.MkdirAll(filepath.Join(verifDir, "evidence"), 0o755)
	for i, o := range unlisted {
		path := filepath.Join(verifDir, "reports", fmt.Sprintf("%s.%d.json", c.ID, i))
		rep := map[string]any{
			"property": c.ID, "rule": o.Rule, "construct": o.Construct, "status": o.Status, "pos": o.Pos,
			"detail": o.Detail, "witness": o.Witness, "rule_text": c.Rules[o.Rule],
			"replay": fmt.Sprintf("cd /verif && ./run.sh %s quick   # re-decides %s on /repo's current tree", c.ID, o.Key()),
		}
		b, _ := json.MarshalIndent(rep, "", " ")
		_ = os.WriteFile(path, b, 0o644)
		reason := ""
		if o.Status == "UNDECIDED" || strings.Contains(o.Detail, "not-established") {
			reason = " reason=not-established"
		}
		fmt.Printf("VIOLATION property=%s replay=%s rule=%s construct=%q at=%s%s\n", c.ID, path, o.Rule, o.Construct, o.Pos, reason)
	}
	// evidence
	var samples []any
	for i, o := range c.Obs {
		if i < 400 {
			samples = append(samples, o)
		}
	}
	var ruleList []string
	for k, v := range c.Rules {
		ruleList = append(ruleList, k+": "+v)
	}
	sort.Strings(ruleList)
	cov := map[string]any{
		"explanation": fmt.Sprintf("static analysis of /repo's current working tree (go/packages + go/types + go/ssa, nothing executed): %d obligations (rule, construct) decided over %d functions / %d basic blocks / %d SSA instructions of the %d production functions loaded from %d packages (%d files); each obligation is a structural necessary condition of the property, see rules",
			len(c.Obs), c.Counters["functions_analysed"], c.Counters["blocks_analysed"], c.Counters["instructions_analysed"], len(c.p.ProdFuncs), len(c.p.Pkgs), c.p.NFiles),
		"obligations":         len(c.Obs),
		"discharged":          held,
		"undecided":           und,
		"rules":               ruleList,
		"samples":             samples,
		"notes":               c.Notes,
		"counters":            c.Counters,
		"packages_loaded":     len(c.p.Pkgs),
		"functions_loaded":    len(c.p.Funcs),
		"production_funcs":    len(c.p.ProdFuncs),
		"checker_cmd":         fmt.Sprintf("./run.sh %s %s", c.ID, c.Tier),
		"trusted_base":        trustedBase,
		"fixed_findings":      known.fixed,
		"exhaustive":          false,
		"evaluations":         len(c.Obs),
		"distinct_nontrivial": len(c.Obs),
		"rule":                "one evaluation per obligation (rule, construct); all are distinct program constructs",
	}
	for k, v := range c.Extra {
		cov[k] = v
	}
	if selftest != nil {
		for k, v := range selftest {
			cov[k] = v
		}
	}
	ev := map[string]any{
		"property_id": c.ID,
		"tier":        c.Tier,
		"seed":        seedFromEnv(),
		"level":       "other",
		"coverage":    cov,
		"assumptions": trustedBase,
		"wall_s":      time.Since(c.start).Seconds(),
		"violations":  viol,
	}
	b, _ := json.MarshalIndent(ev, "", " ")
	if err := os.WriteFile(filepath.Join(verifDir, "evidence", c.ID+".json"), b, 0o644); err != nil {
		infraFail("cannot write evidence: %v", err)
	}
	fmt.Printf("SUMMARY   %s tier=%s obligations=%d held=%d violated_or_undecided=%d known=%d functions=%d wall=%.1fs\n",
		c.ID, c.Tier, len(c.Obs), held, viol, len(c.Obs)-held-viol, c.Counters["functions_analysed"], time.Since(c.start).Seconds())
	if viol > 0 {
		return 1
	}
	return 0
}

func seedFromEnv() int {
	s := os.Getenv("VERIF_SEED")
	n := 0
	for _, ch := range s {
		if ch < '0' || ch > '9' {
			return 0
		}
		n = n*10 + int(ch-'0')
	}
	return n
}

var trustedBase = []string{
	"cosmos-sdk v0.50.10 baseapp: runTx recovers panics and discards the cache-wrapped store on error; message handlers run only in finalize/simulate mode; Prepare/ProcessProposal run on throw-away state; Begin/EndBlock errors abort FinalizeBlock",
	"CometBFT v0.38: LastResultsHash covers Code, Data, GasWanted, GasUsed; validator updates applied as a change set; zero-power additions, negative powers and overflow are rejected",
	"cosmossdk.io/collections iterate in key order; blst, btcd, go-ethereum (goat-geth), kelindar/bitmap behave as documented",
	"go/types and go/ssa (golang.org/x/tools v0.29.0) model the program correctly; the repository has no build-tagged or cgo files of its own",
	"each obligation decides a structural necessary condition only; the behavioural property as a whole (all inputs/histories) is NOT decided",
}

// Depend runs another property's rules quietly and imports the outcome as one obligation per
// failed sub-obligation (or a single held one): used where a property rests on an invariant
// that another property's rules establish.
func (c *Check) Depend(rule, otherID string, f propFunc, onlyRules map[string]bool, why string) {
	c.DependOn(rule, otherID, f, onlyRules, nil, why)
}

// DependOn: Depend restricted to the obligations of the other property whose construct matches constructRe.
func (c *Check) DependOn(rule, otherID string, f propFunc, onlyRules map[string]bool, constructRe *regexp.Regexp, why string) {
	sub := NewCheck(c.p, otherID, c.Tier)
	sub.Quiet = true
	f(sub)
	n, bad := 0, 0
	for _, o := range sub.Obs {
		if onlyRules != nil && !onlyRules[o.Rule] {
			continue
		}
		if constructRe != nil && !constructRe.MatchString(o.Construct) {
			continue
		}
		n++
		if o.Status != "HELD" {
			bad++
			c.Violated(rule, "depends-on "+otherID+"/"+o.Rule+" "+o.Construct, o.Pos, why+": "+o.Detail, o.Witness...)
		}
	}
	for f := range sub.fnSeen {
		c.touch(f)
	}
	if bad == 0 {
		c.Held(rule, "depends-on "+otherID, "", fmt.Sprintf("%d obligations of %s hold (%s)", n, otherID, why))
	}
}
