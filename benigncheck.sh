#!/bin/bash
# benigncheck.sh <dir-with-*.diff>: apply each behaviour-preserving patch to /repo, run all 20 checks, report alarms (= false alarms)
for d in "$@"; do
for f in $d/*.diff; do
  git -C /repo apply "$f" 2>/dev/null || { echo "SKIP (does not apply) $f"; continue; }
  out=$(/verif/bin/goatverif -repo /repo -verif /verif -prop all -no-evidence 2>&1)
  rc=$?
  git -C /repo checkout -- .
  n=$(echo "$out" | grep -c "^VIOLATION")
  if [ $rc -ne 0 ] || [ $n -gt 0 ]; then echo "ALARM rc=$rc n=$n $f"; echo "$out" | grep "^VIOLATION\|INFRA" | cut -c1-260; else echo "silent $f"; fi
done
done
