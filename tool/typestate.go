package main

import (
	"go/constant"
	"go/token"
	"go/types"
	"sort"
	"strings"

	"golang.org/x/tools/go/ssa"
)

// Typestate: forward dataflow over the finite set lattice of an enum type for
// one field of local struct variables (Allocs) of a given named struct type.
//
//	⊤ (all values) after a whole-struct store from an unknown value (store read),
//	refined on ==/!= edges (if/&&/||/switch as lowered by go/ssa), set on a store
//	of a constant (or a φ of constants), ⊤ when the address escapes to a callee.
type EnumSet uint64

type Enum struct {
	Type   *types.Named
	Names  map[int64]string
	Values []int64
	All    EnumSet
}

func (p *Prog) EnumOf(nt *types.Named) *Enum {
	e := &Enum{Type: nt, Names: map[int64]string{}}
	sc := nt.Obj().Pkg().Scope()
	for _, n := range sc.Names() {
		if k, ok := sc.Lookup(n).(*types.Const); ok && types.Identical(k.Type(), nt) {
			if v, ok := constant.Int64Val(k.Val()); ok && v >= 0 && v < 64 {
				if _, dup := e.Names[v]; !dup {
					e.Names[v] = n
					e.Values = append(e.Values, v)
					e.All |= 1 << uint(v)
				}
			}
		}
	}
	sort.Slice(e.Values, func(i, j int) bool { return e.Values[i] < e.Values[j] })
	return e
}

func (e *Enum) Str(s EnumSet) string {
	var out []string
	for _, v := range e.Values {
		if s&(1<<uint(v)) != 0 {
			out = append(out, e.Names[v])
		}
	}
	return "{" + strings.Join(out, ",") + "}"
}

func (e *Enum) Set(names ...string) EnumSet {
	var s EnumSet
	for _, n := range names {
		found := false
		for v, nn := range e.Names {
			if nn == n {
				s |= 1 << uint(v)
				found = true
			}
		}
		if !found {
			panic(unresolved("enum constant " + n))
		}
	}
	return s
}

type tsKey struct {
	alloc *ssa.Alloc
}

type tsState struct {
	field map[*ssa.Alloc]EnumSet // abstract value of alloc.<Field>
	val   map[ssa.Value]EnumSet  // abstract value of loaded SSA values
	link  map[ssa.Value]*ssa.Alloc
}

func newTsState() *tsState {
	return &tsState{field: map[*ssa.Alloc]EnumSet{}, val: map[ssa.Value]EnumSet{}, link: map[ssa.Value]*ssa.Alloc{}}
}

func (s *tsState) clone() *tsState {
	n := newTsState()
	for k, v := range s.field {
		n.field[k] = v
	}
	for k, v := range s.val {
		n.val[k] = v
	}
	for k, v := range s.link {
		n.link[k] = v
	}
	return n
}

func (s *tsState) join(o *tsState) bool {
	changed := false
	for k, v := range o.field {
		if nv := s.field[k] | v; nv != s.field[k] {
			s.field[k] = nv
			changed = true
		}
	}
	for k, v := range o.val {
		if nv := s.val[k] | v; nv != s.val[k] {
			s.val[k] = nv
			changed = true
		}
	}
	for k, a := range s.link {
		if oa, ok := o.link[k]; !ok || oa != a {
			delete(s.link, k)
			changed = true
		}
	}
	return changed
}

// Typestate result for one function.
type Typestate struct {
	p      *Prog
	Fn     *ssa.Function
	Enum   *Enum
	Struct *types.Named
	Field  string
	Allocs []*ssa.Alloc
	in     map[*ssa.BasicBlock]*tsState
	// state immediately before each instruction of interest
	before map[ssa.Instruction]*tsState
	linkOK map[*ssa.BasicBlock]map[ssa.Value]bool
	// IgnoreStores: field stores do not change the abstract value ("status as loaded", refined by guards only)
	IgnoreStores bool
}

func isFieldAddrOf(addr ssa.Value, structT *types.Named, field string) *ssa.Alloc {
	fa, ok := addr.(*ssa.FieldAddr)
	if !ok {
		return nil
	}
	a, ok := fa.X.(*ssa.Alloc)
	if !ok {
		return nil
	}
	if nt := namedOf(a.Type()); nt == nil || nt.Obj() != structT.Obj() {
		return nil
	}
	if fieldName(fa.X.Type(), fa.Field) != field {
		return nil
	}
	return a
}

// constSet evaluates a stored value to the set of enum constants it can be.
func (ts *Typestate) constSet(v ssa.Value, st *tsState, seen map[ssa.Value]bool) EnumSet {
	if seen[v] {
		return 0
	}
	seen[v] = true
	switch x := v.(type) {
	case *ssa.Const:
		if x.Value == nil {
			return ts.Enum.All
		}
		if i, ok := constant.Int64Val(x.Value); ok && i >= 0 && i < 64 {
			return 1 << uint(i)
		}
		return ts.Enum.All
	case *ssa.Phi:
		var s EnumSet
		for _, e := range x.Edges {
			s |= ts.constSet(e, st, seen)
		}
		return s
	case *ssa.ChangeType:
		return ts.constSet(x.X, st, seen)
	case *ssa.Convert:
		return ts.constSet(x.X, st, seen)
	}
	if st != nil {
		if s, ok := st.val[v]; ok {
			return s
		}
	}
	return ts.Enum.All
}

// AnalyzeTypestate runs the dataflow for field `field` (of enum type) of local
// variables of struct type structT in fn.
func (p *Prog) AnalyzeTypestate(fn *ssa.Function, structT *types.Named, field string, enum *Enum) *Typestate {
	return p.analyzeTypestate(fn, structT, field, enum, false)
}

// AnalyzeLoadedState: the value the field had when the record was loaded, refined by guards; field stores are ignored.
func (p *Prog) AnalyzeLoadedState(fn *ssa.Function, structT *types.Named, field string, enum *Enum) *Typestate {
	return p.analyzeTypestate(fn, structT, field, enum, true)
}

func (p *Prog) analyzeTypestate(fn *ssa.Function, structT *types.Named, field string, enum *Enum, ignoreStores bool) *Typestate {
	ts := &Typestate{p: p, Fn: fn, Enum: enum, Struct: structT, Field: field, IgnoreStores: ignoreStores,
		in: map[*ssa.BasicBlock]*tsState{}, before: map[ssa.Instruction]*tsState{}}
	for _, b := range fn.Blocks {
		for _, in := range b.Instrs {
			if a, ok := in.(*ssa.Alloc); ok {
				if nt := namedOf(a.Type()); nt != nil && nt.Obj() == structT.Obj() {
					if _, isPtr := a.Type().(*types.Pointer).Elem().(*types.Pointer); !isPtr {
						ts.Allocs = append(ts.Allocs, a)
					}
				}
			}
		}
	}
	if len(fn.Blocks) == 0 {
		return ts
	}
	zero := EnumSet(1) // zero value of the enum
	entry := newTsState()
	for _, a := range ts.Allocs {
		entry.field[a] = zero
	}
	ts.in[fn.Blocks[0]] = entry
	work := []*ssa.BasicBlock{fn.Blocks[0]}
	inWork := map[*ssa.BasicBlock]bool{fn.Blocks[0]: true}
	iter := 0
	for len(work) > 0 {
		iter++
		if iter > 20000 {
			panic("typestate: no fixpoint")
		}
		b := work[0]
		work = work[1:]
		inWork[b] = false
		st := ts.in[b].clone()
		for _, in := range b.Instrs {
			ts.before[in] = st.clone()
			ts.transfer(in, st)
		}
		// successors
		var iff *ssa.If
		if len(b.Instrs) > 0 {
			iff, _ = b.Instrs[len(b.Instrs)-1].(*ssa.If)
		}
		for i, succ := range b.Succs {
			out := st.clone()
			if iff != nil {
				ts.refine(iff.Cond, i == 0, out)
			}
			if cur, ok := ts.in[succ]; !ok {
				ts.in[succ] = out
				if !inWork[succ] {
					work = append(work, succ)
					inWork[succ] = true
				}
			} else {
				if cur.join(out) {
					if !inWork[succ] {
						work = append(work, succ)
						inWork[succ] = true
					}
				}
			}
		}
	}
	return ts
}

func (ts *Typestate) transfer(in ssa.Instruction, st *tsState) {
	switch x := in.(type) {
	case *ssa.Alloc:
		for _, a := range ts.Allocs {
			if a == x {
				st.field[a] = 1 // fresh zero value each time the Alloc executes
				ts.unlink(st, a)
			}
		}
	case *ssa.Store:
		if a := isFieldAddrOf(x.Addr, ts.Struct, ts.Field); a != nil {
			if ts.IgnoreStores {
				ts.unlink(st, a)
				return
			}
			st.field[a] = ts.constSet(x.Val, st, map[ssa.Value]bool{})
			ts.unlink(st, a)
			return
		}
		if a, ok := x.Addr.(*ssa.Alloc); ok {
			for _, aa := range ts.Allocs {
				if aa == a {
					// whole-struct store: from another tracked local (load) or unknown
					st.field[a] = ts.wholeVal(x.Val, st)
					ts.unlink(st, a)
				}
			}
		}
	case *ssa.UnOp:
		if x.Op == token.MUL {
			if a := isFieldAddrOf(x.X, ts.Struct, ts.Field); a != nil {
				st.val[x] = st.field[a]
				st.link[x] = a
			}
		}
	case ssa.CallInstruction:
		// address of a tracked alloc passed to a callee: unknown afterwards
		for _, arg := range x.Common().Args {
			if a, ok := arg.(*ssa.Alloc); ok {
				for _, aa := range ts.Allocs {
					if aa == a {
						st.field[a] = ts.Enum.All
						ts.unlink(st, a)
					}
				}
			}
		}
	}
}

func (ts *Typestate) wholeVal(v ssa.Value, st *tsState) EnumSet {
	// load of another tracked alloc: copy
	if u, ok := v.(*ssa.UnOp); ok && u.Op == token.MUL {
		if a, ok := u.X.(*ssa.Alloc); ok {
			if s, ok := st.field[a]; ok {
				return s
			}
		}
	}
	return ts.Enum.All
}

func (ts *Typestate) unlink(st *tsState, a *ssa.Alloc) {
	for v, la := range st.link {
		if la == a {
			delete(st.link, v)
		}
	}
}

func (ts *Typestate) refine(cond ssa.Value, taken bool, st *tsState) {
	switch c := cond.(type) {
	case *ssa.UnOp:
		if c.Op == token.NOT {
			ts.refine(c.X, !taken, st)
		}
	case *ssa.BinOp:
		if c.Op != token.EQL && c.Op != token.NEQ {
			return
		}
		var v ssa.Value
		var k *ssa.Const
		if kk, ok := c.Y.(*ssa.Const); ok {
			v, k = c.X, kk
		} else if kk, ok := c.X.(*ssa.Const); ok {
			v, k = c.Y, kk
		} else {
			return
		}
		if _, tracked := st.val[v]; !tracked || k.Value == nil {
			return
		}
		i, ok := constant.Int64Val(k.Value)
		if !ok || i < 0 || i >= 64 {
			return
		}
		bit := EnumSet(1) << uint(i)
		eq := (c.Op == token.EQL) == taken
		var ns EnumSet
		if eq {
			ns = st.val[v] & bit
		} else {
			ns = st.val[v] &^ bit
		}
		st.val[v] = ns
		if a, ok := st.link[v]; ok {
			st.field[a] &= ns
			// other loads linked to the same field hold the same value
			for ov, oa := range st.link {
				if oa == a && ov != v {
					st.val[ov] &= ns
				}
			}
		}
	}
}

// At returns the possible values of alloc's field immediately before instruction in.
func (ts *Typestate) At(in ssa.Instruction, a *ssa.Alloc) (EnumSet, bool) {
	st, ok := ts.before[in]
	if !ok {
		return 0, false
	}
	s, ok := st.field[a]
	return s, ok
}

// ValAt returns the abstract value of a loaded SSA value before instruction in.
func (ts *Typestate) ValAt(in ssa.Instruction, v ssa.Value) (EnumSet, bool) {
	st, ok := ts.before[in]
	if !ok {
		return 0, false
	}
	s, ok := st.val[v]
	return s, ok
}

// StatusWrite is one store to the tracked field.
type StatusWrite struct {
	Store *ssa.Store
	Alloc *ssa.Alloc
	From  EnumSet
	To    EnumSet
	Fresh bool // the alloc is a composite literal / never loaded from the store
}

func (ts *Typestate) Writes() []StatusWrite {
	var out []StatusWrite
	for _, b := range ts.Fn.Blocks {
		for _, in := range b.Instrs {
			st, ok := in.(*ssa.Store)
			if !ok {
				continue
			}
			a := isFieldAddrOf(st.Addr, ts.Struct, ts.Field)
			if a == nil {
				continue
			}
			bs := ts.before[in]
			if bs == nil {
				continue // unreachable
			}
			w := StatusWrite{Store: st, Alloc: a, From: bs.field[a], To: ts.constSet(st.Val, bs, map[ssa.Value]bool{})}
			// fresh: a record built in this function, never (whole-)assigned from a loaded value
			w.Fresh = true
			for _, ref := range *a.Referrers() {
				if ws, ok := ref.(*ssa.Store); ok && ws.Addr == ssa.Value(a) {
					w.Fresh = false
				}
			}
			out = append(out, w)
		}
	}
	return out
}
