package main

import (
	"fmt"
	"go/constant"
	"go/token"
	"go/types"
	"regexp"
	"strconv"
	"strings"

	"golang.org/x/tools/go/ssa"
)

var errorType = types.Universe.Lookup("error").Type()

// exitKind classifies a Return: success (error result is the nil constant, or a
// bool result that can be true), failure (a non-nil error construct / false),
// or unknown (the error operand is not a constant: treated as possibly success).
type exitKind int

const (
	exitSuccess exitKind = iota
	exitFailure
	exitMaybe
)

func isNilConst(v ssa.Value) bool {
	c, ok := v.(*ssa.Const)
	return ok && c.Value == nil
}

// classifyReturn decides whether a return can be a success exit.
func classifyReturn(ret *ssa.Return) exitKind {
	fn := ret.Parent()
	res := fn.Signature.Results()
	if res.Len() == 0 {
		return exitSuccess
	}
	last := res.At(res.Len() - 1)
	op := ret.Results[len(ret.Results)-1]
	if types.Identical(last.Type(), errorType) {
		return classifyErr(op, map[ssa.Value]bool{})
	}
	if b, ok := last.Type().Underlying().(*types.Basic); ok && b.Kind() == types.Bool {
		if c, ok := op.(*ssa.Const); ok {
			if c.Value != nil && c.Value.String() == "false" {
				return exitFailure
			}
			return exitSuccess
		}
		return exitMaybe
	}
	return exitSuccess
}

func classifyErr(op ssa.Value, seen map[ssa.Value]bool) exitKind {
	if seen[op] {
		return exitFailure
	}
	seen[op] = true
	switch x := op.(type) {
	case *ssa.Const:
		if x.Value == nil {
			return exitSuccess
		}
		return exitFailure
	case *ssa.MakeInterface:
		return exitFailure // a concrete error value
	case *ssa.Phi:
		k := exitFailure
		for _, e := range x.Edges {
			switch classifyErr(e, seen) {
			case exitSuccess:
				return exitMaybe
			case exitMaybe:
				k = exitMaybe
			}
		}
		return k
	case *ssa.Call:
		if f := calleeFunc(&x.Call); f != nil {
			// error constructors always return non-nil
			switch funcShort(f) {
			case "errorsmod.Wrap", "errorsmod.Wrapf", "errors.New", "fmt.Errorf", "status.Error", "status.Errorf":
				return exitFailure
			}
		}
		if g := resolveCallee(&x.Call); g != nil && alwaysFails(g, 0) {
			return exitFailure
		}
		return exitMaybe
	case *ssa.UnOp:
		// a package-level sentinel (`var ErrX = errors.New(…)`, never reassigned) is a non-nil error
		if x.Op == token.MUL {
			if g, ok := x.X.(*ssa.Global); ok && sentinelError(g) {
				return exitFailure
			}
		}
		return exitMaybe
	case *ssa.Extract:
		// the error of an "error factory" (a repository function or local closure all of whose exits fail)
		if call, ok := x.Tuple.(*ssa.Call); ok {
			if g := resolveCallee(&call.Call); g != nil && alwaysFails(g, 0) {
				return exitFailure
			}
		}
		// err extracted from a call and returned inside `if err != nil`: decided by dominating fact
		if neverNilHere(x, seen) {
			return exitFailure
		}
		return exitMaybe
	}
	return exitMaybe
}

var sentinelMemo = map[*ssa.Global]bool{}

// sentinelError: g is a package-level error variable that is assigned exactly once, in its package's initialiser, a
// value that is a failure construct (an error constructor, or a wrap of one).
func sentinelError(g *ssa.Global) bool {
	if v, ok := sentinelMemo[g]; ok {
		return v
	}
	sentinelMemo[g] = false
	if g.Pkg == nil || !types.Identical(g.Type().(*types.Pointer).Elem(), errorType) {
		return false
	}
	stores, good := 0, true
	for _, m := range g.Pkg.Members {
		fn, ok := m.(*ssa.Function)
		if !ok {
			continue
		}
		var visit func(f *ssa.Function)
		visit = func(f *ssa.Function) {
			for _, b := range f.Blocks {
				for _, in := range b.Instrs {
					if st, ok := in.(*ssa.Store); ok && st.Addr == ssa.Value(g) {
						stores++
						if !strings.HasPrefix(f.Name(), "init") || classifyErr(st.Val, map[ssa.Value]bool{}) != exitFailure {
							good = false
						}
					}
				}
			}
			for _, a := range f.AnonFuncs {
				visit(a)
			}
		}
		visit(fn)
	}
	// methods of the package's types may assign it too
	if good && stores == 1 {
		for _, m := range g.Pkg.Members {
			if t, ok := m.(*ssa.Type); ok {
				for _, tt := range []types.Type{t.Type(), types.NewPointer(t.Type())} {
					ms := g.Pkg.Prog.MethodSets.MethodSet(tt)
					for i := 0; i < ms.Len(); i++ {
						if f := g.Pkg.Prog.MethodValue(ms.At(i)); f != nil && f.Pkg == g.Pkg {
							for _, b := range f.Blocks {
								for _, in := range b.Instrs {
									if st, ok := in.(*ssa.Store); ok && st.Addr == ssa.Value(g) {
										good = false
									}
								}
							}
						}
					}
				}
			}
		}
	}
	sentinelMemo[g] = good && stores == 1
	return sentinelMemo[g]
}

// resolveCallee: the repository function a call invokes: a static callee, or a closure value reached through a
// captured variable / single-assignment local (`invalid := func(...) ...; return invalid(...)`).
func resolveCallee(c *ssa.CallCommon) *ssa.Function {
	if g := c.StaticCallee(); g != nil {
		return g
	}
	return funcOfValue(c.Value, 0)
}

func funcOfValue(v ssa.Value, depth int) *ssa.Function {
	if depth > 4 {
		return nil
	}
	switch x := v.(type) {
	case *ssa.Function:
		return x
	case *ssa.MakeClosure:
		f, _ := x.Fn.(*ssa.Function)
		return f
	case *ssa.FreeVar:
		fn := x.Parent()
		par := fn.Parent()
		if par == nil {
			return nil
		}
		idx := -1
		for i, fv := range fn.FreeVars {
			if fv == x {
				idx = i
			}
		}
		for _, b := range par.Blocks {
			for _, in := range b.Instrs {
				if mc, ok := in.(*ssa.MakeClosure); ok && mc.Fn == ssa.Value(fn) && idx >= 0 && idx < len(mc.Bindings) {
					return funcOfValue(mc.Bindings[idx], depth+1)
				}
			}
		}
	case *ssa.UnOp:
		if x.Op == token.MUL {
			return funcOfValue(x.X, depth+1)
		}
	case *ssa.Alloc:
		var only ssa.Value
		n := 0
		for _, ref := range *x.Referrers() {
			if st, ok := ref.(*ssa.Store); ok && st.Addr == ssa.Value(x) {
				only = st.Val
				n++
			}
		}
		if n == 1 {
			return funcOfValue(only, depth+1)
		}
	}
	return nil
}

// alwaysFails: every return of g carries a non-nil error (g only builds errors).
func alwaysFails(g *ssa.Function, depth int) bool {
	if depth > 2 || g == nil || len(g.Blocks) == 0 {
		return false
	}
	res := g.Signature.Results()
	if res.Len() == 0 || !types.Identical(res.At(res.Len()-1).Type(), errorType) {
		return false
	}
	n := 0
	for _, b := range g.Blocks {
		ret, ok := b.Instrs[len(b.Instrs)-1].(*ssa.Return)
		if !ok {
			continue
		}
		n++
		if classifyErr(ret.Results[len(ret.Results)-1], map[ssa.Value]bool{}) != exitFailure {
			return false
		}
	}
	return n > 0
}

// neverNilHere is filled in by the caller through retGuardedNonNil (needs the return block).
func neverNilHere(v ssa.Value, _ map[ssa.Value]bool) bool { return false }

// Exit describes a return with its classification after path refinement.
type Exit struct {
	Ret  *ssa.Return
	Kind exitKind
}

// Exits lists the returns of fn; an error operand that is known non-nil on
// every path into the return (it is returned under `if err != nil`) is a failure.
func Exits(fn *ssa.Function) []Exit {
	var out []Exit
	for _, b := range fn.Blocks {
		if len(b.Instrs) == 0 {
			continue
		}
		ret, ok := b.Instrs[len(b.Instrs)-1].(*ssa.Return)
		if !ok {
			continue
		}
		k := classifyReturn(ret)
		if k == exitMaybe && len(ret.Results) > 0 {
			op := ret.Results[len(ret.Results)-1]
			if types.Identical(op.Type(), errorType) {
				// results spilled to a variable because of a defer: classify the value last stored in this block
				if sv := spilledValue(op, ret); sv != nil {
					op = sv
					k = classifyErr(op, map[ssa.Value]bool{})
				}
				if k == exitMaybe && knownNonNilAt(op, b) {
					k = exitFailure
				}
			}
		}
		out = append(out, Exit{ret, k})
	}
	return out
}

// knownNonNilAt: every path into block b passes an edge on which v != nil holds
// (b is dominated by the true edge of `v != nil` or false edge of `v == nil`).
func knownNonNilAt(v ssa.Value, b *ssa.BasicBlock) bool {
	for d := b; d != nil; d = d.Idom() {
		id := d.Idom()
		if id == nil {
			break
		}
		iff, ok := id.Instrs[len(id.Instrs)-1].(*ssa.If)
		if !ok {
			continue
		}
		bo, ok := iff.Cond.(*ssa.BinOp)
		if !ok {
			continue
		}
		var other ssa.Value
		if sameNamedValue(bo.X, v, b) {
			other = bo.Y
		} else if sameNamedValue(bo.Y, v, b) {
			other = bo.X
		} else {
			continue
		}
		if !isNilConst(other) {
			continue
		}
		// which successor is d reached through?
		if bo.Op == token.NEQ && id.Succs[0] == d && len(d.Preds) == 1 {
			return true
		}
		if bo.Op == token.EQL && id.Succs[1] == d && len(d.Preds) == 1 {
			return true
		}
	}
	return false
}

// knownNilAt: every path into block b passes an edge on which v == nil holds (the mirror of knownNonNilAt). Only pure
// SSA values are considered (a reloaded variable may have been assigned in between).
func knownNilAt(v ssa.Value, b *ssa.BasicBlock) bool {
	for d := b; d != nil; d = d.Idom() {
		id := d.Idom()
		if id == nil {
			break
		}
		iff, ok := id.Instrs[len(id.Instrs)-1].(*ssa.If)
		if !ok || len(d.Preds) != 1 || len(id.Succs) != 2 || id.Succs[0] == id.Succs[1] {
			continue
		}
		bo, ok := iff.Cond.(*ssa.BinOp)
		if !ok {
			continue
		}
		var other ssa.Value
		if bo.X == v {
			other = bo.Y
		} else if bo.Y == v {
			other = bo.X
		} else {
			continue
		}
		if !isNilConst(other) {
			continue
		}
		if bo.Op == token.EQL && id.Succs[0] == d {
			return true
		}
		if bo.Op == token.NEQ && id.Succs[1] == d {
			return true
		}
	}
	return false
}

func SuccessExits(fn *ssa.Function) []ssa.Instruction {
	var out []ssa.Instruction
	for _, e := range Exits(fn) {
		if e.Kind != exitFailure {
			out = append(out, e.Ret)
		}
	}
	return out
}

// EdgeFact: the canonical condition that holds when control takes Block→Succs[Idx]
// (having entered Block from Pred, when the condition is a φ of booleans computed in Block:
// the lowering of `c := a && b; if c` — then the fact depends on where control came from).
type EdgeFact struct {
	Block *ssa.BasicBlock
	Idx   int
	Fact  string
	Pred  *ssa.BasicBlock // nil: any predecessor
}

func (e EdgeFact) Key() edgeKey { return edgeKey{e.Block, e.Idx, e.Pred} }

const infeasible = "⊥"

var cmpRe = regexp.MustCompile(`^\((.*) (==|!=|<|<=) (.*)\)$`)

// negateFact negates a canonical comparison.
func negateFact(r *Renderer, cond ssa.Value) string {
	switch x := cond.(type) {
	case *ssa.BinOp:
		switch x.Op {
		case token.EQL, token.NEQ, token.LSS, token.LEQ, token.GTR, token.GEQ:
			return r.cmp(negOp(x.Op), x.X, x.Y)
		}
	case *ssa.UnOp:
		if x.Op == token.NOT {
			return posFact(r, x.X)
		}
	}
	return "!" + r.E(cond)
}

func posFact(r *Renderer, cond ssa.Value) string {
	if x, ok := cond.(*ssa.UnOp); ok && x.Op == token.NOT {
		return negateFact(r, x.X)
	}
	return r.E(cond)
}

// boolPhiCond: the If condition of b is a φ of booleans defined in b itself.
func boolPhiCond(b *ssa.BasicBlock) *ssa.Phi {
	if len(b.Instrs) == 0 {
		return nil
	}
	iff, ok := b.Instrs[len(b.Instrs)-1].(*ssa.If)
	if !ok {
		return nil
	}
	ph, ok := iff.Cond.(*ssa.Phi)
	if !ok || ph.Block() != b {
		return nil
	}
	return ph
}

// EdgeFacts lists both outgoing facts of every If in fn.
func (p *Prog) EdgeFacts(fn *ssa.Function) []EdgeFact {
	return p.edgeFactsWith(fn, p.R(fn))
}

func (p *Prog) edgeFactsWith(fn *ssa.Function, r *Renderer) []EdgeFact {
	var out []EdgeFact
	for _, b := range fn.Blocks {
		if len(b.Instrs) == 0 {
			continue
		}
		iff, ok := b.Instrs[len(b.Instrs)-1].(*ssa.If)
		if !ok {
			continue
		}
		if ph := boolPhiCond(b); ph != nil {
			for k, e := range ph.Edges {
				pred := b.Preds[k]
				if c, ok := e.(*ssa.Const); ok && c.Value != nil {
					// coming from pred the condition is a constant: one successor is infeasible
					if c.Value.String() == "true" {
						out = append(out, EdgeFact{b, 1, infeasible, pred})
					} else {
						out = append(out, EdgeFact{b, 0, infeasible, pred})
					}
					continue
				}
				out = append(out, EdgeFact{b, 0, posFact(r, e), pred}, EdgeFact{b, 1, negateFact(r, e), pred})
			}
			// the φ as a whole is also a fact (for rules that name the combined condition)
			out = append(out, EdgeFact{b, 0, posFact(r, iff.Cond), nil}, EdgeFact{b, 1, negateFact(r, iff.Cond), nil})
			continue
		}
		out = append(out, EdgeFact{b, 0, posFact(r, iff.Cond), nil}, EdgeFact{b, 1, negateFact(r, iff.Cond), nil})
	}
	return out
}

type edgeKey struct {
	b    *ssa.BasicBlock
	i    int
	pred *ssa.BasicBlock
}

// PathSearch finds a path from `from` (nil: function entry) to any target
// instruction that avoids the forbidden edges and instructions. It returns the
// list of (block) steps of the witness path, or nil when no such path exists.
type PathSearch struct {
	Fn            *ssa.Function
	AvoidEdges    map[edgeKey]bool
	AvoidInstr    func(ssa.Instruction) bool
	From          ssa.Instruction // start right after this instruction; nil = entry
	IsTarget      func(ssa.Instruction) bool
	NoRecoverEdge bool
	AvoidEntry    map[entryKey]bool // forbidden transitions pred → block
	// KeepFailureEntries: also follow transitions into a return block that carry a failure value
	KeepFailureEntries bool
	// InitState: flag values known at the start of the search
	InitState boolState
}

type pathStep struct {
	b    *ssa.BasicBlock
	from *ssa.BasicBlock // predecessor we came from (only kept for blocks branching on a boolean φ)
	prev *pathStep
}

type visitKey struct{ b, from *ssa.BasicBlock }

// infeasibleEdges: (pred, block, succ) triples excluded because the branch condition is a constant on that path.
func infeasibleEdges(fn *ssa.Function) map[edgeKey]bool {
	m := map[edgeKey]bool{}
	for _, b := range fn.Blocks {
		// a nil test of an error that is a failure construct (or is known non-nil here, or is the nil constant):
		// one successor is never taken, whatever the predecessor
		if i := staticNilBranch(b); i >= 0 {
			m[edgeKey{b, i, nil}] = true
		}
		// … and so is a branch whose other outcome is established by a dominating branch on the same (stable) values
		if p := progOf[fn.Prog]; p != nil {
			if i := p.R(fn).contradictedEdge(b); i >= 0 {
				m[edgeKey{b, i, nil}] = true
			}
		}
		ph := boolPhiCond(b)
		if ph == nil {
			continue
		}
		for k, e := range ph.Edges {
			if c, ok := e.(*ssa.Const); ok && c.Value != nil {
				if c.Value.String() == "true" {
					m[edgeKey{b, 1, b.Preds[k]}] = true
				} else {
					m[edgeKey{b, 0, b.Preds[k]}] = true
				}
			}
		}
	}
	return m
}

// staticNilBranch: block b ends in `if v == nil` / `if v != nil` on an error value whose nilness is known at b;
// returns the index of the successor that cannot be taken, or -1.
func staticNilBranch(b *ssa.BasicBlock) int {
	if len(b.Instrs) == 0 {
		return -1
	}
	iff, ok := b.Instrs[len(b.Instrs)-1].(*ssa.If)
	if !ok {
		return -1
	}
	cond := iff.Cond
	neg := false
	for {
		if u, ok := cond.(*ssa.UnOp); ok && u.Op == token.NOT {
			cond, neg = u.X, !neg
			continue
		}
		break
	}
	bo, ok := cond.(*ssa.BinOp)
	if !ok || (bo.Op != token.EQL && bo.Op != token.NEQ) {
		return -1
	}
	var v ssa.Value
	switch {
	case isNilConst(bo.Y):
		v = bo.X
	case isNilConst(bo.X):
		v = bo.Y
	default:
		return -1
	}
	if !types.Identical(v.Type(), errorType) {
		return -1
	}
	isNil, known := false, false
	switch {
	case isNilConst(v):
		isNil, known = true, true
	case classifyErr(v, map[ssa.Value]bool{}) == exitFailure || knownNonNilAt(v, b):
		isNil, known = false, true
	}
	if !known {
		return -1
	}
	// value of the condition
	val := (bo.Op == token.EQL) == isNil
	if neg {
		val = !val
	}
	if val {
		return 1
	}
	return 0
}

// entryKey is a transition pred → block.
type entryKey struct{ pred, b *ssa.BasicBlock }

// failureEntries: transitions into a return block on which the returned error / bool φ carries a
// known failure value (a non-nil error construct, the constant false): such a transition is never
// part of a path to a success exit. (`return a && b` is lowered to a φ{false, b} in the return block.)
func failureEntries(fn *ssa.Function) map[entryKey]bool {
	m := map[entryKey]bool{}
	for _, b := range fn.Blocks {
		if len(b.Instrs) == 0 {
			continue
		}
		ret, ok := b.Instrs[len(b.Instrs)-1].(*ssa.Return)
		if !ok || len(ret.Results) == 0 {
			continue
		}
		ph, ok := ret.Results[len(ret.Results)-1].(*ssa.Phi)
		if !ok || ph.Block() != b {
			continue
		}
		isErr := types.Identical(ph.Type(), errorType)
		bt, isB := ph.Type().Underlying().(*types.Basic)
		isBool := isB && bt.Kind() == types.Bool
		for k, e := range ph.Edges {
			switch {
			case isErr:
				if classifyErr(e, map[ssa.Value]bool{}) == exitFailure {
					m[entryKey{b.Preds[k], b}] = true
				}
			case isBool:
				if c, ok := e.(*ssa.Const); ok && c.Value != nil && c.Value.String() == "false" {
					m[entryKey{b.Preds[k], b}] = true
				}
			}
		}
	}
	return m
}

// boolState: the known values of the tracked boolean φ-nodes (flags assigned constants on some
// paths, e.g. `allowed := false; switch mode { case A: allowed = true }`), keyed by φ.
type boolState map[ssa.Value]bool

func (st boolState) key(order []ssa.Value) string {
	b := make([]byte, len(order))
	for i, ph := range order {
		v, ok := st[ph]
		switch {
		case !ok:
			b[i] = '?'
		case v:
			b[i] = 'T'
		default:
			b[i] = 'F'
		}
	}
	return string(b)
}

// trackedBoolPhis: the boolean φ-nodes of fn (flags).
func trackedBoolPhis(fn *ssa.Function) []*ssa.Phi {
	var out []*ssa.Phi
	for _, b := range fn.Blocks {
		for _, in := range b.Instrs {
			ph, ok := in.(*ssa.Phi)
			if !ok {
				break
			}
			bt, isB := ph.Type().Underlying().(*types.Basic)
			if !isB || bt.Kind() != types.Bool || len(out) >= 16 {
				continue
			}
			out = append(out, ph)
		}
	}
	return out
}

// trackedBoolValues: the boolean φ-nodes of fn plus the other boolean values that decide more than one branch
// (`off := len(q) > 0; if off {…}; if off || on {…}`) or decide a branch and also flow into a flag: an SSA value
// computed once has the same value at every test until its defining instruction runs again.
func trackedBoolValues(fn *ssa.Function) ([]ssa.Value, map[ssa.Value]bool) {
	var out []ssa.Value
	set := map[ssa.Value]bool{}
	for _, ph := range trackedBoolPhis(fn) {
		out = append(out, ph)
		set[ph] = true
	}
	uses := map[ssa.Value]int{}
	var order []ssa.Value
	note := func(v ssa.Value) {
		for {
			if u, ok := v.(*ssa.UnOp); ok && u.Op == token.NOT {
				v = u.X
				continue
			}
			break
		}
		switch v.(type) {
		case *ssa.Phi, *ssa.Const:
			return
		}
		if bt, isB := v.Type().Underlying().(*types.Basic); !isB || bt.Kind() != types.Bool {
			return
		}
		if uses[v] == 0 {
			order = append(order, v)
		}
		uses[v]++
	}
	for _, b := range fn.Blocks {
		if len(b.Instrs) == 0 {
			continue
		}
		if iff, ok := b.Instrs[len(b.Instrs)-1].(*ssa.If); ok {
			note(iff.Cond)
		}
		for _, in := range b.Instrs {
			ph, ok := in.(*ssa.Phi)
			if !ok {
				break
			}
			if set[ph] {
				for _, e := range ph.Edges {
					note(e)
				}
			}
		}
	}
	n := 0
	for _, v := range order {
		if uses[v] >= 2 && n < 8 {
			out = append(out, v)
			set[v] = true
			n++
		}
	}
	return out, set
}

// dominatingFlagValues: flags whose value is fixed at block b because b is dominated by one
// side of a branch on the flag (that side's block has the branch block as its only predecessor).
func dominatingFlagValues(b *ssa.BasicBlock) boolState {
	out := boolState{}
	for d := b; d != nil; d = d.Idom() {
		id := d.Idom()
		if id == nil {
			break
		}
		iff, ok := id.Instrs[len(id.Instrs)-1].(*ssa.If)
		if !ok || len(d.Preds) != 1 || d.Preds[0] != id || id.Succs[0] == id.Succs[1] {
			continue
		}
		c := iff.Cond
		neg := false
		for {
			if u, ok := c.(*ssa.UnOp); ok && u.Op == token.NOT {
				c, neg = u.X, !neg
				continue
			}
			break
		}
		if ph, ok := c.(*ssa.Phi); ok && ph.Block() == id {
			continue
		}
		if _, isC := c.(*ssa.Const); isC {
			continue
		}
		if _, dup := out[c]; dup {
			continue
		}
		out[c] = (id.Succs[0] == d) != neg
	}
	return out
}

// Reached is one way a search reached a target: the instruction, the path and the flag state there.
type Reached struct {
	Instr ssa.Instruction
	Path  []*ssa.BasicBlock
	State boolState
}

// Find returns (target instruction, path blocks) or (nil, nil).
func (s *PathSearch) Find() (ssa.Instruction, []*ssa.BasicBlock) {
	r := s.search(true)
	if len(r) == 0 {
		return nil, nil
	}
	return r[0].Instr, r[0].Path
}

// FindAll returns every distinct (target, flag state) the search can reach.
func (s *PathSearch) FindAll() []Reached { return s.search(false) }

// search is a breadth-first search over (block, predecessor, flag state). The flag state makes the
// search path-sensitive for boolean variables that are assigned constants: entering a φ's block
// from a predecessor whose incoming value is a constant fixes the flag, and a later branch on the
// flag (or its negation) is followed only in the feasible direction.
func (s *PathSearch) search(firstOnly bool) []Reached {
	if len(s.Fn.Blocks) == 0 {
		return nil
	}
	infeas := infeasibleEdges(s.Fn)
	failIn := failureEntries(s.Fn)
	tracked, isTracked := trackedBoolValues(s.Fn)
	phisOf := map[*ssa.BasicBlock][]*ssa.Phi{}
	defsOf := map[*ssa.BasicBlock][]ssa.Value{} // tracked non-φ values computed in the block: unknown again on entry
	for _, tv := range tracked {
		if ph, ok := tv.(*ssa.Phi); ok {
			phisOf[ph.Block()] = append(phisOf[ph.Block()], ph)
		} else if in, ok := tv.(ssa.Instruction); ok {
			defsOf[in.Block()] = append(defsOf[in.Block()], tv)
		}
	}
	scan := func(b *ssa.BasicBlock, start int) (ssa.Instruction, bool) {
		for i := start; i < len(b.Instrs); i++ {
			in := b.Instrs[i]
			if s.IsTarget(in) {
				return in, false
			}
			if s.AvoidInstr != nil && s.AvoidInstr(in) {
				return nil, true
			}
		}
		return nil, false
	}
	type step struct {
		b    *ssa.BasicBlock
		from *ssa.BasicBlock
		st   boolState
		cst  map[*ssa.Phi]int // constant-valued flags: index of the constant the variable holds
		prev *step
	}
	// variables that only ever hold one of a few constants (`action := ""; … action = "Lock"`): flags with several values
	var cflags []*ssa.Phi
	cvals := map[*ssa.Phi][]constant.Value{}
	cphisOf := map[*ssa.BasicBlock][]*ssa.Phi{}
	for _, b := range s.Fn.Blocks {
		for _, in := range b.Instrs {
			ph, ok := in.(*ssa.Phi)
			if !ok {
				break
			}
			if vals := constFlagValues(ph); vals != nil && len(cflags) < 8 {
				cflags = append(cflags, ph)
				cvals[ph] = vals
				cphisOf[b] = append(cphisOf[b], ph)
			}
		}
	}
	ckey := func(m map[*ssa.Phi]int) string {
		if len(cflags) == 0 {
			return ""
		}
		bs := make([]byte, len(cflags))
		for i, ph := range cflags {
			if v, ok := m[ph]; ok {
				bs[i] = byte('a' + v)
			} else {
				bs[i] = '?'
			}
		}
		return "|" + string(bs)
	}
	cindex := func(ph *ssa.Phi, c *ssa.Const) int {
		for i, v := range cvals[ph] {
			if c.Value != nil && constant.Compare(v, token.EQL, c.Value) {
				return i
			}
		}
		return -1
	}
	// a branch that compares a constant-valued flag with a constant: (flag, index of the constant, condition true means equal)
	cflagOfCond := func(c ssa.Value) (*ssa.Phi, int, bool) {
		eq := true
		for {
			if u, ok := c.(*ssa.UnOp); ok && u.Op == token.NOT {
				c, eq = u.X, !eq
				continue
			}
			break
		}
		bo, ok := c.(*ssa.BinOp)
		if !ok || (bo.Op != token.EQL && bo.Op != token.NEQ) {
			return nil, 0, false
		}
		if bo.Op == token.NEQ {
			eq = !eq
		}
		x, y := bo.X, bo.Y
		if _, isC := x.(*ssa.Const); isC {
			x, y = y, x
		}
		ph, isPh := x.(*ssa.Phi)
		k, isC := y.(*ssa.Const)
		if !isPh || !isC || cvals[ph] == nil {
			return nil, 0, false
		}
		return ph, cindex(ph, k), eq
	}
	type vkey struct {
		b, from *ssa.BasicBlock
		st      string
	}
	pathOf := func(x *step) []*ssa.BasicBlock {
		var path []*ssa.BasicBlock
		for ; x != nil; x = x.prev {
			path = append([]*ssa.BasicBlock{x.b}, path...)
		}
		return path
	}
	var out []Reached
	seenOut := map[string]bool{}
	emit := func(t ssa.Instruction, x *step) {
		k := fmt.Sprintf("%p|%s", t, x.st.key(tracked))
		if !seenOut[k] {
			seenOut[k] = true
			out = append(out, Reached{t, pathOf(x), x.st})
		}
	}
	visited := map[vkey]bool{}
	var queue []*step
	startBlock := s.Fn.Blocks[0]
	startIdx := 0
	if s.From != nil {
		startBlock = s.From.Block()
		startIdx = instrIndex(s.From) + 1
	}
	init := boolState{}
	if s.From != nil {
		// flags decided by the branches that dominate the start
		for k, v := range dominatingFlagValues(startBlock) {
			if isTracked[k] {
				init[k] = v
			}
		}
	}
	for k, v := range s.InitState {
		init[k] = v
	}
	first := &step{b: startBlock, st: init}
	if t, blocked := scan(startBlock, startIdx); t != nil {
		emit(t, first)
		if firstOnly {
			return out
		}
	} else if !blocked {
		queue = append(queue, first)
	}
	if s.From == nil {
		visited[vkey{startBlock, nil, init.key(tracked)}] = true
	}
	// the flag a branch condition tests: (flag, negated)
	condFlag := func(c ssa.Value, at *ssa.BasicBlock) (ssa.Value, bool) {
		neg := false
		for {
			if u, ok := c.(*ssa.UnOp); ok && u.Op == token.NOT {
				c, neg = u.X, !neg
				continue
			}
			break
		}
		if !isTracked[c] {
			return nil, neg
		}
		if ph, ok := c.(*ssa.Phi); ok && ph.Block() == at {
			return nil, neg
		}
		return c, neg
	}
	// value of a branch condition under the flag state: (value, known)
	condVal := func(c ssa.Value, st boolState) (bool, bool) {
		neg := false
		for {
			if u, ok := c.(*ssa.UnOp); ok && u.Op == token.NOT {
				c, neg = u.X, !neg
				continue
			}
			break
		}
		if v, known := st[c]; known {
			return v != neg, true
		}
		return false, false
	}
	for len(queue) > 0 {
		cur := queue[0]
		queue = queue[1:]
		var cv, cknown bool
		if iff, ok := cur.b.Instrs[len(cur.b.Instrs)-1].(*ssa.If); ok {
			cv, cknown = condVal(iff.Cond, cur.st)
		}
		for i, succ := range cur.b.Succs {
			if s.AvoidEdges[edgeKey{cur.b, i, nil}] || infeas[edgeKey{cur.b, i, nil}] {
				continue
			}
			if cur.from != nil && (s.AvoidEdges[edgeKey{cur.b, i, cur.from}] || infeas[edgeKey{cur.b, i, cur.from}]) {
				continue
			}
			if cknown && len(cur.b.Succs) == 2 && ((cv && i == 1) || (!cv && i == 0)) {
				continue // the flag decides this branch the other way
			}
			if (failIn[entryKey{cur.b, succ}] && !s.KeepFailureEntries) || (s.AvoidEntry != nil && s.AvoidEntry[entryKey{cur.b, succ}]) {
				continue
			}
			st := cur.st
			// taking a branch on a flag whose value was unknown fixes it from here on
			if iff, ok := cur.b.Instrs[len(cur.b.Instrs)-1].(*ssa.If); ok && !cknown && len(cur.b.Succs) == 2 {
				if fv, neg := condFlag(iff.Cond, cur.b); fv != nil {
					st = boolState{}
					for k, v := range cur.st {
						st[k] = v
					}
					st[fv] = (i == 0) != neg
				}
			}
			if phs, defs := phisOf[succ], defsOf[succ]; len(phs) > 0 || len(defs) > 0 {
				base := st
				st = boolState{}
				for k, v := range base {
					st[k] = v
				}
				for _, d := range defs {
					delete(st, d)
				}
				for _, ph := range phs {
					delete(st, ph)
					for k, p := range succ.Preds {
						if p != cur.b {
							continue
						}
						switch e := ph.Edges[k].(type) {
						case *ssa.Const:
							if e.Value != nil {
								st[ph] = e.Value.String() == "true"
							}
						default:
							neg := false
							ev := ph.Edges[k]
							for {
								if u, ok := ev.(*ssa.UnOp); ok && u.Op == token.NOT {
									ev, neg = u.X, !neg
									continue
								}
								break
							}
							if v, known := base[ev]; known && isTracked[ev] {
								st[ph] = v != neg
							}
							_ = e
						}
						break
					}
				}
			}
			var from *ssa.BasicBlock
			if boolPhiCond(succ) != nil {
				from = cur.b
			}
			// constant-valued flags: a branch on one is taken only the way its value allows, and assigns it when unknown
			cst := cur.cst
			if iff, ok := cur.b.Instrs[len(cur.b.Instrs)-1].(*ssa.If); ok && len(cur.b.Succs) == 2 && len(cflags) > 0 {
				if cph, idx, eq := cflagOfCond(iff.Cond); cph != nil {
					takenEq := (i == 0) == eq
					if v, known := cur.cst[cph]; known {
						if (v == idx) != takenEq {
							continue
						}
					} else if takenEq {
						if idx < 0 {
							continue
						}
						cst = map[*ssa.Phi]int{}
						for k, v := range cur.cst {
							cst[k] = v
						}
						cst[cph] = idx
					}
				}
			}
			if cphs := cphisOf[succ]; len(cphs) > 0 {
				base := cst
				cst = map[*ssa.Phi]int{}
				for k, v := range base {
					cst[k] = v
				}
				for _, ph := range cphs {
					delete(cst, ph)
					for k, p := range succ.Preds {
						if p != cur.b {
							continue
						}
						switch e := ph.Edges[k].(type) {
						case *ssa.Const:
							if idx := cindex(ph, e); idx >= 0 {
								cst[ph] = idx
							}
						case *ssa.Phi:
							if v, known := base[e]; known && cvals[e] != nil {
								for j, cv := range cvals[ph] {
									if constant.Compare(cv, token.EQL, cvals[e][v]) {
										cst[ph] = j
									}
								}
							}
						}
						break
					}
				}
			}
			vk := vkey{succ, from, st.key(tracked) + ckey(cst)}
			if visited[vk] {
				continue
			}
			visited[vk] = true
			nx := &step{b: succ, from: from, st: st, cst: cst, prev: cur}
			t, blocked := scan(succ, 0)
			if t != nil {
				emit(t, nx)
				if firstOnly {
					return out
				}
				continue
			}
			if !blocked {
				queue = append(queue, nx)
			}
		}
	}
	return out
}

func instrSet(ins []ssa.Instruction) func(ssa.Instruction) bool {
	m := map[ssa.Instruction]bool{}
	for _, i := range ins {
		m[i] = true
	}
	return func(i ssa.Instruction) bool { return m[i] }
}

// MatchEdges returns the edges whose fact matches re — directly, or because the edge is the
// success edge of a call to a repository helper in which every success exit establishes the
// fact (the helper's facts are rewritten into the caller's terms: $i ↦ the i-th argument).
func (p *Prog) MatchEdges(fn *ssa.Function, re *regexp.Regexp) []EdgeFact {
	return p.matchEdgesDepth(fn, re, 2)
}

func (p *Prog) matchEdgesDepth(fn *ssa.Function, re *regexp.Regexp, depth int) []EdgeFact {
	var out []EdgeFact
	for _, ef := range p.EdgeFacts(fn) {
		if ef.Fact == infeasible {
			continue
		}
		if re.MatchString(ef.Fact) {
			out = append(out, ef)
			continue
		}
		if depth > 0 && ef.Pred == nil {
			if v := p.successCallOfEdge(ef); v != nil && p.callImplies(fn, v, re, depth) {
				out = append(out, ef)
			} else if c2, k2 := sentinelOfEdge(ef); c2 != nil && p.callImpliesRK(fn, p.R(fn), c2, re, depth, k2) {
				out = append(out, ef)
			} else if v := p.falseCallOfEdge(ef); v != nil && p.callImpliesPol(fn, v, re, depth, false) {
				out = append(out, ef)
			}
		}
	}
	return out
}

// successCallOfEdge: the edge is taken exactly when a call succeeded (err == nil / bool true); returns the tested value.
func (p *Prog) successCallOfEdge(ef EdgeFact) ssa.Value {
	iff, ok := ef.Block.Instrs[len(ef.Block.Instrs)-1].(*ssa.If)
	if !ok {
		return nil
	}
	cond := iff.Cond
	taken := ef.Idx == 0
	for {
		if u, ok := cond.(*ssa.UnOp); ok && u.Op == token.NOT {
			cond, taken = u.X, !taken
			continue
		}
		break
	}
	switch x := cond.(type) {
	case *ssa.BinOp:
		var v ssa.Value
		if isNilConst(x.Y) {
			v = x.X
		} else if isNilConst(x.X) {
			v = x.Y
		} else {
			return nil
		}
		if !types.Identical(v.Type(), errorType) {
			return nil
		}
		if (x.Op == token.EQL && taken) || (x.Op == token.NEQ && !taken) {
			return v
		}
	case *ssa.Call:
		if taken {
			return x
		}
	}
	return nil
}

// falseCallOfEdge: the edge is taken exactly when a bool-returning call answered false.
func (p *Prog) falseCallOfEdge(ef EdgeFact) ssa.Value {
	iff, ok := ef.Block.Instrs[len(ef.Block.Instrs)-1].(*ssa.If)
	if !ok {
		return nil
	}
	cond := iff.Cond
	taken := ef.Idx == 0
	for {
		if u, ok := cond.(*ssa.UnOp); ok && u.Op == token.NOT {
			cond, taken = u.X, !taken
			continue
		}
		break
	}
	if x, ok := cond.(*ssa.Call); ok && !taken {
		return x
	}
	return nil
}

// callImplies: v is the error (or bool) result of a call to a repository function g; does
// every success exit of g establish a fact that, rewritten into the caller's terms, matches re?
func (p *Prog) callImplies(fn *ssa.Function, v ssa.Value, re *regexp.Regexp, depth int) bool {
	return p.callImpliesPol(fn, v, re, depth, true)
}

// callImpliesPol with want == false: does every exit of the bool function g that can return
// false establish the fact (an edge fact on the way, or the negation of the returned expression)?
func (p *Prog) callImpliesPol(fn *ssa.Function, v ssa.Value, re *regexp.Regexp, depth int, want bool) bool {
	if !want {
		return p.callImpliesFalse(fn, v, re, depth)
	}
	return p.callImpliesR(fn, p.R(fn), v, re, depth)
}

// callImpliesR: like callImplies, with the arguments of the call rendered by r (fn itself, or fn seen as a helper
// in its caller's terms — so that facts of helpers nested in helpers arrive in the outermost caller's terms).
func (p *Prog) callImpliesR(fn *ssa.Function, r *Renderer, v ssa.Value, re *regexp.Regexp, depth int) bool {
	return p.callImpliesRK(fn, r, v, re, depth, nil)
}

// sentinelOfCond: the condition compares the integer result of a call with a constant (`find(x) != -1`,
// `find(x) >= 0`, …); with the condition's outcome `taken` the call returned through an exit that `keep` accepts
// (the exits returning a constant the comparison rules out are the others). Nil when the condition has another form.
func sentinelOfCond(cond ssa.Value, taken bool) (*ssa.Call, func(*ssa.Return) bool) {
	for {
		if u, ok := cond.(*ssa.UnOp); ok && u.Op == token.NOT {
			cond, taken = u.X, !taken
			continue
		}
		break
	}
	b, ok := cond.(*ssa.BinOp)
	if !ok {
		return nil, nil
	}
	op, x, y := b.Op, b.X, b.Y
	if _, isC := x.(*ssa.Const); isC {
		x, y = y, x
		switch op {
		case token.LSS:
			op = token.GTR
		case token.GTR:
			op = token.LSS
		case token.LEQ:
			op = token.GEQ
		case token.GEQ:
			op = token.LEQ
		}
	}
	call, _ := x.(*ssa.Call)
	c, _ := y.(*ssa.Const)
	if call == nil || c == nil || c.Value == nil || c.Value.Kind() != constant.Int {
		return nil, nil
	}
	if bt, isB := call.Type().Underlying().(*types.Basic); !isB || bt.Info()&types.IsInteger == 0 {
		return nil, nil
	}
	if !taken {
		switch op {
		case token.EQL:
			op = token.NEQ
		case token.NEQ:
			op = token.EQL
		case token.LSS:
			op = token.GEQ
		case token.GEQ:
			op = token.LSS
		case token.GTR:
			op = token.LEQ
		case token.LEQ:
			op = token.GTR
		}
	}
	return call, func(ret *ssa.Return) bool {
		if len(ret.Results) != 1 {
			return true
		}
		rc, isC := ret.Results[0].(*ssa.Const)
		if !isC || rc.Value == nil || rc.Value.Kind() != constant.Int {
			return true
		}
		return constant.Compare(rc.Value, op, c.Value)
	}
}

// sentinelOfEdge: the edge is taken exactly when sentinelOfCond's comparison has the outcome of the edge.
func sentinelOfEdge(ef EdgeFact) (*ssa.Call, func(*ssa.Return) bool) {
	if ef.Pred != nil {
		return nil, nil
	}
	iff, ok := ef.Block.Instrs[len(ef.Block.Instrs)-1].(*ssa.If)
	if !ok {
		return nil, nil
	}
	return sentinelOfCond(iff.Cond, ef.Idx == 0)
}

// callImpliesRK: callImpliesR over the exits of the callee that keep accepts (nil: all of them).
func (p *Prog) callImpliesRK(fn *ssa.Function, r *Renderer, v ssa.Value, re *regexp.Regexp, depth int, keep func(*ssa.Return) bool) bool {
	if depth <= 0 {
		return false
	}
	var call *ssa.Call
	switch x := v.(type) {
	case *ssa.Call:
		call = x
	case *ssa.Extract:
		call, _ = x.Tuple.(*ssa.Call)
	}
	if call == nil {
		return false
	}
	g := resolveCallee(&call.Call)
	if g == nil || g.Blocks == nil || !isProdPkgFn(g) || g == fn {
		return false
	}
	bind, fix0 := p.bindArgsR(fn, r, call)
	fix := fix0
	if g.Parent() == fn {
		// a local closure: its captured variables ("^x") are the enclosing function's own values
		fix = func(s string) string { return strings.ReplaceAll(fix0(s), "^", "") }
	}
	gr := p.RBound(g, bind, 1)
	subst := fix
	avoid := map[edgeKey]bool{}
	// what the caller knows about dynamic types at the call makes some branches of the callee infeasible
	if r == p.R(fn) {
		for k := range p.infeasibleUnder(p.typeAssumptionsAt(fn, call), g, gr, fix) {
			avoid[k] = true
		}
	}
	n := 0
	for _, ef := range p.edgeFactsWith(g, gr) {
		if ef.Fact == infeasible {
			continue
		}
		if re.MatchString(fix(ef.Fact)) {
			avoid[ef.Key()] = true
			n++
			continue
		}
		// the success edge of a nested helper call that itself establishes the fact
		if depth > 1 && ef.Pred == nil {
			if v2 := p.successCallOfEdge(ef); v2 != nil && p.callImpliesR(g, gr, v2, re, depth-1) {
				avoid[ef.Key()] = true
				n++
			} else if c2, k2 := sentinelOfEdge(ef); c2 != nil && p.callImpliesRK(g, gr, c2, re, depth-1, k2) {
				avoid[ef.Key()] = true
				n++
			}
		}
	}
	// exits of g that return a call directly
	var targets []ssa.Instruction
	for _, e := range Exits(g) {
		if e.Kind == exitFailure || (keep != nil && !keep(e.Ret)) {
			continue
		}
		if e.Kind == exitMaybe && len(e.Ret.Results) > 0 {
			op := e.Ret.Results[len(e.Ret.Results)-1]
			if sv := spilledValue(op, e.Ret); sv != nil {
				op = sv
			}
			// the returned comparison of a search result with its not-found sentinel
			if c2, k2 := sentinelOfCond(op, true); c2 != nil && depth > 1 && p.callImpliesRK(g, gr, c2, re, depth-1, k2) {
				n++
				continue
			}
			f := ""
			if types.Identical(op.Type(), errorType) {
				f = EQ(gr.E(op), "nil")
			} else {
				f = posFact(gr, op)
			}
			if re.MatchString(subst(f)) {
				n++
				continue
			}
		}
		targets = append(targets, e.Ret)
	}
	// a returned φ: the entries whose value establishes the fact when true / nil
	avoidEntry := map[entryKey]bool{}
	for _, e := range Exits(g) {
		if len(e.Ret.Results) == 0 {
			continue
		}
		ph, ok := e.Ret.Results[len(e.Ret.Results)-1].(*ssa.Phi)
		if !ok || ph.Block() != e.Ret.Block() {
			continue
		}
		for k, ev := range ph.Edges {
			if _, isC := ev.(*ssa.Const); isC {
				continue
			}
			f := ""
			if types.Identical(ev.Type(), errorType) {
				f = EQ(gr.E(ev), "nil")
			} else if bt, isB := ev.Type().Underlying().(*types.Basic); isB && bt.Kind() == types.Bool {
				f = posFact(gr, ev)
			}
			if f != "" && re.MatchString(fix(f)) {
				avoidEntry[entryKey{ph.Block().Preds[k], ph.Block()}] = true
				n++
			}
		}
	}
	if n == 0 {
		return false
	}
	t, _ := (&PathSearch{Fn: g, AvoidEdges: avoid, AvoidEntry: avoidEntry, IsTarget: instrSet(targets)}).Find()
	return t == nil
}

func (p *Prog) callImpliesFalse(fn *ssa.Function, v ssa.Value, re *regexp.Regexp, depth int) bool {
	call, _ := v.(*ssa.Call)
	if call == nil || depth <= 0 {
		return false
	}
	g := call.Call.StaticCallee()
	if g == nil || g.Blocks == nil || !isProdPkgFn(g) || g == fn {
		return false
	}
	res := g.Signature.Results()
	if res.Len() != 1 {
		return false
	}
	if bt, ok := res.At(0).Type().Underlying().(*types.Basic); !ok || bt.Kind() != types.Bool {
		return false
	}
	bind, fix := p.bindArgs(fn, call)
	gr := p.RBound(g, bind, 1)
	avoid := map[edgeKey]bool{}
	n := 0
	for _, ef := range p.edgeFactsWith(g, gr) {
		if ef.Fact != infeasible && re.MatchString(fix(ef.Fact)) {
			avoid[ef.Key()] = true
			n++
		}
	}
	isConstBool := func(x ssa.Value, val string) bool {
		c, ok := x.(*ssa.Const)
		return ok && c.Value != nil && c.Value.String() == val
	}
	avoidEntry := map[entryKey]bool{}
	var targets []ssa.Instruction
	for _, b := range g.Blocks {
		ret, ok := b.Instrs[len(b.Instrs)-1].(*ssa.Return)
		if !ok || len(ret.Results) != 1 {
			continue
		}
		op := ret.Results[0]
		if ph, isPhi := op.(*ssa.Phi); isPhi && ph.Block() == b {
			for k, ev := range ph.Edges {
				switch {
				case isConstBool(ev, "true"):
					avoidEntry[entryKey{b.Preds[k], b}] = true
				case isConstBool(ev, "false"):
				default:
					if re.MatchString(fix(negateFact(gr, ev))) {
						avoidEntry[entryKey{b.Preds[k], b}] = true
						n++
					}
				}
			}
			targets = append(targets, ret)
			continue
		}
		switch {
		case isConstBool(op, "true"):
		case isConstBool(op, "false"):
			targets = append(targets, ret)
		default:
			if re.MatchString(fix(negateFact(gr, op))) {
				n++
			} else {
				targets = append(targets, ret)
			}
		}
	}
	if n == 0 {
		return false
	}
	t, _ := (&PathSearch{Fn: g, AvoidEdges: avoid, AvoidEntry: avoidEntry, KeepFailureEntries: true, IsTarget: instrSet(targets)}).Find()
	return t == nil
}

// callImpliesSubst: nested helper calls (facts of the inner helper are rewritten twice).
func (p *Prog) callImpliesSubst(fn *ssa.Function, v ssa.Value, re *regexp.Regexp, depth int, outer func(string) string) bool {
	if depth <= 0 {
		return false
	}
	// wrap the pattern test: inner facts are first rewritten into fn's terms by callImplies, then into the outer caller's
	wrapped := &substRegexp{re: re, f: outer}
	_ = wrapped
	return false
}

type substRegexp struct {
	re *regexp.Regexp
	f  func(string) string
}

// describePath renders a witness path as file:line steps.
func (p *Prog) describePath(path []*ssa.BasicBlock) []string {
	var out []string
	for _, b := range path {
		pos := "-"
		for _, in := range b.Instrs {
			if in.Pos().IsValid() {
				pos = p.Pos(in.Pos())
				break
			}
		}
		out = append(out, "b"+itoa(b.Index)+"("+b.Comment+")@"+pos)
	}
	return out
}

func itoa(i int) string { return strconv.Itoa(i) }

// callsIn lists call instructions (Call, Defer, Go) of fn in block order.
func callsIn(fn *ssa.Function) []ssa.CallInstruction {
	var out []ssa.CallInstruction
	for _, b := range fn.Blocks {
		for _, in := range b.Instrs {
			if c, ok := in.(ssa.CallInstruction); ok {
				out = append(out, c)
			}
		}
	}
	return out
}

// spilledValue: op is a load of a result variable (defer-spilled return); return
// the value stored to that variable last in the return's block, if any.
func spilledValue(op ssa.Value, ret *ssa.Return) ssa.Value {
	u, ok := op.(*ssa.UnOp)
	if !ok || u.Op != token.MUL {
		return nil
	}
	a, ok := u.X.(*ssa.Alloc)
	if !ok {
		return nil
	}
	b := ret.Block()
	var last ssa.Value
	for _, in := range b.Instrs {
		if st, ok := in.(*ssa.Store); ok && st.Addr == a {
			last = st.Val
		}
	}
	return last
}


// sameNamedValue: x and v are the same SSA value, or two loads of the same local variable (a named result, a
// variable captured by a deferred closure) with no store to it in the block where v is used before that use.
func sameNamedValue(x, v ssa.Value, useBlock *ssa.BasicBlock) bool {
	if x == v {
		return true
	}
	lx, ok1 := x.(*ssa.UnOp)
	lv, ok2 := v.(*ssa.UnOp)
	if !ok1 || !ok2 || lx.Op != token.MUL || lv.Op != token.MUL || lx.X != lv.X {
		return false
	}
	if _, isAlloc := lx.X.(*ssa.Alloc); !isAlloc {
		return false
	}
	for _, in := range useBlock.Instrs {
		if in == ssa.Instruction(lv) {
			break
		}
		if st, ok := in.(*ssa.Store); ok && st.Addr == lx.X {
			return false
		}
	}
	// the use block must be entered straight from the test (no other definition can intervene on the way)
	return lv.Block() == useBlock
}
