#!/usr/bin/env python3
"""Regenerates /verif/MANIFEST.json from the table below (claimed checks) and properties.jsonl."""
import json, os

HERE = os.path.dirname(os.path.abspath(__file__))
props = [json.loads(l) for l in open(os.path.join(HERE, "properties.jsonl"))]

TRUST = ("Trusted: cosmos-sdk v0.50 baseapp (panic recovery, rollback on error), CometBFT v0.38, collections key order, "
         "blst/btcd/goat-geth/bitmap libraries, go/types + go/ssa (x/tools v0.29.0). Decides structural necessary conditions "
         "only; the behavioural property over all inputs/histories is NOT decided.")

# id -> (technique, what is decided, what is not)
CLAIMED = {
 "C01": ("must-pass guard facts on the SSA CFG of VerifyProposal + gate domination in the 5 voted handlers + SSA value provenance of keys/sign-doc",
         "every voted handler passes VerifyProposal's success edge before any state write; VerifyProposal contains the proposer/sequence/epoch/threshold/aggregate facts on every success path; the mark count compared with the threshold is tied to the keys verified; the signed document binds method, chain, proposer, sequence, epoch and every payload field; Threshold() has the ceil(2(n+1)/3) shape",
         "BLS soundness, arithmetic of the threshold for all n, SDK rollback"),
 "C02": ("who-may-write over collections call sites + call-graph callers + must-pass facts",
         "the sequence is written only by SetProposalSeq/genesis, called only by voted handlers, exactly once per success path with VerifyProposal's sequence + 1, paired with UpdateRandao(req); the accepted flag is flipped only after every guard; no package-level state is written from consensus code",
         "rollback itself (SDK), cross-chain non-acceptance (crypto)"),
 "C03": ("must-pass guard facts and argument provenance in VerifyDeposit / NewDeposits (SSA)",
         "all deposit checks lie on every success path with the same txid/header/script/address objects; mark-before-next inside the batch loop; tx sizes > 64 enforced before verification; tax computed as value/10000*rate with min(cap) and subtracted from the credited amount",
         "hash/Merkle/script soundness, the arithmetic identity for all 64-bit values"),
 "C04": ("must-pass guard facts and loop-shape matching on the SSA of VerifyMerkelProof",
         "length guards, parity-steered concatenation order, per-level shift, position < 2^len(path) before a true result, callers pass the position field their coinbase rule uses",
         "functional equivalence with Bitcoin's Merkle tree on all inputs"),
 "C05": ("enum typestate dataflow over Withdrawal.Status in every production function + pairing path searches + must-pass term facts",
         "the status transition relation the code can perform equals the allowed one (paid/canceled terminal, never rewritten); each terminal write is paired with exactly one queue notice of the same id; every term check precedes the record write in Process/Replace; Finalize needs txid membership, voted header hash, SPV and reports the matched output",
         "behaviour over interleavings as such, float rounding of the fee-rate comparison, id reuse by the execution layer"),
 "C20": ("must-pass relational guard facts on the stored SSA value for every runtime store to the three bounded parameters + who-may-write",
         "every runtime store to DepositTaxRate/MinDepositAmount/ConfirmationNumber is dominated by the bound on the very value stored (rate < 10000, amount > 1000, number >= 1); no other runtime writer; tax divisor equals the rate bound and division comes first",
         "the arithmetic consequence for every 64-bit value; genesis configuration"),
}

NA_REASON = "check under construction in this round (static rules designed in DESIGN.md section 2, not yet wired)"

checks, na = [], []
for p in props:
    pid = p["id"]
    if pid in CLAIMED:
        tech, dec, notdec = CLAIMED[pid]
        checks.append({
            "property_id": pid,
            "quick_cmd": f"./run.sh {pid} quick",
            "thorough_cmd": f"./run.sh {pid} thorough",
            "evidence_file": f"/verif/evidence/{pid}.json",
            "replay_cmd_template": f"./run.sh {pid} quick   # re-decides every obligation of {pid}; the report {{path}} names rule, construct and witness path",
            "engine": "goatverif",
            "level_claimed": {
                "category": "other",
                "text": "Static analysis (no execution): decides, on every path of the code that is there, these structural necessary conditions of the property: " + dec + ". NOT decided: " + notdec + ".",
                "design_ref": f"DESIGN.md section 2, {pid}",
            },
            "level_note": TRUST,
            "technique": "static analysis: " + tech,
        })
    else:
        na.append({"property_id": pid, "reason": NA_REASON})

m = {
 "version": 1,
 "setup_cmd": "./run.sh build",
 "hooks": {
   "guard": "verif",
   "enable": "static analysis loads /repo with -tags verif; no hook files exist (none are needed)",
   "baseline_off_cmd": "for m in $(cat /w/out/gomods.txt); do MF=$(cd /repo/$m && . /w/out/goenv.sh && gomodflag); (cd /repo/$m && go test $MF -json -vet=off -count=1 -timeout 25m ./...); done",
   "source_commits": [],
   "add_only": True,
 },
 "engines": [{"name": "goatverif", "path": "tool/", "serves_properties": sorted(CLAIMED),
              "kind_free_text": "custom static analyser over go/packages + go/types + go/ssa (x/tools v0.29.0, vendored): canonical SSA expression rendering, must-pass edge facts, enum typestate, who-may-write, repo call graph (CHA over production types)"}],
 "checks": checks,
 "notes": "All checks are static analysis of /repo's current working tree; see DESIGN.md. fix: commits in /repo are listed in known_findings.txt.",
 "not_applicable": na,
}
json.dump(m, open(os.path.join(HERE, "MANIFEST.json"), "w"), indent=1)
print("claimed", len(checks), "not_applicable", len(na))
