#!/usr/bin/env python3
"""mkoverlay.py <patch> <outdir> [repo=/repo]: copy the files a patch touches from the repo's working tree
into <outdir> (same relative paths) and apply the patch there; the result is a -overlay directory for goatverif."""
import sys, os, shutil, subprocess
patch, out = sys.argv[1], sys.argv[2]
repo = sys.argv[3] if len(sys.argv) > 3 else "/repo"
files = set()
for l in open(patch, errors="replace"):
    if l.startswith("+++ ") or l.startswith("--- "):
        f = l[4:].split("\t")[0].strip()
        if f != "/dev/null":
            files.add(f.split("/", 1)[1] if f.startswith(("a/", "b/")) else f)
os.makedirs(out, exist_ok=True)
for rel in sorted(files):
    src = os.path.join(repo, rel)
    if os.path.exists(src):
        os.makedirs(os.path.dirname(os.path.join(out, rel)), exist_ok=True)
        shutil.copy(src, os.path.join(out, rel))
r = subprocess.run(["patch", "-p1", "-s", "--no-backup-if-mismatch", "-i", os.path.abspath(patch)], cwd=out, capture_output=True, text=True)
if r.returncode != 0:
    sys.stderr.write(r.stdout + r.stderr)
    sys.exit(3)
for root, _, fs in os.walk(out):
    for f in fs:
        if f.endswith((".orig", ".rej")):
            os.unlink(os.path.join(root, f))
