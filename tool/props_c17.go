package main

import (
	"regexp"
	"strings"

	"golang.org/x/tools/go/ssa"
)

func init() { register("C17", propC17) }

// returnsOf renders the non-failing returns' result i.
func (p *Prog) returnsOf(fn *ssa.Function, i int) []string {
	var out []string
	for _, e := range Exits(fn) {
		if e.Kind == exitFailure || i >= len(e.Ret.Results) {
			continue
		}
		out = append(out, p.R(fn).E(e.Ret.Results[i]))
	}
	return out
}

func firstMatch(re string, ss []string) string {
	r := regexp.MustCompile(re)
	for _, s := range ss {
		if m := r.FindStringSubmatch(s); m != nil {
			return m[1]
		}
	}
	return ""
}

func propC17(c *Check) {
	p := c.p
	c.Rule("R1", "sibling recipes: for each key type and deposit version the address builder and the script verifier derive the witness program / data script by the same recipe over the same argument roles (extracted from SSA and compared)")
	c.Rule("R2", "the verifier's literal expectations (script length, version opcode, push opcode) match the address kind the builder returns")
	c.Rule("R3", "key/version matrix: version 1 builder and verifier both require an ECDSA key; version 0 handles ECDSA and Schnorr in both; the query dispatches versions exactly as deposit verification does")
	c.Rule("R4", "DecodeBtcAddress: every success passes DecodeAddress(addr, net), IsForNet(net), the pay-to-pubkey rejection and PayToAddrScript; callers pass the configured network with a nil guard")
	c.Rule("R5", "what the node hands out is a function of the committed state and the request: no process-local state in the keepers the address query reads (C07/R3) — a remembered address outlives the key it was derived from")
	c.Depend("R5", "C07", propC07, map[string]bool{"R3": true}, "an address served from node-local memory is not the one deposit verification derives from the current key")

	g0 := p.MustFn("x/bitcoin/types.DepositAddressV0")
	g1 := p.MustFn("x/bitcoin/types.DepositAddressV1")
	v0 := p.MustFn("x/bitcoin/types.VerifyDespositScriptV0")
	v1 := p.MustFn("x/bitcoin/types.VerifyDespositScriptV1")
	for _, f := range []*ssa.Function{g0, g1, v0, v1} {
		c.touch(f)
	}
	facts := func(fn *ssa.Function) []string {
		var out []string
		for _, ef := range p.EdgeFacts(fn) {
			out = append(out, ef.Fact)
			// what a successful helper call establishes (under the key type the caller has already fixed)
			out = append(out, p.impliedFacts(fn, ef, 2)...)
		}
		return out
	}
	cmp := func(name, gen, ver string) {
		switch {
		case gen == "" || ver == "":
			c.Violated("R1", name, "", "recipe not found (builder: "+gen+" | verifier: "+ver+") reason=not-established")
		case gen != ver:
			c.Violated("R1", name, "", "builder and verifier disagree: builder derives "+gen+" but verifier expects "+ver)
		default:
			c.Held("R1", name, "", gen)
		}
	}
	// the recipe with a given head among the alternatives of the captured expressions: a program obtained from a
	// shared helper is the φ of the helper's per-key-type results, so both sides carry both recipes
	allMatches := func(re string, ss []string) []string {
		r := regexp.MustCompile(re)
		var out []string
		for _, s := range ss {
			if m := r.FindStringSubmatch(s); m != nil {
				out = append(out, m[1])
			}
		}
		return out
	}
	recipe := func(captures []string, head string) string {
		var found []string
		for _, cpt := range captures {
			alts := []string{cpt}
			if strings.HasPrefix(cpt, "φ{") && strings.HasSuffix(cpt, "}") && balancedTop(cpt[len("φ{"):len(cpt)-1]) {
				alts = splitTop(cpt[len("φ{") : len(cpt)-1])
			}
			for _, a := range alts {
				if strings.HasPrefix(a, head) {
					found = append(found, a)
				}
			}
		}
		found = dedupe(found)
		if len(found) == 1 {
			return found[0]
		}
		return ""
	}
	bProg := append(allMatches(`^btcutil\.NewAddressWitnessScriptHash\((.*), \$2\)#0$`, p.returnsOf(g0, 0)), allMatches(`^btcutil\.NewAddressTaproot\((.*), \$2\)#0$`, p.returnsOf(g0, 0))...)
	vProg := allMatches(`^bytes\.Equal\((.*), \$2\[2:\]\)$`, facts(v0))
	// V0 ECDSA: witness program = SHA256(script)
	cmp("v0/ecdsa witness-program", recipe(bProg, "crypto.SHA256Sum("), recipe(vProg, "crypto.SHA256Sum("))
	cmp("v0/schnorr witness-program", recipe(bProg, "schnorr.SerializePubKey("), recipe(vProg, "schnorr.SerializePubKey("))
	cmp("v1 key-hash",
		firstMatch(`^btcutil\.NewAddressWitnessPubKeyHash\((crypto\.Hash160Sum\(.*\)), \$3\)#0$`, p.returnsOf(g1, 0)),
		firstMatch(`^bytes\.Equal\((crypto\.Hash160Sum\(.*\)), \$3\[2:\]\)$`, facts(v1)))
	cmp("v1 data-payload",
		firstMatch(`^ScriptBuilder\.Script\(ScriptBuilder\.AddFullData\(ScriptBuilder\.AddOp\(txscript\.NewScriptBuilder\(nil\), 106\), (slices\.Concat\(\[\$1, \$2\]\))\)\)#0$`, p.returnsOf(g1, 1)),
		firstMatch(`^bytes\.Equal\(\$4\[2:\], (slices\.Concat\(\[\$1, \$2\]\))\)$`, facts(v1)))
	// the recipes themselves (roles: $1 = EVM address, key from the relayer public key)
	key := "$0.Key.(*relayer/types.PublicKey_Secp256K1)#0.Secp256K1"
	wantScript := "crypto.SHA256Sum([ScriptBuilder.Script(ScriptBuilder.AddOp(ScriptBuilder.AddData(ScriptBuilder.AddOp(ScriptBuilder.AddData(txscript.NewScriptBuilder(nil), $1), 117), " + key + "), 172))#0])"
	if got := recipe(vProg, "crypto.SHA256Sum("); got == wantScript {
		c.Held("R1", "v0/ecdsa script = <evm> OP_DROP <key> OP_CHECKSIG", "", got)
	} else {
		c.Violated("R1", "v0/ecdsa script = <evm> OP_DROP <key> OP_CHECKSIG", "", "script recipe is "+got)
	}
	wantTap := "schnorr.SerializePubKey(txscript.ComputeTaprootOutputKey(schnorr.ParsePubKey($0.Key.(*relayer/types.PublicKey_Schnorr)#0.Schnorr)#0, $1))"
	if got := recipe(vProg, "schnorr.SerializePubKey("); got == wantTap {
		c.Held("R1", "v0/schnorr key tweaked by the EVM address", "", got)
	} else {
		c.Violated("R1", "v0/schnorr key tweaked by the EVM address", "", "recipe is "+got)
	}
	// R2 literals — every verifier success path passes them
	lits := func(fn *ssa.Function, arg, keyFact string, n, op0, op1 string, name string) {
		// conditional on the key type branch: success exits must pass either the other key type's assertion or these facts
		other := `^\$0\.Key\.\(\*relayer/types\.PublicKey_\w+\)#1$`
		_ = other
		for what, pat := range map[string]string{
			"length":  lit(EQ(n, "len("+arg+")")),
			"version": lit(EQ(arg+"[0]", op0)),
			"push":    lit(EQ(arg+"[1]", op1)),
		} {
			full := pat
			if keyFact != "" {
				full = pat + "|" + keyFact
			}
			c.RequireFact(fn, "R2", name+" "+what, full, nil, "")
		}
	}
	schnorrOK := lit("$0.Key.(*relayer/types.PublicKey_Schnorr)#1")
	ecdsaOK := lit("$0.Key.(*relayer/types.PublicKey_Secp256K1)#1")
	lits(v0, "$2", schnorrOK, "34", "0", "32", "v0/ecdsa p2wsh (OP_0 OP_DATA_32, 34 bytes)")
	lits(v0, "$2", ecdsaOK, "34", "81", "32", "v0/schnorr p2tr (OP_1 OP_DATA_32, 34 bytes)")
	lits(v1, "$3", "", "22", "0", "20", "v1 p2wpkh (OP_0 OP_DATA_20, 22 bytes)")
	lits(v1, "$4", "", "26", "106", "24", "v1 data output (OP_RETURN OP_DATA_24, 26 bytes)")
	// the relayer's own (change / consolidation) address: the same three literals per key type
	if sys := p.Fn("x/bitcoin/types.VerifySystemAddressScript"); sys != nil {
		lits(sys, "$1", schnorrOK, "22", "0", "20", "system/ecdsa p2wpkh (OP_0 OP_DATA_20, 22 bytes)")
		lits(sys, "$1", ecdsaOK, "34", "81", "32", "system/schnorr p2tr (OP_1 OP_DATA_32, 34 bytes)")
	}
	c.RequireFact(v0, "R2", "evm-address-20-bytes", lit(EQ("20", "len($1)")), nil, "")
	c.RequireFact(v1, "R2", "evm-address-20-bytes", lit(EQ("20", "len($2)")), nil, "")
	c.RequireFact(v1, "R2", "magic-prefix-4-bytes", lit(EQ("4", "len($1)")), nil, "")
	c.RequireFact(g0, "R2", "evm-address-20-bytes", lit(EQ("20", "len($1)")), nil, "")
	c.RequireFact(g1, "R2", "evm-address-20-bytes", lit(EQ("20", "len($2)")), nil, "")
	c.RequireFact(g1, "R2", "magic-prefix-4-bytes", lit(EQ("4", "len($1)")), nil, "")
	// builder address kinds
	for _, s := range p.returnsOf(g0, 0) {
		if strings.HasPrefix(s, "btcutil.NewAddressWitnessScriptHash(") || strings.HasPrefix(s, "btcutil.NewAddressTaproot(") {
			c.Held("R2", "v0 builder address kind", "", strings.SplitN(s, "(", 2)[0])
		} else {
			c.Violated("R2", "v0 builder address kind", "", "returns "+s)
		}
	}
	// R3 key matrix: every success of the v1 functions passes the ECDSA assertion; v0 passes one of the two and checks the matching comparison
	c.RequireFact(g1, "R3", "v1-builder-ecdsa-only", ecdsaOK, nil, "")
	c.RequireFact(v1, "R3", "v1-verifier-ecdsa-only", ecdsaOK, nil, "")
	c.RequireFact(v0, "R3", "v0-verifier-known-key-type", ecdsaOK+"|"+schnorrOK, nil, "")
	c.RequireFact(g0, "R3", "v0-builder-known-key-type", ecdsaOK+"|"+schnorrOK, nil, "")
	c.RequireFact(v0, "R3", "v0-verifier-program-compared", `^bytes\.Equal\((φ\{)?crypto\.SHA256Sum\(.*[)}], \$2\[2:\]\)$|^bytes\.Equal\((φ\{)?schnorr\.SerializePubKey\(.*[)}], \$2\[2:\]\)$`, nil, "")
	c.RequireFact(v1, "R3", "v1-verifier-keyhash-compared", `^bytes\.Equal\(crypto\.Hash160Sum\(.*\), \$3\[2:\]\)$`, nil, "")
	c.RequireFact(v1, "R3", "v1-verifier-payload-compared", `^bytes\.Equal\(\$4\[2:\], slices\.Concat\(\[\$1, \$2\]\)\)$`, nil, "")
	// no helper of a different key matrix is called from the verifiers
	for _, fn := range []*ssa.Function{v0, v1} {
		for _, e := range p.CG().Out[fn] {
			if FuncKey(e.To) == "x/bitcoin/types.VerifySystemAddressScript" {
				// fine when the caller has already fixed the key type to ECDSA: the helper's other arm is unreachable
				if site, ok := e.Site.(ssa.Instruction); ok && fn == v1 {
					if t := p.typeAssumptionsAt(fn, site); t["$0.Key"] == "*relayer/types.PublicKey_Secp256K1" {
						c.Held("R3", "verifier-uses-system-address-check @ "+FuncKey(fn), p.InstrPos(site), "delegates the key-hash output check to the system-address check under the ECDSA type guard")
						continue
					}
				}
				c.Violated("R3", "verifier-uses-system-address-check @ "+FuncKey(fn), p.InstrPos(e.Site), "deposit verification delegates to the relayer system-address check, whose key-type matrix differs (it accepts Schnorr keys for every version)")
			}
		}
	}
	// the query and VerifyDeposit dispatch on the version identically
	q := p.Fn("x/bitcoin/keeper.queryServer.DepositAddress")
	if q == nil {
		c.Violated("R3", "query-dispatch", "", "DepositAddress query not found reason=not-established")
	} else {
		c.touch(q)
		c0 := p.FindCalls(q, `^bitcoin/types\.DepositAddressV0\(`)
		c1 := p.FindCalls(q, `^bitcoin/types\.DepositAddressV1\(`)
		if len(c0) == 1 && len(c1) == 1 {
			c.RequireFact(q, "R3", "query-v0-for-version-0", `^\(0 == \$2\.Version\)$|^\(\$2\.Version == 0\)$`, instrSet([]ssa.Instruction{c0[0]}), "v0 address")
			c.RequireFact(q, "R3", "query-v1-for-version-1", `^\(1 == \$2\.Version\)$|^\(\$2\.Version == 1\)$`, instrSet([]ssa.Instruction{c1[0]}), "v1 address")
			// same key / magic / network sources as verification
			s1 := p.CallStr(c1[0])
			if strings.Contains(s1, "Params.Get()#0.DepositMagicPrefix") && strings.Contains(s1, "bitcoin/types.BitcoinNetworks[Params.Get()#0.NetworkName]") {
				c.Held("R3", "query-v1-arguments", p.InstrPos(c1[0]), "magic prefix and network from Params, as in VerifyDeposit")
			} else {
				c.Violated("R3", "query-v1-arguments", p.InstrPos(c1[0]), "v1 address built from "+s1)
			}
		} else {
			c.Violated("R3", "query-dispatch", p.Pos(q.Pos()), "the query does not call both address builders exactly once reason=not-established")
		}
	}

	// R4 DecodeBtcAddress
	d := p.MustFn("x/bitcoin/types.DecodeBtcAddress")
	addr := "btcutil.DecodeAddress($0, $1)"
	c.RequireFact(d, "R4", "network-given", lit(NE("$1", "nil")), nil, "")
	c.RequireFact(d, "R4", "decodes-for-network", lit("("+addr+"#1 == nil)"), nil, "")
	c.RequireFact(d, "R4", "is-for-net", lit("Address.IsForNet("+addr+"#0, $1)"), nil, "")
	c.RequireFact(d, "R4", "not-pay-to-pubkey", lit("!"+addr+"#0.(*btcutil.AddressPubKey)#1"), nil, "")
	c.RequireFact(d, "R4", "script-built", lit(EQ("nil", "txscript.PayToAddrScript("+addr+"#0)#1")), nil, "")
	for _, s := range p.returnsOf(d, 0) {
		if s == "txscript.PayToAddrScript("+addr+"#0)#0" {
			c.Held("R4", "returns-pay-to-address-script", "", s)
		} else {
			c.Violated("R4", "returns-pay-to-address-script", "", "returns "+s)
		}
	}
	n := 0
	for _, e := range p.CG().In[d] {
		ci, ok := e.Site.(ssa.CallInstruction)
		if !ok || !isProdPkgFn(e.From) {
			continue
		}
		n++
		for _, x := range p.contextsOf(e.From) {
			net := x.r.E(ci.Common().Args[1])
			where := FuncKey(e.From)
			if x.call != nil {
				where += " called from " + FuncKey(x.parent)
			}
			if net == "bitcoin/types.BitcoinNetworks[Params.Get()#0.NetworkName]" {
				c.requireFactCtx(x, "R4", "network-nil-guard", lit(NE("bitcoin/types.BitcoinNetworks[Params.Get()#0.NetworkName]", "nil")), instrSet([]ssa.Instruction{ci}), "address decoding")
			} else {
				c.Violated("R4", "network-argument @ "+where, p.InstrPos(ci), "address decoded for "+net+", not for the configured network")
			}
		}
	}
	c.Floor("R4", "DecodeBtcAddress callers", n, 1)
	// a withdrawal whose address cannot be decoded is refunded at creation (status CANCELED + rejected queue): C05/R2
	// system address verifier: structure
	vs := p.MustFn("x/bitcoin/types.VerifySystemAddressScript")
	c.touch(vs)
	rs := p.returnsOf(vs, 0)
	okP := false
	for _, s := range rs {
		if s == "bytes.Equal(crypto.Hash160Sum($0.Key.(*relayer/types.PublicKey_Secp256K1)#0.Secp256K1), $1[2:])" {
			okP = true
		}
	}
	if okP {
		c.Held("R1", "system-address ecdsa = p2wpkh(Hash160(key))", "", "")
	} else {
		c.Violated("R1", "system-address ecdsa = p2wpkh(Hash160(key))", "", "not established: "+strings.Join(rs, " | "))
	}
}
