package main

import (
	"os"
	"os/exec"
	"path/filepath"
	"regexp"
	"strings"
)

var reRegister = regexp.MustCompile(`proto\.RegisterType\(\(\*(\w+)\)\(nil\), "([\w.]+)"\)`)

// registeredMsgTypes: protobuf message full names registered by packages in the
// import closure of ./app that define a Msg service (generated *.pb.go files are
// parsed for proto.RegisterType and _Msg_serviceDesc). Value: defined in this repository.
func (p *Prog) registeredMsgTypes() map[string]bool {
	args := []string{"list", "-deps", "-f", "{{.Dir}}"}
	if p.overlayJSON != "" {
		args = append(args, "-overlay="+p.overlayJSON)
	}
	cmd := exec.Command("go", append(args, "./app")...)
	cmd.Dir = p.Dir
	cmd.Env = append(os.Environ(), "GOFLAGS=-mod=mod", "GOPROXY=off", "GOSUMDB=off", "GOTOOLCHAIN=local", "GOWORK=off")
	out, err := cmd.Output()
	if err != nil {
		infraFail("go list -deps ./app: %v", err)
	}
	res := map[string]bool{}
	dirs := strings.Split(strings.TrimSpace(string(out)), "\n")
	if len(dirs) < 500 {
		infraFail("import closure of ./app has only %d packages: incomplete", len(dirs))
	}
	for _, d := range dirs {
		if d == "" {
			continue
		}
		files, _ := filepath.Glob(filepath.Join(d, "*.pb.go"))
		if len(files) == 0 {
			continue
		}
		hasMsg := false
		var names []string
		for _, f := range files {
			b, err := os.ReadFile(f)
			if ob, ok := p.Overlay[f]; ok {
				b, err = ob, nil
			}
			if err != nil {
				continue
			}
			s := string(b)
			if strings.Contains(s, "_Msg_serviceDesc") {
				hasMsg = true
			}
			for _, m := range reRegister.FindAllStringSubmatch(s, -1) {
				names = append(names, m[2])
			}
		}
		if !hasMsg {
			continue
		}
		inRepo := strings.HasPrefix(d, p.Dir+"/") || d == p.Dir
		for _, n := range names {
			res[n] = inRepo
		}
	}
	return res
}
