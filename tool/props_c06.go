package main

import (
	"fmt"
	"go/constant"
	"go/token"
	"regexp"
	"sort"
	"strings"

	"golang.org/x/tools/go/ssa"
)

func init() { register("C06", propC06) }

func isConstInt(v ssa.Value, n int64) bool {
	c, ok := v.(*ssa.Const)
	if !ok || c.Value == nil {
		return false
	}
	i, ok := constant.Int64Val(constant.ToInt(c.Value))
	return ok && i == n
}

// incOf: v == ADD(x, 1) → x
func incOf(v ssa.Value) ssa.Value {
	bo, ok := v.(*ssa.BinOp)
	if !ok || bo.Op != token.ADD {
		return nil
	}
	if isConstInt(bo.Y, 1) {
		return bo.X
	}
	if isConstInt(bo.X, 1) {
		return bo.Y
	}
	return nil
}

// loadOfField: v is a load of FieldAddr(alloc, field) → (alloc, field name)
func loadOfField(v ssa.Value) (*ssa.Alloc, string) {
	u, ok := v.(*ssa.UnOp)
	if !ok || u.Op != token.MUL {
		return nil, ""
	}
	fa, ok := u.X.(*ssa.FieldAddr)
	if !ok {
		return nil, ""
	}
	a, ok := fa.X.(*ssa.Alloc)
	if !ok {
		return nil, ""
	}
	return a, fieldName(fa.X.Type(), fa.Field)
}

// popShape checks one dequeue function: capped in-order pops that advance queue and nonce together.
func (c *Check) popShape(fn *ssa.Function, fields []string, caps map[string]int64, sharedCap map[string]string) {
	p := c.p
	c.touch(fn)
	key := FuncKey(fn)
	r := p.R(fn)
	// --- nonce value graph ---
	var peek ssa.Value
	var nonceSet *ssa.Call
	for _, s := range p.StoreSites(fn) {
		if s.Field.Name() != "EthTxNonce" {
			continue
		}
		switch s.Method {
		case "Peek":
			for _, ref := range *s.Call.(*ssa.Call).Referrers() {
				if ex, ok := ref.(*ssa.Extract); ok && ex.Index == 0 {
					peek = ex
				}
			}
		case "Set":
			nonceSet = s.Call.(*ssa.Call)
		default:
			c.Violated("R2", "nonce-access "+s.Method+" @ "+key, p.InstrPos(s.Call), "unexpected access to the nonce sequence")
		}
	}
	if peek == nil || nonceSet == nil {
		c.Violated("R2", "nonce-read-write @ "+key, p.Pos(fn.Pos()), "EthTxNonce.Peek / EthTxNonce.Set not found reason=not-established")
		return
	}
	// N = closure from the stored value backwards through φ and +1
	N := map[ssa.Value]bool{}
	var walk func(v ssa.Value) bool
	okGraph := true
	walk = func(v ssa.Value) bool {
		if N[v] {
			return true
		}
		N[v] = true
		if v == peek {
			return true
		}
		if lv := r.LoadedValue(v); lv != v {
			return walk(lv)
		}
		switch x := v.(type) {
		case *ssa.Phi:
			for _, e := range x.Edges {
				walk(e)
			}
		case *ssa.BinOp:
			if src := incOf(x); src != nil {
				walk(src)
			} else {
				okGraph = false
				c.Violated("R2", "nonce-arithmetic @ "+key, p.InstrPos(x), "the nonce is changed by something other than +1: "+r.E(x))
			}
		default:
			okGraph = false
			c.Violated("R2", "nonce-source @ "+key, p.Pos(fn.Pos()), "the stored nonce derives from "+r.E(v)+" instead of EthTxNonce.Peek + increments")
		}
		return true
	}
	var setArg ssa.Value
	for _, a := range nonceSet.Call.Args[1:] {
		if !isContextType(a.Type()) {
			setArg = a
		}
	}
	walk(setArg)
	if !N[peek] {
		okGraph = false
		c.Violated("R2", "nonce-source @ "+key, p.InstrPos(nonceSet), "the stored nonce does not derive from EthTxNonce.Peek")
	}
	// emits: calls taking a nonce value (in N) that construct a transaction appended to the result
	type emit struct {
		call  *ssa.Call
		nonce ssa.Value
	}
	var emits []emit
	for _, ci := range callsIn(fn) {
		call, ok := ci.(*ssa.Call)
		if !ok {
			continue
		}
		if storeAccess(&call.Call) != nil {
			continue
		}
		for _, a := range call.Call.Args {
			if N[a] && strings.HasSuffix(call.Type().String(), "core/types.Transaction") {
				emits = append(emits, emit{call, a})
			}
		}
	}
	// every increment consumes the nonce of exactly one emit in the same block, and vice versa
	incs := map[ssa.Value]*ssa.BinOp{} // source -> inc
	for v := range N {
		if bo, ok := v.(*ssa.BinOp); ok {
			src := incOf(bo)
			if prev, dup := incs[src]; dup && prev != bo {
				okGraph = false
				c.Violated("R2", "nonce-double-increment @ "+key, p.InstrPos(bo), "the same nonce value is incremented twice")
			}
			incs[src] = bo
		}
	}
	used := map[*ssa.BinOp]bool{}
	for _, e := range emits {
		inc := incs[e.nonce]
		switch {
		case inc == nil:
			okGraph = false
			c.Violated("R2", "nonce-advance-after-emit @ "+key, p.InstrPos(e.call), "a system tx is emitted with nonce "+r.E(e.nonce)+" but the nonce is not advanced past it (reuse)")
		case inc.Block() != e.call.Block():
			okGraph = false
			c.Violated("R2", "nonce-advance-after-emit @ "+key, p.InstrPos(e.call), "nonce increment is not paired with the emit in the same block")
		case used[inc]:
			okGraph = false
			c.Violated("R2", "nonce-advance-after-emit @ "+key, p.InstrPos(e.call), "two emits share one nonce value")
		default:
			used[inc] = true
			// the pre-increment value must not flow onward from this block
			for _, ref := range *e.nonce.Referrers() {
				if ph, ok := ref.(*ssa.Phi); ok && N[ph] {
					for k, ed := range ph.Edges {
						if ed == e.nonce && (ph.Block().Preds[k] == e.call.Block() || e.call.Block().Dominates(ph.Block().Preds[k])) {
							okGraph = false
							c.Violated("R2", "nonce-advance-after-emit @ "+key, p.InstrPos(e.call), "the un-incremented nonce flows on after an emit (nonce reuse)")
						}
					}
				}
			}
		}
	}
	for src, inc := range incs {
		if !used[inc] {
			okGraph = false
			c.Violated("R2", "nonce-gap @ "+key, p.InstrPos(inc), "the nonce is incremented ("+r.E(src)+"+1) without a system tx being emitted (gap)")
		}
	}
	if okGraph {
		c.Held("R2", "nonce-advances-with-each-emit @ "+key, p.InstrPos(nonceSet), fmt.Sprintf("%d emit sites, each paired with nonce+1; stored nonce = Peek + number of emits", len(emits)))
	}
	c.Counters["call_sites"] += len(emits)

	// --- queue fields: indexed by a 0-based counter, re-sliced by the same counter ---
	for _, f := range fields {
		var reslice *ssa.Store
		var counter ssa.Value
		for _, b := range fn.Blocks {
			for _, in := range b.Instrs {
				st, ok := in.(*ssa.Store)
				if !ok {
					continue
				}
				fa, ok := st.Addr.(*ssa.FieldAddr)
				if !ok || fieldName(fa.X.Type(), fa.Field) != f {
					continue
				}
				if _, isAlloc := fa.X.(*ssa.Alloc); !isAlloc {
					continue
				}
				sl, ok := st.Val.(*ssa.Slice)
				if !ok || sl.High != nil || sl.Low == nil {
					c.Violated("R2", "pop-reslice "+f+" @ "+key, p.InstrPos(st), "queue field is not re-sliced as F[n:]: "+r.E(st.Val))
					continue
				}
				if _, ff := loadOfField(sl.X); ff != f {
					c.Violated("R2", "pop-reslice "+f+" @ "+key, p.InstrPos(st), "re-slice of a different list: "+r.E(st.Val))
					continue
				}
				reslice, counter = st, sl.Low
			}
		}
		if reslice == nil {
			c.Violated("R2", "pop-reslice "+f+" @ "+key, p.Pos(fn.Pos()), "no F = F[n:] found reason=not-established")
			continue
		}
		// idiom B: n = min(len(F), CAP) (builtin, or `n := len(F); if n > CAP { n = CAP }`); for _, x := range F[:n] {…}; F = F[n:]
		var minArgs []ssa.Value
		if mc, ok := counter.(*ssa.Call); ok {
			if bi, isB := mc.Call.Value.(*ssa.Builtin); isB && bi.Name() == "min" && len(mc.Call.Args) == 2 {
				minArgs = mc.Call.Args
			}
		}
		if mp, ok := counter.(*ssa.Phi); ok && len(mp.Edges) == 2 && !isRangeCounter(mp) {
			// φ{len(F), CAP} with the constant chosen only when CAP < len(F)
			okPhi := true
			for k, e := range mp.Edges {
				if kc, isC := e.(*ssa.Const); isC && kc.Value != nil {
					pred := mp.Block().Preds[k]
					t := pred.Instrs[len(pred.Instrs)-1]
					capS := kc.Value.ExactString()
					lf := "len(EthTxQueue.Get()#0." + f + ")"
					edges := p.MatchEdges(fn, regexp.MustCompile(lit("("+capS+" < "+lf+")")+"|"+lit("("+capS+" <= "+lf+")")))
					if tt, _ := (&PathSearch{Fn: fn, AvoidEdges: edgeSet(edges), IsTarget: func(in ssa.Instruction) bool { return in == t }}).Find(); tt != nil || len(edges) == 0 {
						okPhi = false
					}
				}
			}
			if okPhi && incOf(mp.Edges[0]) == nil && incOf(mp.Edges[1]) == nil {
				minArgs = mp.Edges
			}
		}
		if minArgs != nil {
			{
				var lenOK bool
				var capC int64 = -1
				for _, a := range minArgs {
					if lc, ok := a.(*ssa.Call); ok {
						if lb, ok := lc.Call.Value.(*ssa.Builtin); ok && lb.Name() == "len" {
							if _, ff := loadOfField(lc.Call.Args[0]); ff == f {
								lenOK = true
							}
						}
					}
					if k, ok := a.(*ssa.Const); ok && k.Value != nil {
						capC, _ = constant.Int64Val(constant.ToInt(k.Value))
					} else if ub, ok := intUpperBound(a); ok {
						capC = ub // e.g. a quota shared with another list: CAP - min(len(other), CAP)
					}
				}
				if !lenOK || capC < 0 || capC > caps[f] {
					c.Violated("R2", "pop-counter "+f+" @ "+key, p.InstrPos(reslice), fmt.Sprintf("the re-slice offset %s is not min(len(list), cap<=%d)", r.E(counter), caps[f]))
					continue
				}
				nElem, bad := 0, false
				for _, b := range fn.Blocks {
					for _, in := range b.Instrs {
						ia, ok := in.(*ssa.IndexAddr)
						if !ok {
							continue
						}
						if _, ff := loadOfField(ia.X); ff == f {
							bad = true
							c.Violated("R2", "pop-index "+f+" @ "+key, p.InstrPos(ia), "element read outside the popped prefix F[:n]")
							continue
						}
						sl, ok := ia.X.(*ssa.Slice)
						if !ok {
							continue
						}
						if _, ff := loadOfField(sl.X); ff != f {
							continue
						}
						nElem++
						if sl.Low != nil || sl.High != counter || r.E(ia.Index) != "φ{(1 + @)|0}" {
							bad = true
							c.Violated("R2", "pop-index "+f+" @ "+key, p.InstrPos(ia), "elements are not consumed as F[:n][i] for i = 0,1,… with the n the list is re-sliced by: "+r.E(ia))
						}
					}
				}
				if nElem == 0 {
					c.Violated("R2", "pop-index "+f+" @ "+key, p.Pos(fn.Pos()), "no element read of the list reason=not-established")
				} else if !bad {
					c.Held("R2", "pop-index "+f+" @ "+key, p.InstrPos(reslice), "range over F[:n] with n = min(len(F), cap) and F = F[n:] (first-in-first-out, nothing dropped or duplicated)")
				}
				continue
			}
		}
		ph, ok := counter.(*ssa.Phi)
		okCounter := ok && len(ph.Edges) == 2
		if okCounter {
			var zero, step bool
			for _, e := range ph.Edges {
				if isConstInt(e, 0) {
					zero = true
				} else if incOf(e) == ssa.Value(ph) {
					step = true
				}
			}
			okCounter = zero && step
		}
		if !okCounter {
			c.Violated("R2", "pop-counter "+f+" @ "+key, p.InstrPos(reslice), "the re-slice offset is not a 0-based counter incremented once per pop: "+r.E(counter))
			continue
		}
		// every element read of F uses exactly this counter, and feeds an emit
		nElem, bad := 0, false
		for _, b := range fn.Blocks {
			for _, in := range b.Instrs {
				ia, ok := in.(*ssa.IndexAddr)
				if !ok {
					continue
				}
				if _, ff := loadOfField(ia.X); ff != f {
					continue
				}
				nElem++
				if ia.Index != counter {
					bad = true
					c.Violated("R2", "pop-index "+f+" @ "+key, p.InstrPos(ia), "element index "+r.E(ia.Index)+" is not the counter the list is re-sliced by (drop/duplicate)")
				}
				// the element's loop body is entered only under counter < len(F) && cap
				tgt := instrSet([]ssa.Instruction{ia})
				c.RequireFact(fn, "R2", "pop-bound "+f, `^\(φ\{\(1 \+ @\)\|0\} < len\(EthTxQueue\.Get\(\)#0\.`+f+`\)\)$`, tgt, "element read")
				capv := caps[f]
				c.RequireFact(fn, "R2", "pop-cap "+f, fmt.Sprintf(`^\(φ\{.*\} < %d\)$`, capv), tgt, "element read")
			}
		}
		if nElem == 0 {
			c.Violated("R2", "pop-index "+f+" @ "+key, p.Pos(fn.Pos()), "no element read of the list reason=not-established")
		} else if !bad {
			c.Held("R2", "pop-index "+f+" @ "+key, p.InstrPos(reslice), "elements F[n] consumed with n = 0,1,2… and F = F[n:] with the same n (first-in-first-out, nothing dropped or duplicated)")
		}
	}
	// --- both Sets on every success path that emitted ---
	qOK := regexp.MustCompile(lit("(EthTxQueue.Set(EthTxQueue.Get()#0) == nil)"))
	nOK := regexp.MustCompile(`^\(EthTxNonce\.Set\(.*\) == nil\)$`)
	emptyTxs := regexp.MustCompile(`^\(0 == len\(φ\{.*append.*\}\)\)$`)
	for _, e := range emits {
		for name, re := range map[string]*regexp.Regexp{"queue-stored-after-emit": qOK, "nonce-stored-after-emit": nOK} {
			avoid := edgeSet(p.MatchEdges(fn, re))
			for k := range edgeSet(p.MatchEdges(fn, emptyTxs)) {
				avoid[k] = true // infeasible after an append
			}
			ps := &PathSearch{Fn: fn, From: e.call, AvoidEdges: avoid, IsTarget: successTargets(fn)}
			cons := name + " " + strings.SplitN(p.CallStr(e.call), "(", 2)[0] + " @ " + key
			if t, path := ps.Find(); t != nil {
				c.Violated("R2", cons, p.InstrPos(t), "a system tx is handed out but the pop is not persisted on a success path", p.describePath(path)...)
			} else {
				c.Held("R2", cons, p.InstrPos(e.call), "")
			}
		}
	}
	// the queue value stored is the local that was popped
	for _, s := range p.StoreSites(fn) {
		if s.Field.Name() == "EthTxQueue" && s.Method == "Set" {
			if v := r.E(s.Args[0]); v != "EthTxQueue.Get()#0" {
				c.Violated("R2", "queue-stored-value @ "+key, p.InstrPos(s.Call), "stores "+v)
			}
		}
	}
}

func propC06(c *Check) {
	p := c.p
	c.Rule("R1", "who may pop: the two dequeue functions are reachable only through goat Keeper.Dequeue (proposal building) and VerifyDequeue (proposal checking, NewEthBlock); in tx context only via NewEthBlock; never from block hooks, other handlers or queries")
	c.Rule("R2", "pop shape: every emitted system tx uses the current nonce and is paired with nonce+1; queue lists are consumed F[n] for n=0,1,… under n<len && cap and re-sliced F[n:] with the same n; queue and nonce are stored on every success path that emitted; block-hash cursor advances by one iff a hash tx is emitted")
	c.Rule("R3", "append-only heights: a batch must start at tip+1, hashes are stored at consecutive heights, the tip becomes the last height; BlockHashes/BlockTip have no other runtime writer and no Remove")
	c.Rule("R4", "verification: in NewEthBlock it precedes the processing of the payload's own requests; extra-data length and count guards; expected txs come from the same two dequeue functions in the same order as Dequeue; each compared byte-for-byte; the count reaches zero")
	c.Rule("R5", "queue writers: other writers of the queues only append at the tail")
	c.Rule("R6", "matured unlocks enter the hand-over queue in maturity order, each exactly once: the sweep collects every entry it visits, in walk order, removes it and appends the collected unlocks at the tail (C15/R2)")
	c.Rule("R7", "claimed rewards are handed over once: a claim queues exactly what the record holds and clears it before the next request is looked at (C12/R3)")
	c.Rule("R8", "a paid or refunded withdrawal is queued once: each terminal status write is paired with exactly one notice of that id, and ids already in a terminal state add none (C05/R2)")
	c.Depend("R8", "C05", propC05, map[string]bool{"R2": true}, "a withdrawal id appended to the paid / rejected queue twice is handed over twice")
	c.Depend("R7", "C12", propC12, map[string]bool{"R3": true}, "a reward queued twice for one accrual is a duplicated hand-over")
	c.Depend("R6", "C15", propC15, map[string]bool{"R2": true}, "an entry skipped while the walk goes on is overtaken by later-matured unlocks (first-in-first-out within the kind) or stranded")

	cg := p.CG()
	bd := p.MustFn("x/bitcoin/keeper.Keeper.DequeueBitcoinModuleTx")
	ld := p.MustFn("x/locking/keeper.Keeper.DequeueLockingModuleTx")
	dq := p.MustFn("x/goat/keeper.Keeper.Dequeue")
	vdq := p.MustFn("x/goat/keeper.Keeper.VerifyDequeue")
	allowedCallers := map[*ssa.Function]map[string]bool{
		bd:  {"x/goat/keeper.Keeper.Dequeue": true, "x/goat/keeper.Keeper.VerifyDequeue": true},
		ld:  {"x/goat/keeper.Keeper.Dequeue": true, "x/goat/keeper.Keeper.VerifyDequeue": true},
		dq:  {"x/goat/keeper.Keeper.createEthBlockProposal": true},
		vdq: {"x/goat/keeper.Keeper.verifyEthBlockProposal$1": true, "x/goat/keeper.msgServer.NewEthBlock": true},
	}
	for _, f := range []*ssa.Function{bd, ld, dq, vdq} {
		callers := cg.Callers(f)
		for _, cl := range callers {
			if allowedCallers[f][FuncKey(cl)] {
				c.Held("R1", "caller "+FuncKey(cl)+" → "+FuncKey(f), p.Pos(cl.Pos()), "")
			} else {
				c.Violated("R1", "caller "+FuncKey(cl)+" → "+FuncKey(f), p.Pos(cl.Pos()), "queue pop reachable from an unexpected function")
			}
		}
		c.Floor("R1", "callers of "+FuncKey(f), len(callers), 1)
	}
	ctx := p.Contexts()
	for name, roots := range map[string][]*ssa.Function{"tx": ctx.Tx, "block": ctx.Block, "query": ctx.Query, "ante": ctx.Ante, "genesis": ctx.Genesis} {
		for _, root := range roots {
			reach, parent := cg.Reach([]*ssa.Function{root}, nil)
			for _, d := range []*ssa.Function{bd, ld} {
				if reach[d] {
					if name == "tx" && FuncKey(root) == "x/goat/keeper.msgServer.NewEthBlock" {
						c.Held("R1", "pop-from "+FuncKey(root)+" → "+FuncKey(d), p.Pos(root.Pos()), cg.PathTo(d, parent))
					} else {
						c.Violated("R1", "pop-from "+FuncKey(root)+" → "+FuncKey(d), p.Pos(root.Pos()), "queue pop reachable from "+name+" context: "+cg.PathTo(d, parent))
					}
				}
			}
		}
	}

	// R2
	c.popShape(bd, []string{"Deposits", "PaidWithdrawals", "RejectedWithdrawals"}, map[string]int64{"Deposits": 8, "PaidWithdrawals": 8, "RejectedWithdrawals": 8}, nil)
	c.popShape(ld, []string{"Rewards", "Unlocks"}, map[string]int64{"Rewards": 16, "Unlocks": 16}, nil)
	// hash cursor
	{
		r := p.R(bd)
		var st *ssa.Store
		for _, b := range bd.Blocks {
			for _, in := range b.Instrs {
				if s, ok := in.(*ssa.Store); ok && r.E(s.Addr) == "EthTxQueue.Get()#0.BlockNumber" {
					st = s
				}
			}
		}
		if st == nil || r.E(st.Val) != "(1 + EthTxQueue.Get()#0.BlockNumber)" {
			c.Violated("R2", "hash-cursor @ "+FuncKey(bd), p.Pos(bd.Pos()), "the block-hash cursor is not advanced by exactly one reason=not-established")
		} else {
			c.RequireFact(bd, "R2", "hash-cursor-below-tip", lit("(EthTxQueue.Get()#0.BlockNumber < BlockTip.Peek()#0)"), instrSet([]ssa.Instruction{st}), "cursor advance")
			calls := p.FindCalls(bd, `^bitcoin/types\.NewBitcoinHashEthTx\(`)
			if len(calls) == 1 && p.argStr(calls[0], 1) == "BlockHashes.Get((1 + EthTxQueue.Get()#0.BlockNumber))#0" && instrDominates(st, calls[0]) {
				c.Held("R2", "hash-at-new-cursor @ "+FuncKey(bd), p.InstrPos(calls[0]), "emits the hash stored at cursor+1, once, after advancing the cursor")
				// every cursor advance is followed by the emit on all non-failing paths
				ps := &PathSearch{Fn: bd, From: st, AvoidInstr: instrSet([]ssa.Instruction{calls[0]}), IsTarget: successTargets(bd)}
				if t, path := ps.Find(); t != nil {
					c.Violated("R2", "hash-emitted-when-cursor-advances @ "+FuncKey(bd), p.InstrPos(t), "cursor advanced without handing the hash over", p.describePath(path)...)
				} else {
					c.Held("R2", "hash-emitted-when-cursor-advances @ "+FuncKey(bd), p.InstrPos(st), "")
				}
			} else {
				c.Violated("R2", "hash-at-new-cursor @ "+FuncKey(bd), p.Pos(bd.Pos()), "hash tx is not built from BlockHashes[cursor+1] reason=not-established")
			}
		}
	}

	// R3
	nb := p.MustFn("x/bitcoin/keeper.msgServer.NewBlockHashes")
	c.RequireFact(nb, "R3", "start=tip+1", lit(EQ("$2.StartBlockNumber", "(1 + BlockTip.Peek()#0)")), nil, "")
	{
		var hs, ts *ssa.Call
		for _, s := range p.StoreSites(nb) {
			if s.Field.Name() == "BlockHashes" && s.Method == "Set" {
				hs = s.Call.(*ssa.Call)
			}
			if s.Field.Name() == "BlockTip" && s.Method == "Set" {
				ts = s.Call.(*ssa.Call)
			}
		}
		ok := false
		if hs != nil && ts != nil {
			sa, sb := storeAccess(&hs.Call), storeAccess(&ts.Call)
			ph, isPhi := sb.Args[0].(*ssa.Phi)
			if isPhi && incOf(sa.Args[0]) == ssa.Value(ph) {
				okEdges := 0
				for _, e := range ph.Edges {
					if e == sa.Args[0] || p.R(nb).E(e) == "BlockTip.Peek()#0" {
						okEdges++
					}
				}
				ok = okEdges == len(ph.Edges) && p.R(nb).E(sa.Args[1]) == "$2.BlockHash[φ{(1 + @)|0}]"
			}
		}
		if ok {
			c.Held("R3", "consecutive-heights @ "+FuncKey(nb), p.InstrPos(hs), "BlockHashes.Set(h+1, hash[i]) with h = tip, tip+1, …; BlockTip.Set(last h)")
			c.RequireFact(nb, "R3", "tip-stored", `^\(BlockTip\.Set\(.*\) == nil\)$`, nil, "")
			c.RequireFact(nb, "R3", "all-hashes-visited", lit("(len($2.BlockHash) <= φ{(1 + @)|0})"), nil, "")
		} else {
			c.Violated("R3", "consecutive-heights @ "+FuncKey(nb), p.Pos(nb.Pos()), "hashes are not stored at tip+1, tip+2, … with the tip set to the last height reason=not-established")
		}
	}
	c.checkWriters("R3", "x/bitcoin/keeper", "BlockHashes", map[string]string{"x/bitcoin/keeper.msgServer.NewBlockHashes": "Set", "x/bitcoin/module.InitGenesis": "Set"}, 2)
	c.checkWriters("R3", "x/bitcoin/keeper", "BlockTip", map[string]string{"x/bitcoin/keeper.msgServer.NewBlockHashes": "Set", "x/bitcoin/module.InitGenesis": "Set"}, 2)
	c.checkWriters("R5", "x/bitcoin/keeper", "EthTxNonce", map[string]string{"x/bitcoin/keeper.Keeper.DequeueBitcoinModuleTx": "Set", "x/bitcoin/module.InitGenesis": "Set"}, 2)
	c.checkWriters("R5", "x/locking/keeper", "EthTxNonce", map[string]string{"x/locking/keeper.Keeper.DequeueLockingModuleTx": "Set", "x/locking/module.InitGenesis": "Set"}, 2)
	c.checkWriters("R5", "x/bitcoin/keeper", "EthTxQueue", map[string]string{
		"x/bitcoin/keeper.msgServer.NewDeposits": "Set", "x/bitcoin/keeper.msgServer.FinalizeWithdrawal": "Set", "x/bitcoin/keeper.msgServer.ApproveCancellation": "Set",
		"x/bitcoin/keeper.Keeper.ProcessBridgeRequest": "Set", "x/bitcoin/keeper.Keeper.DequeueBitcoinModuleTx": "Set", "x/bitcoin/module.InitGenesis": "Set"}, 6)
	c.checkWriters("R5", "x/locking/keeper", "EthTxQueue", map[string]string{
		"x/locking/keeper.Keeper.Claim": "Set", "x/locking/keeper.Keeper.DequeueMatureUnlocks": "Set", "x/locking/keeper.Keeper.DequeueLockingModuleTx": "Set", "x/locking/module.InitGenesis": "Set"}, 4)
	// R5 tail appends
	for _, q := range []struct{ pkg, deq string }{{"x/bitcoin/types", FuncKey(bd)}, {"x/locking/types", FuncKey(ld)}} {
		qt := p.LookupType(q.pkg, "EthTxQueue")
		st := qt.Underlying()
		_ = st
		for _, f := range []string{"Deposits", "PaidWithdrawals", "RejectedWithdrawals", "Rewards", "Unlocks"} {
			for _, fs := range p.FieldStores(qt, f) {
				k := FuncKey(fs.Fn)
				if k == q.deq || strings.Contains(k, "/types.") {
					continue
				}
				v := concatAsAppend(p.R(fs.Fn).E(fs.Store.Val))
				if addr := p.R(fs.Fn).E(fs.Store.Addr); v == addr || regexp.MustCompile(`^mix\{[^}]*\}$`).MatchString(v) && strings.Contains(v, addr) && !strings.Contains(v, "[") {
					c.Held("R5", "tail-append "+f+" @ "+k, p.InstrPos(fs.Store), "the list is stored back unchanged (capacity adjustment)")
				} else if regexp.MustCompile(`^append\((mix\{[^}]*\}|[^,]*\.` + f + `), `).MatchString(v) {
					c.Held("R5", "tail-append "+f+" @ "+k, p.InstrPos(fs.Store), "")
				} else {
					c.Violated("R5", "tail-append "+f+" @ "+k, p.InstrPos(fs.Store), "queue list written other than by appending at the tail: "+v)
				}
			}
		}
	}

	// R4 VerifyDequeue
	c.RequireFact(vdq, "R4", "extra-length", lit("(33 == len($2))"), nil, "")
	c.RequireFact(vdq, "R4", "count<=len(txs)", patLE("$2[0]", "len($3)"), nil, "")
	c.RequireFact(vdq, "R4", "btc-dequeue-ok", lit("(BitcoinKeeper.DequeueBitcoinModuleTx()#1 == nil)"), nil, "")
	c.RequireFact(vdq, "R4", "locking-dequeue-ok", lit("(LockingKeeper.DequeueLockingModuleTx()#1 == nil)"), nil, "")
	btc := "BitcoinKeeper.DequeueBitcoinModuleTx()#0"
	lck := "LockingKeeper.DequeueLockingModuleTx()#0"
	i := "φ{(1 + @)|0}"
	c.RequireFact(vdq, "R4", "all-btc-visited", lit("(len("+btc+") <= "+i+")"), nil, "")
	c.RequireFact(vdq, "R4", "all-locking-visited", lit("(len("+lck+") <= "+i+")"), nil, "")
	// every compared element passes the byte-equality edge before the loop moves on (the loop may live in a helper
	// that is handed the list and the slice to compare with)
	c.eachIterationEstablishes(vdq, "R4", "btc-bytes-equal", "(len("+btc+") <= "+i+")", lit("bytes.Equal(Transaction.MarshalBinary("+btc+"["+i+"])#0, $3["+i+"])"))
	c.eachIterationEstablishes(vdq, "R4", "locking-bytes-equal", "(len("+lck+") <= "+i+")", lit("bytes.Equal(Transaction.MarshalBinary("+lck+"["+i+"])#0, $3[len("+btc+"):]["+i+"])"))
	// the declared count equals the number of due txs: counted down once per compared element to zero, or compared
	// with the sum of the two list lengths
	var decs []ssa.Instruction
	for _, b := range vdq.Blocks {
		for _, in := range b.Instrs {
			if bo, ok := in.(*ssa.BinOp); ok && bo.Op == token.SUB && isConstInt(bo.Y, 1) {
				decs = append(decs, in)
			}
		}
	}
	sort.Slice(decs, func(a, b int) bool { return decs[a].Pos() < decs[b].Pos() })
	sum := `\(\$2\[0\] == \(len\(` + regexp.QuoteMeta(btc) + `\) \+ len\(` + regexp.QuoteMeta(lck) + `\)\)\)|\(\(len\(` + regexp.QuoteMeta(btc) + `\) \+ len\(` + regexp.QuoteMeta(lck) + `\)\) == \$2\[0\]\)|\(\$2\[0\] == \(len\(` + regexp.QuoteMeta(lck) + `\) \+ len\(` + regexp.QuoteMeta(btc) + `\)\)\)|\(\(len\(` + regexp.QuoteMeta(lck) + `\) \+ len\(` + regexp.QuoteMeta(btc) + `\)\) == \$2\[0\]\)`
	switch {
	case len(decs) == 2:
		okD := true
		for k, d := range decs {
			if skip, path := loopIterationCanSkip(vdq, d); skip {
				okD = false
				c.Violated("R4", fmt.Sprintf("count-decrement#%d-every-iteration @ %s", k, FuncKey(vdq)), p.InstrPos(d), "a compared element is not counted", p.describePath(path)...)
			}
		}
		if okD {
			c.Held("R4", "count-decrements @ "+FuncKey(vdq), p.InstrPos(decs[0]), "one decrement per compared element of each list")
		}
		c.RequireFact(vdq, "R4", "count-reaches-zero", lit(EQ("0", "φ{$2[0]|(@ - 1)}")), nil, "")
	case len(p.MatchEdges(vdq, regexp.MustCompile("^("+sum+")$"))) > 0:
		c.RequireFact(vdq, "R4", "count-equals-due", "^("+sum+")$", nil, "")
	default:
		c.Violated("R4", "count-decrements @ "+FuncKey(vdq), p.Pos(vdq.Pos()), fmt.Sprintf("%d count decrements and no comparison of the declared count with the number of due txs reason=not-established", len(decs)))
	}
	// order agreement with Dequeue: bitcoin first, then locking, in both
	for _, f := range []*ssa.Function{dq, vdq} {
		b := p.FindCalls(f, `^BitcoinKeeper\.DequeueBitcoinModuleTx\(`)
		l := p.FindCalls(f, `^LockingKeeper\.DequeueLockingModuleTx\(`)
		if len(b) == 1 && len(l) == 1 && instrDominates(b[0], l[0]) {
			c.Held("R4", "order bitcoin→locking @ "+FuncKey(f), p.InstrPos(b[0]), "")
		} else {
			c.Violated("R4", "order bitcoin→locking @ "+FuncKey(f), p.Pos(f.Pos()), "the two module queues are not popped once each in the order bitcoin, locking")
		}
	}
	// "the ones due at that point": the finalising handler compares the payload's system txs with the queues as they
	// were when the payload was built and voted on, i.e. before this payload's own requests append to them
	{
		neb := p.MustFn("x/goat/keeper.msgServer.NewEthBlock")
		procs := p.FindCalls(neb, `^(LockingKeeper|BitcoinKeeper|RelayerKeeper)\.Process\w+Request\(`)
		if len(procs) == 0 {
			c.Violated("R4", "dequeue-verified-before-requests @ "+FuncKey(neb), p.Pos(neb.Pos()), "request processors not found reason=not-established")
		} else {
			c.RequireFact(neb, "R4", "dequeue-verified-before-requests", `^\(Keeper\.VerifyDequeue\(.*\) == nil\)$`, instrSet(callInstrs(procs)), "processing the payload's requests (which append to the queues)")
		}
	}
	// Dequeue returns btc txs then locking txs, each marshalled in order
	{
		c.touch(dq)
		r := p.R(dq)
		// order is a property of the append chain, not of the text of a φ (whose alternatives are sorted): the appends
		// of marshalled locking txs extend a slice that already went through the appends of the btc txs, never the
		// other way round, and the result returned is at the end of that chain
		var appB, appL []*ssa.Call
		for _, ci := range callsIn(dq) {
			call, ok := ci.(*ssa.Call)
			if !ok {
				continue
			}
			if bi, ok := call.Call.Value.(*ssa.Builtin); !ok || bi.Name() != "append" || len(call.Call.Args) != 2 {
				continue
			}
			el := r.E(call.Call.Args[1])
			switch {
			case strings.Contains(el, "Transaction.MarshalBinary("+btc+"["+i+"])#0"):
				appB = append(appB, call)
			case strings.Contains(el, "Transaction.MarshalBinary("+lck+"["+i+"])#0"):
				appL = append(appL, call)
			}
		}
		// derives(v, target): v is target, or a φ / append whose base derives from it
		var derives func(v ssa.Value, target *ssa.Call, seen map[ssa.Value]bool) bool
		derives = func(v ssa.Value, target *ssa.Call, seen map[ssa.Value]bool) bool {
			if v == ssa.Value(target) {
				return true
			}
			if seen[v] {
				return false
			}
			seen[v] = true
			switch x := v.(type) {
			case *ssa.Phi:
				for _, e := range x.Edges {
					if derives(e, target, seen) {
						return true
					}
				}
			case *ssa.Call:
				if bi, ok := x.Call.Value.(*ssa.Builtin); ok && bi.Name() == "append" && len(x.Call.Args) > 0 {
					return derives(x.Call.Args[0], target, seen)
				}
			}
			return false
		}
		ok := len(appB) == 1 && len(appL) == 1
		why := fmt.Sprintf("%d appends of marshalled btc txs and %d of locking txs (expected one each)", len(appB), len(appL))
		if ok {
			switch {
			case !derives(appL[0].Call.Args[0], appB[0], map[ssa.Value]bool{}):
				ok, why = false, "the locking txs are not appended to the slice that holds the btc txs"
			case derives(appB[0].Call.Args[0], appL[0], map[ssa.Value]bool{}):
				ok, why = false, "a btc tx can be appended after a locking tx"
			}
		}
		if ok {
			for _, e := range Exits(dq) {
				if e.Kind == exitFailure {
					continue
				}
				if !derives(e.Ret.Results[0], appL[0], map[ssa.Value]bool{}) {
					ok, why = false, "the result returned is not the slice the locking txs were appended to: "+r.E(e.Ret.Results[0])
				}
			}
		}
		if ok {
			c.Held("R4", "dequeue-result @ "+FuncKey(dq), p.Pos(dq.Pos()), "append(append(res, marshal(btc[i])…), marshal(locking[i])…)")
		} else {
			c.Violated("R4", "dequeue-result @ "+FuncKey(dq), p.Pos(dq.Pos()), "result is not btc txs followed by locking txs: "+why)
		}
	}
	// NewEthBlock verifies before processing
	neb := p.MustFn("x/goat/keeper.msgServer.NewEthBlock")
	c.RequireFact(neb, "R4", "finalised-payload-verified", lit("(Keeper.VerifyDequeue($2.Payload.ExtraData, $2.Payload.Transactions) == nil)"), nil, "")
}

// intUpperBound: a constant upper bound of an int expression built from constants, len, min and
// subtraction of non-negative terms (enough for "remaining quota" expressions).
func intUpperBound(v ssa.Value) (int64, bool) {
	switch x := v.(type) {
	case *ssa.Const:
		if x.Value == nil {
			return 0, false
		}
		return constant.Int64Val(constant.ToInt(x.Value))
	case *ssa.Call:
		if b, ok := x.Call.Value.(*ssa.Builtin); ok && b.Name() == "min" {
			best, have := int64(0), false
			for _, a := range x.Call.Args {
				if ub, ok := intUpperBound(a); ok && (!have || ub < best) {
					best, have = ub, true
				}
			}
			return best, have
		}
		if b, ok := x.Call.Value.(*ssa.Builtin); ok && b.Name() == "max" {
			// max(a, b, …) is bounded when every operand is
			best := int64(0)
			for i, a := range x.Call.Args {
				ub, ok := intUpperBound(a)
				if !ok {
					return 0, false
				}
				if i == 0 || ub > best {
					best = ub
				}
			}
			return best, len(x.Call.Args) > 0
		}
	case *ssa.BinOp:
		if x.Op == token.SUB {
			if ub, ok := intUpperBound(x.X); ok && intNonNegative(x.Y) {
				return ub, true
			}
		}
	case *ssa.Convert:
		return intUpperBound(x.X)
	}
	return 0, false
}

func intNonNegative(v ssa.Value) bool {
	switch x := v.(type) {
	case *ssa.Const:
		n, ok := constant.Int64Val(constant.ToInt(x.Value))
		return ok && n >= 0
	case *ssa.Call:
		if b, ok := x.Call.Value.(*ssa.Builtin); ok {
			switch b.Name() {
			case "len", "cap":
				return true
			case "min":
				for _, a := range x.Call.Args {
					if !intNonNegative(a) {
						return false
					}
				}
				return true
			}
		}
	}
	return false
}


// eachIterationEstablishes: the loop whose exit edge carries exitFact — in fn itself or in a transparent helper fn
// calls, seen with its parameters bound to the arguments of that call — takes an edge matching bodyPattern on every
// path from the loop body back to the loop header.
func (c *Check) eachIterationEstablishes(fn *ssa.Function, rule, name, exitFact, bodyPattern string) {
	p := c.p
	re := regexp.MustCompile(bodyPattern)
	ctxs := []fctx{{fn: fn, r: p.R(fn)}}
	for _, ci := range callsIn(fn) {
		g := ci.Common().StaticCallee()
		if g == nil || !p.transparentHelper(g) {
			continue
		}
		r := p.R(fn)
		bind := make([]string, len(ci.Common().Args))
		for i, a := range ci.Common().Args {
			bind[i] = r.E(a)
		}
		ctxs = append(ctxs, fctx{fn: g, r: p.RBound(g, bind, 1), call: ci, parent: fn})
	}
	construct := name + " @ " + FuncKey(fn)
	for _, x := range ctxs {
		facts := p.edgeFactsWith(x.fn, x.r)
		for _, ef := range facts {
			if ef.Fact != exitFact || ef.Pred != nil {
				continue
			}
			c.touch(x.fn)
			H := ef.Block
			avoid := map[edgeKey]bool{{b: H, i: ef.Idx}: true}
			for _, bf := range facts {
				if bf.Pred == nil && bf.Fact != infeasible && re.MatchString(bf.Fact) {
					avoid[edgeKey{b: bf.Block, i: bf.Idx}] = true
				}
			}
			// block search from the body back to the header
			seen := map[*ssa.BasicBlock]bool{}
			var path []*ssa.BasicBlock
			var walk func(b *ssa.BasicBlock) bool
			walk = func(b *ssa.BasicBlock) bool {
				if b == H {
					path = append(path, b)
					return true
				}
				if seen[b] {
					return false
				}
				seen[b] = true
				for i, s := range b.Succs {
					if avoid[edgeKey{b: b, i: i}] {
						continue
					}
					if walk(s) {
						path = append(path, b)
						return true
					}
				}
				return false
			}
			where := ""
			if x.call != nil {
				where = " (in helper " + FuncKey(x.fn) + ")"
			}
			if walk(H.Succs[1-ef.Idx]) {
				for l, r := 0, len(path)-1; l < r; l, r = l+1, r-1 {
					path[l], path[r] = path[r], path[l]
				}
				c.Violated(rule, construct, p.InstrPos(H.Instrs[len(H.Instrs)-1]), "an iteration can go on to the next element without establishing /"+bodyPattern+"/"+where, p.describePath(path)...)
			} else {
				c.Held(rule, construct, p.InstrPos(H.Instrs[len(H.Instrs)-1]), "every iteration passes the fact before the next one"+where)
			}
			return
		}
	}
	c.Violated(rule, construct, p.Pos(fn.Pos()), "no loop with exit condition "+exitFact+" found reason=not-established")
}
