package main

import (
	"fmt"
	"go/constant"
	"go/types"
	"regexp"
	"sort"
	"strconv"
	"strings"

	"golang.org/x/tools/go/ssa"
)

func init() {
	register("C03", propC03)
	register("C04", propC04)
	register("C20", propC20)
}

// FieldStore: a store to field F of a value of named struct type T.
type FieldStore struct {
	Fn    *ssa.Function
	Store *ssa.Store
}

func (p *Prog) FieldStores(structT *types.Named, field string) []FieldStore {
	var out []FieldStore
	for _, f := range p.ProdFuncs {
		if p.isGenerated(f) {
			continue
		}
		for _, b := range f.Blocks {
			for _, in := range b.Instrs {
				st, ok := in.(*ssa.Store)
				if !ok {
					continue
				}
				fa, ok := st.Addr.(*ssa.FieldAddr)
				if !ok {
					continue
				}
				if nt := namedOf(fa.X.Type()); nt == nil || nt.Obj() != structT.Obj() || fieldName(fa.X.Type(), fa.Field) != field {
					continue
				}
				out = append(out, FieldStore{f, st})
			}
		}
	}
	return out
}

// writersOf lists (function key → sites) writing keeper collection `field` of module pkgRel.
func (p *Prog) writersOf(pkgRel, field string) map[string][]StoreSite {
	out := map[string][]StoreSite{}
	for _, f := range p.ProdFuncs {
		for _, s := range p.StoreSites(f) {
			if s.IsWrite() && s.Field.Name() == field && s.Field.Pkg() != nil && relPkg(s.Field.Pkg().Path()) == pkgRel {
				out[FuncKey(rootOf(f))] = append(out[FuncKey(rootOf(f))], s)
			}
		}
	}
	return out
}

// ownersOf: the functions of the allowed table on whose behalf fn writes. A write inside an
// unexported helper is attributed to its callers (transitively) as long as every call chain
// ends in an allowed function; an exported function or a function nobody calls must be allowed itself.
func (p *Prog) ownersOf(fn *ssa.Function, allowed func(key string) bool) (owners []string, offender string) {
	cg := p.CG()
	seen := map[*ssa.Function]bool{}
	own := map[string]bool{}
	var walk func(f *ssa.Function) string
	walk = func(f *ssa.Function) string {
		root := rootOf(f)
		key := FuncKey(root)
		if allowed(key) {
			own[key] = true
			return ""
		}
		if seen[root] {
			return ""
		}
		seen[root] = true
		exported := root.Object() != nil && root.Object().Exported()
		callers := cg.Callers(root)
		// callers that are the function's own closures do not count
		var real []*ssa.Function
		for _, cl := range callers {
			if rootOf(cl) != root {
				real = append(real, cl)
			}
		}
		if exported || len(real) == 0 {
			return key
		}
		for _, cl := range real {
			if off := walk(cl); off != "" {
				return off
			}
		}
		return ""
	}
	off := walk(fn)
	for k := range own {
		owners = append(owners, k)
	}
	sort.Strings(owners)
	return owners, off
}

// checkWriters compares the writers of a collection with the allowed set (function key → allowed methods).
func (c *Check) checkWriters(rule, pkgRel, field string, allowed map[string]string, floor int) {
	p := c.p
	n := 0
	ownersSeen := map[string]bool{}
	for _, f := range p.ProdFuncs {
		for _, s := range p.StoreSites(f) {
			if !s.IsWrite() || s.Field.Name() != field || s.Field.Pkg() == nil || relPkg(s.Field.Pkg().Path()) != pkgRel {
				continue
			}
			n++
			c.Counters["call_sites"]++
			fn := FuncKey(rootOf(f))
			owners, off := p.ownersOf(f, func(k string) bool {
				ms, ok := allowed[k]
				return ok && strings.Contains(","+ms+",", ","+s.Method+",")
			})
			if off != "" {
				c.Violated(rule, field+"-writer "+off, p.InstrPos(s.Call), "unexpected writer: "+pkgRel+" "+field+"."+s.Method+" in "+fn+" (reached from "+off+")")
				continue
			}
			for _, o := range owners {
				ownersSeen[o] = true
			}
			via := ""
			if len(owners) != 1 || owners[0] != fn {
				via = " (helper " + fn + ")"
			}
			c.Held(rule, field+"-writer "+strings.Join(owners, "+")+via, p.InstrPos(s.Call), field+"."+s.Method)
		}
	}
	if floor > len(allowed) {
		floor = len(allowed)
	}
	c.Floor(rule, field+" writers (distinct allowed owners)", len(ownersSeen), min(floor, len(allowed)))
	_ = n
}

// checkFieldWriters: stores to field F of struct T happen only on behalf of the allowed functions.
func (c *Check) checkFieldWriters(rule string, structT *types.Named, field, what string, allowed map[string]bool, floor int) {
	p := c.p
	ownersSeen := map[string]bool{}
	for _, fs := range p.FieldStores(structT, field) {
		k := FuncKey(rootOf(fs.Fn))
		if strings.HasPrefix(k, "cmd/") {
			continue
		}
		owners, off := p.ownersOf(fs.Fn, func(key string) bool { return allowed[key] })
		if off != "" {
			c.Violated(rule, what+"-writer "+off, p.InstrPos(fs.Store), what+" written outside the allowed functions (in "+k+", reached from "+off+")")
			continue
		}
		for _, o := range owners {
			ownersSeen[o] = true
		}
		c.Held(rule, what+"-writer "+strings.Join(owners, "+"), p.InstrPos(fs.Store), "")
	}
	c.Floor(rule, what+" writers (distinct allowed owners)", len(ownersSeen), floor)
}

const txidExpr = "crypto.DoubleSHA256Sum($3.NoWitnessTx)"
const txOutExpr = "new(wire.MsgTx)#0.TxOut[$3.OutputIndex]"

func propC03(c *Check) {
	p := c.p
	c.Rule("R1", "VerifyDeposit: registered key, voted hash lookup, coinbase maturity (tip >= height+100 when TxIndex==0), 80-byte header whose double-SHA256 equals the voted hash, fully consumed decode, duplicate check, minimum amount, version-dispatched script check (v1: output index 0), SPV — each on every path to the success exit")
	c.Rule("R2", "same-object provenance: one txid = DoubleSHA256(NoWitnessTx) is used for the duplicate key, the SPV leaf and the receipt; header hashed = headers[BlockNumber], root = bytes 36..68 of that header; script checked = TxOut[OutputIndex] of the decoded tx; EVM address checked = address credited")
	c.Rule("R3", "mark-before-next: inside the batch loop Deposited.Set(Join(receipt.Txid, receipt.Txout)) succeeds between one VerifyDeposit and the next VerifyDeposit / the success exit")
	c.Rule("R4", "64-byte ambiguity: MinDepositTxSize and MinBtcTxSize exceed 64, Validate enforces them, and Validate precedes verification")
	c.Rule("R5", "tax shape: tax = value/10000*rate (divide first), capped by MaxDepositTax when > 0, only when rate > 0 and value > 10000; receipt Amount = value - tax, Tax = tax; Deposited stores Amount + Tax")

	vd := p.MustFn("x/bitcoin/keeper.Keeper.VerifyDeposit")
	hdr := "$2[$3.BlockNumber]"
	req := func(name, pat string) { c.RequireFact(vd, "R1", name, pat, nil, "") }
	req("registered-key", lit("RelayerKeeper.HasPubkey(relayer/types.EncodePublicKey($3.RelayerPubkey))#0"))
	req("voted-hash-lookup", lit("(BlockHashes.Get($3.BlockNumber)#1 == nil)"))
	req("coinbase-maturity", `^\(\$3\.TxIndex != 0\)$|^\(\(\$3\.BlockNumber \+ 100\) <=? BlockTip\.Peek\(\)#0\)$`)
	req("header-length", lit("(80 == len("+hdr+"))"))
	req("header-hash", lit("bytes.Equal(BlockHashes.Get($3.BlockNumber)#0, crypto.DoubleSHA256Sum("+hdr+"))"))
	req("decode", lit("(MsgTx.DeserializeNoWitness(new(wire.MsgTx)#0, bytes.NewReader($3.NoWitnessTx)) == nil)"))
	req("decode-consumes-all", `^\(Reader\.Len\(bytes\.NewReader\(\$3\.NoWitnessTx\)\) (<=|==) 0\)$`)
	req("duplicate", lit("!Deposited.Has(collections.Join("+txidExpr+", $3.OutputIndex))#0"))
	req("min-amount", `^\(Params\.Get\(\)#0\.MinDepositAmount <=? `+regexp.QuoteMeta(txOutExpr)+`\.Value\)$`)
	v0 := "(bitcoin/types.VerifyDespositScriptV0($3.RelayerPubkey, $3.EvmAddress, " + txOutExpr + ".PkScript) == nil)"
	v1 := "(bitcoin/types.VerifyDespositScriptV1($3.RelayerPubkey, Params.Get()#0.DepositMagicPrefix, $3.EvmAddress, " + txOutExpr + ".PkScript, new(wire.MsgTx)#0.TxOut[1].PkScript) == nil)"
	req("script-check", lit(v0)+"|"+lit(v1))
	req("spv", lit("bitcoin/types.VerifyMerkelProof("+txidExpr+", "+hdr+"[36:68], $3.IntermediateProof, $3.TxIndex)"))
	// v0 only for version 0, v1 only for version 1 with output index 0
	if calls := p.FindCalls(vd, `^bitcoin/types\.VerifyDespositScriptV1\(`); len(calls) > 0 {
		var t []ssa.Instruction
		for _, ci := range calls {
			t = append(t, ci)
		}
		c.RequireFact(vd, "R1", "v1-version", lit("($3.Version == 1)"), instrSet(t), "v1 script check")
		c.RequireFact(vd, "R1", "v1-output-index-0", lit("($3.OutputIndex == 0)"), instrSet(t), "v1 script check")
	} else {
		c.Violated("R1", "v1-script-call @ "+FuncKey(vd), p.Pos(vd.Pos()), "no VerifyDespositScriptV1 call reason=not-established")
	}
	if calls := p.FindCalls(vd, `^bitcoin/types\.VerifyDespositScriptV0\(`); len(calls) > 0 {
		var t []ssa.Instruction
		for _, ci := range calls {
			t = append(t, ci)
		}
		c.RequireFact(vd, "R1", "v0-version", lit("($3.Version == 0)"), instrSet(t), "v0 script check")
	} else {
		c.Violated("R1", "v0-script-call @ "+FuncKey(vd), p.Pos(vd.Pos()), "no VerifyDespositScriptV0 call reason=not-established")
	}

	// R2/R5 receipt fields
	rt := p.LookupType("x/bitcoin/types", "DepositExecReceipt")
	val := txOutExpr + ".Value"
	taxInner := "φ{((" + val + " / 10000) * Params.Get()#0.DepositTaxRate)|Params.Get()#0.MaxDepositTax}"
	want := map[string]string{
		"Address": "$3.EvmAddress",
		"Txid":    txidExpr,
		"Txout":   "$3.OutputIndex",
		"Amount":  "φ{(" + val + " - " + taxInner + ")|" + val + "}",
		"Tax":     "φ{((" + val + " / 10000) * Params.Get()#0.DepositTaxRate)|0|Params.Get()#0.MaxDepositTax}",
	}
	r := p.R(vd)
	got := map[string]string{}
	for _, fs := range p.FieldStores(rt, "Address") {
		_ = fs
	}
	for _, b := range vd.Blocks {
		for _, in := range b.Instrs {
			st, ok := in.(*ssa.Store)
			if !ok {
				continue
			}
			fa, ok := st.Addr.(*ssa.FieldAddr)
			if !ok {
				continue
			}
			if nt := namedOf(fa.X.Type()); nt != nil && nt.Obj() == rt.Obj() {
				got[fieldName(fa.X.Type(), fa.Field)] = r.E(st.Val)
			}
		}
	}
	for _, f := range []string{"Address", "Txid", "Txout"} {
		if got[f] == want[f] {
			c.Held("R2", "receipt."+f+" @ "+FuncKey(vd), p.Pos(vd.Pos()), got[f])
		} else {
			c.Violated("R2", "receipt."+f+" @ "+FuncKey(vd), p.Pos(vd.Pos()), "receipt field is "+got[f]+", expected "+want[f]+" reason=not-established")
		}
	}
	// the capped tax may be written with the min builtin: min(tax, cap) selects the same two values as
	// `if tax > cap { tax = cap }` (the selection itself is checked below)
	taxCalc0 := "((" + val + " / 10000) * Params.Get()#0.DepositTaxRate)"
	minForms := []string{"min(" + taxCalc0 + ", Params.Get()#0.MaxDepositTax)", "min(Params.Get()#0.MaxDepositTax, " + taxCalc0 + ")"}
	usesMin := false
	for _, f := range []string{"Amount", "Tax"} {
		for _, mf := range minForms {
			if strings.Contains(got[f], mf) {
				usesMin = true
				got[f] = strings.ReplaceAll(got[f], mf, "Params.Get()#0.MaxDepositTax")
			}
		}
	}
	// the amount may also be `value - tax` unconditionally, with tax = 0 where no tax applies
	unconditional := got["Amount"] == "("+val+" - "+want["Tax"]+")"
	if unconditional {
		want["Amount"] = got["Amount"]
	}
	for _, f := range []string{"Amount", "Tax"} {
		if got[f] == want[f] {
			c.Held("R5", "receipt."+f+" @ "+FuncKey(vd), p.Pos(vd.Pos()), got[f])
		} else {
			c.Violated("R5", "receipt."+f+" @ "+FuncKey(vd), p.Pos(vd.Pos()), "receipt field is "+got[f]+", expected "+want[f]+" reason=not-established")
		}
	}
	// tax applied only when value > 10000; the cap replaces the tax only under MaxDepositTax > 0 && tax > cap.
	// The arithmetic may live in VerifyDeposit or in a private helper it calls (seen in the caller's terms).
	taxCalc := "((" + val + " / 10000) * Params.Get()#0.DepositTaxRate)"
	foundSub, capOK := false, false
	for _, x := range p.helperContexts(vd) {
		for _, b := range x.fn.Blocks {
			for _, in := range b.Instrs {
				switch v := in.(type) {
				case *ssa.BinOp:
					if x.r.E(v) == "("+val+" - "+taxInner+")" {
						foundSub = true
						c.requireFactCtx(x, "R5", "tax-needs-value>10000", lit("(10000 < "+val+")"), instrSet([]ssa.Instruction{in}), "tax subtraction")
					}
					// unconditional subtraction of a tax that is 0 unless value > 10000: the non-zero tax is computed
					// only under that guard
					if unconditional && x.r.E(v) == taxCalc {
						foundSub = true
						c.requireFactCtx(x, "R5", "tax-needs-value>10000", lit("(10000 < "+val+")"), instrSet([]ssa.Instruction{in}), "tax computation")
					}
				case *ssa.Call:
					// tax = min(tax, cap): the builtin selects the smaller one; it must only be applied under cap > 0
					if bi, ok := v.Call.Value.(*ssa.Builtin); ok && usesMin && bi.Name() == "min" && len(v.Call.Args) == 2 {
						a0, a1 := x.r.E(v.Call.Args[0]), x.r.E(v.Call.Args[1])
						if (a0 == taxCalc && a1 == "Params.Get()#0.MaxDepositTax") || (a1 == taxCalc && a0 == "Params.Get()#0.MaxDepositTax") {
							capOK = c.requireFactCtx(x, "R5", "cap-needs-cap>0", patPositive("Params.Get()#0.MaxDepositTax"), instrSet([]ssa.Instruction{in}), "cap application")
							foundSub = foundSub || strings.Contains(got["Amount"], "("+val+" - ")
						}
					}
				case *ssa.Phi:
					if x.r.E(v) != taxInner && !usesMin {
						continue
					}
					if x.r.E(v) != taxInner {
						continue
					}
					for i, e := range v.Edges {
						if x.r.E(e) != "Params.Get()#0.MaxDepositTax" {
							continue
						}
						pred := b.Preds[i]
						t := pred.Instrs[len(pred.Instrs)-1]
						ok1 := c.requireFactCtx(x, "R5", "cap-needs-cap>0", patPositive("Params.Get()#0.MaxDepositTax"), instrSet([]ssa.Instruction{t}), "cap application")
						ok2 := c.requireFactCtx(x, "R5", "cap-needs-tax>cap", lit("(Params.Get()#0.MaxDepositTax < "+taxCalc+")"), instrSet([]ssa.Instruction{t}), "cap application")
						capOK = ok1 && ok2
					}
				}
			}
		}
	}
	if !foundSub {
		c.Violated("R5", "tax-subtraction @ "+FuncKey(vd), p.Pos(vd.Pos()), "value - tax not found reason=not-established")
	}
	if !capOK {
		c.Violated("R5", "cap-shape @ "+FuncKey(vd), p.Pos(vd.Pos()), "min(cap, tax) selection not established reason=not-established")
	}
	// "always smaller than the value" needs rate < 10000 in every parameter setting the module accepts: the
	// execution-layer updates (C20/R1) and the settings accepted at genesis (Params.Validate, run by InitGenesis)
	pv := p.MustFn("x/bitcoin/types.Params.Validate")
	c.RequireFact(pv, "R5", "accepted-rate-below-100%", lit(EQ("0", "$0.DepositTaxRate"))+"|"+patLT("$0.DepositTaxRate", "10000"), nil, "")
	c.Depend("R5", "C20", propC20, map[string]bool{"R1": true}, "a tax rate update of 100% or more would let the tax reach the deposit value")

	// R3 in NewDeposits
	nd := p.MustFn("x/bitcoin/keeper.msgServer.NewDeposits")
	c.touch(nd)
	vcalls := p.FindCalls(nd, `^Keeper\.VerifyDeposit\(`)
	if len(vcalls) != 1 {
		c.Violated("R3", "one-VerifyDeposit-call @ "+FuncKey(nd), p.Pos(nd.Pos()), fmt.Sprintf("%d call sites reason=not-established", len(vcalls)))
	} else {
		vc := vcalls[0]
		vstr := p.CallStr(vc)
		setPat := `^\(Deposited\.Set\(collections\.Join\(` + regexp.QuoteMeta(vstr) + `#0\.Txid, ` + regexp.QuoteMeta(vstr) + `#0\.Txout\), \(` + regexp.QuoteMeta(vstr) + `#0\.Amount \+ ` + regexp.QuoteMeta(vstr) + `#0\.Tax\)\) == nil\)$`
		edges := p.MatchEdges(nd, regexp.MustCompile(setPat))
		if len(edges) == 0 {
			c.Violated("R3", "mark-before-next @ "+FuncKey(nd), p.InstrPos(vc), "no Deposited.Set(Join(receipt.Txid, receipt.Txout), Amount+Tax) success edge reason=not-established")
		} else {
			avoid := map[edgeKey]bool{}
			for _, e := range edges {
				avoid[e.Key()] = true
			}
			succ := successTargets(nd)
			ps := &PathSearch{Fn: nd, AvoidEdges: avoid, From: vc, IsTarget: func(in ssa.Instruction) bool { return in == ssa.Instruction(vc) || succ(in) }}
			// only paths on which VerifyDeposit succeeded matter
			okEdges := p.MatchEdges(nd, regexp.MustCompile(`^\(`+regexp.QuoteMeta(vstr)+`#1 != nil\)$`))
			for _, e := range okEdges {
				avoid[e.Key()] = true
			}
			if t, path := ps.Find(); t != nil {
				c.Violated("R3", "mark-before-next @ "+FuncKey(nd), p.InstrPos(t), "the next item (or the success exit) is reachable after a verified deposit without marking it as deposited", p.describePath(path)...)
			} else {
				c.Held("R3", "mark-before-next @ "+FuncKey(nd), p.InstrPos(vc), "Deposited.Set succeeds between consecutive VerifyDeposit calls")
			}
		}
		// R4 Validate precedes
		c.RequireFact(nd, "R4", "item-Validate-before-verify", `^\(Deposit\.Validate\(\$2\.Deposits\[.*\]\) == nil\)$`, instrSet([]ssa.Instruction{vc}), "VerifyDeposit")
		c.RequireFact(nd, "R4", "msg-Validate", lit("(MsgNewDeposits.Validate($2) == nil)"), nil, "")
		c.RequireFact(nd, "R4", "headers-map", lit("(MsgNewDeposits.BlockHeadersMap($2)#1 == nil)"), nil, "")
		c.RequireFact(nd, "R1", "proposer-bound", lit("(RelayerKeeper.VerifyNonProposal($2)#1 == nil)"), nil, "")
		if p.argStr(vc, 2) != "MsgNewDeposits.BlockHeadersMap($2)#0" {
			c.Violated("R2", "headers-arg @ "+FuncKey(nd), p.InstrPos(vc), "VerifyDeposit is not given the validated header map: "+p.argStr(vc, 2))
		} else {
			c.Held("R2", "headers-arg @ "+FuncKey(nd), p.InstrPos(vc), "headers = BlockHeadersMap(req)")
		}
	}
	// R4 constants and Validate facts
	for _, cn := range []string{"MinDepositTxSize", "MinBtcTxSize"} {
		k := p.LookupObj("x/bitcoin/types", cn).(*types.Const)
		v, _ := constant.Int64Val(constant.ToInt(k.Val()))
		if v > 64 {
			c.Held("R4", "const "+cn, p.Pos(k.Pos()), fmt.Sprintf("%d > 64", v))
		} else {
			c.Violated("R4", "const "+cn, p.Pos(k.Pos()), fmt.Sprintf("%d <= 64: a 64-byte transaction is indistinguishable from an inner Merkle node", v))
		}
	}
	sizeFact := func(fnKey, field string) {
		f := p.MustFn(fnKey)
		re := regexp.MustCompile(`^\((\d+) <= len\(\$0\.` + field + `\)\)$`)
		edges := p.MatchEdges(f, re)
		c.touch(f)
		ok := false
		for _, e := range edges {
			m := re.FindStringSubmatch(e.Fact)
			if n, _ := strconv.Atoi(m[1]); n > 64 {
				ok = true
			}
		}
		if !ok {
			c.Violated("R4", "min-size @ "+fnKey, p.Pos(f.Pos()), "no lower bound > 64 on len("+field+") reason=not-established")
			return
		}
		c.RequireFact(f, "R4", "min-size", `^\((6[5-9]|[7-9]\d|\d{3,}) <= len\(\$0\.`+field+`\)\)$`, nil, "")
	}
	sizeFact("x/bitcoin/types.Deposit.Validate", "NoWitnessTx")
	sizeFact("x/bitcoin/types.MsgProcessWithdrawal.Validate", "NoWitnessTx")
	sizeFact("x/bitcoin/types.MsgReplaceWithdrawal.Validate", "NewNoWitnessTx")
	sizeFact("x/bitcoin/types.MsgNewConsolidation.Validate", "NoWitnessTx")

	// R6: the coinbase rule is sound only if position 0 cannot be presented under another index
	c.Rule("R6", "dependency: the SPV check binds the claimed position (C04/R3), otherwise a coinbase can be presented under a non-zero index and skip the maturity rule")
	c.positionBound("R6")
	// writers of Deposited
	c.checkWriters("R3", "x/bitcoin/keeper", "Deposited", map[string]string{
		"x/bitcoin/keeper.msgServer.NewDeposits": "Set",
		"x/bitcoin/module.InitGenesis":           "Set",
	}, 2)
}

func propC04(c *Check) {
	p := c.p
	c.Rule("R1", "input guards: len(txid)==32, len(root)==32, len(proof)%32==0 on every path to a return that can be true")
	c.Rule("R2", "loop shape: left/right order of the two copies chosen by position&1 (even: current‖sibling, odd: sibling‖current), node = DoubleSHA256(64-byte buffer), position shifted right once per level")
	c.Rule("R3", "position bound: a true result requires the position, after one shift per path element, to be zero (position < 2^len(path))")
	c.Rule("R4", "callers pass the same position field they use for the coinbase decision")
	vm := p.MustFn("x/bitcoin/types.VerifyMerkelProof")
	c.RequireFact(vm, "R1", "len(txid)==32", lit("(32 == len($0))"), nil, "")
	c.RequireFact(vm, "R1", "len(root)==32", lit("(32 == len($1))"), nil, "")
	c.RequireFact(vm, "R1", "len(proof)%32==0", lit("((len($2) % 32) == 0)"), nil, "")
	r := p.R(vm)
	idx := "φ{$3|(@ >> 1)}"
	cur := `φ\{\$0\|crypto\.DoubleSHA256Sum\((BUF)\)\}`
	_ = cur
	// find the parity branch
	var evenB, oddB, brB *ssa.BasicBlock
	for _, ef := range p.EdgeFacts(vm) {
		switch ef.Fact {
		case "((1 & " + idx + ") == 0)":
			evenB, brB = ef.Block.Succs[ef.Idx], ef.Block
		case "((1 & " + idx + ") != 0)":
			oddB = ef.Block.Succs[ef.Idx]
		}
	}
	if evenB == nil || oddB == nil || evenB == oddB {
		c.Violated("R2", "parity-branch @ "+FuncKey(vm), p.Pos(vm.Pos()), "no branch on (position & 1) with position shifted right per iteration reason=not-established")
	} else {
		c.Held("R2", "parity-branch @ "+FuncKey(vm), p.InstrPos(evenB.Instrs[0]), "branch on (1 & "+idx+")")
		// parity of a block / of a φ edge: decided by which side of the parity branch it lies on
		const (
			parUnknown = iota
			parEven
			parOdd
		)
		parityOfBlock := func(b *ssa.BasicBlock) int {
			if len(evenB.Preds) == 1 && evenB.Dominates(b) {
				return parEven
			}
			if len(oddB.Preds) == 1 && oddB.Dominates(b) {
				return parOdd
			}
			return parUnknown
		}
		parityOfEdge := func(pred, blk *ssa.BasicBlock) int {
			if pred == brB {
				if blk == evenB {
					return parEven
				}
				if blk == oddB {
					return parOdd
				}
			}
			return parityOfBlock(pred)
		}
		// resolve v (possibly a φ merging the two sides) to its value on the given side
		resolve := func(v ssa.Value, par int) (string, bool) {
			if ph, ok := v.(*ssa.Phi); ok && parityOfBlock(ph.Block()) == parUnknown && len(ph.Edges) >= 2 && ph.Block() != brB && !brB.Dominates(ph.Block()) == false {
				var got []string
				for k, e := range ph.Edges {
					pe := parityOfEdge(ph.Block().Preds[k], ph.Block())
					if pe == parUnknown {
						return r.E(v), true // not a parity merge: keep as is
					}
					if pe == par {
						got = append(got, r.E(e))
					}
				}
				if len(got) == 0 {
					return "", false
				}
				for _, g := range got[1:] {
					if g != got[0] {
						return "", false
					}
				}
				return got[0], true
			}
			return r.E(v), true
		}
		sibRe := regexp.MustCompile(`^\$2\[\(32 \* φ\{\(1 \+ @\)\|0\}\):(\(\(32 \* φ\{\(1 \+ @\)\|0\}\) \+ 32\)|\(\(1 \+ φ\{\(1 \+ @\)\|0\}\) \* 32\))\]$`)
		// the hash sites: copy(buf[:32], lo); copy(buf[32:], hi); DoubleSHA256Sum(buf) in one block
		type hashSite struct {
			b          *ssa.BasicBlock
			lo, hi     ssa.Value
			buf, hashA string
		}
		var sites []hashSite
		reDst := regexp.MustCompile(`^(.*)\[(:32|32:)\]$`)
		for _, b := range vm.Blocks {
			var hs hashSite
			hs.b = b
			for _, in := range b.Instrs {
				ci, ok := in.(*ssa.Call)
				if !ok {
					continue
				}
				if bi, isB := ci.Call.Value.(*ssa.Builtin); isB && bi.Name() == "copy" {
					if m := reDst.FindStringSubmatch(r.E(ci.Call.Args[0])); m != nil {
						hs.buf = m[1]
						if m[2] == ":32" {
							hs.lo = ci.Call.Args[1]
						} else {
							hs.hi = ci.Call.Args[1]
						}
					}
					continue
				}
				if s := p.CallStr(ci); strings.HasPrefix(s, "crypto.DoubleSHA256Sum(") {
					hs.hashA = strings.TrimSuffix(strings.TrimPrefix(s, "crypto.DoubleSHA256Sum("), ")")
					sites = append(sites, hs)
					hs = hashSite{b: b}
				}
			}
		}
		check := func(par int, name string, wantFirstIsCur bool) {
			n := 0
			for _, hs := range sites {
				pb := parityOfBlock(hs.b)
				if pb != parUnknown && pb != par {
					continue
				}
				n++
				lo, hi := "", ""
				ok1, ok2 := false, false
				if hs.lo != nil {
					lo, ok1 = resolve(hs.lo, par)
				}
				if hs.hi != nil {
					hi, ok2 = resolve(hs.hi, par)
				}
				curS, sibS := lo, hi
				if !wantFirstIsCur {
					curS, sibS = hi, lo
				}
				okCur := strings.HasPrefix(curS, "φ{$0|crypto.DoubleSHA256Sum(")
				okSib := sibRe.MatchString(sibS)
				if ok1 && ok2 && okCur && okSib && hs.hashA == hs.buf && hs.buf != "" {
					c.Held("R2", name+" @ "+FuncKey(vm), p.InstrPos(hs.b.Instrs[0]), "buf[:32]="+lo+" buf[32:]="+hi+" node=DoubleSHA256(buf)")
				} else {
					c.Violated("R2", name+" @ "+FuncKey(vm), p.InstrPos(hs.b.Instrs[0]), "concatenation order/hash not as required: buf[:32]="+lo+" buf[32:]="+hi+" hash("+hs.hashA+")")
				}
			}
			if n == 0 {
				c.Violated("R2", name+" @ "+FuncKey(vm), p.Pos(vm.Pos()), "no copy/copy/DoubleSHA256Sum site on this side of the parity branch reason=not-established")
			}
		}
		check(parEven, "even:current‖sibling", true)
		check(parOdd, "odd:sibling‖current", false)
		// every iteration hashes: the loop-carried node is exactly the hash result
		if cs, okLeaves := curPhiString(p, vm); okLeaves {
			c.Held("R2", "node-carried @ "+FuncKey(vm), p.Pos(vm.Pos()), "current = "+cs)
		} else {
			c.Violated("R2", "node-carried @ "+FuncKey(vm), p.Pos(vm.Pos()), "the node carried to the next level is not the hash on every path: "+cs+" reason=not-established")
		}
	}
	// the buffer is 64 bytes and the loop runs len(proof)/32 times
	loopOK := false
	for _, ef := range p.EdgeFacts(vm) {
		if ef.Fact == "(φ{(1 + @)|0} < (len($2) / 32))" {
			loopOK = true
		}
	}
	if loopOK {
		c.Held("R2", "loop-bound @ "+FuncKey(vm), p.Pos(vm.Pos()), "one iteration per 32-byte path element")
	} else {
		c.Violated("R2", "loop-bound @ "+FuncKey(vm), p.Pos(vm.Pos()), "loop is not bounded by len(proof)/32 reason=not-established")
	}
	// result: every value that can be returned as true is bytes.Equal(current, root), where current is the
	// loop-carried node — or the txid itself on an exit taken only for an empty path (zero levels)
	resOK := true
	nRes := 0
	emptyPath := lit(EQ("0", "(len($2) / 32)")) + "|" + lit(EQ("0", "len($2)")) + "|" + lit("((len($2) / 32) <= 0)") + "|" + lit("(len($2) < 32)")
	loopRes := regexp.MustCompile(`^bytes\.Equal\(φ\{\$0\|crypto\.DoubleSHA256Sum\(.*\)\}, \$1\)$`)
	for _, e := range Exits(vm) {
		if e.Kind == exitFailure {
			continue
		}
		// the candidate true values: the result itself, or the non-constant entries of a returned φ (a && b)
		type cand struct {
			v    ssa.Value
			pred *ssa.BasicBlock
		}
		var cands []cand
		if ph, ok := e.Ret.Results[0].(*ssa.Phi); ok && ph.Block() == e.Ret.Block() {
			for k, ev := range ph.Edges {
				if kc, isC := ev.(*ssa.Const); isC && kc.Value != nil && kc.Value.String() == "false" {
					continue
				}
				cands = append(cands, cand{ev, ph.Block().Preds[k]})
			}
		} else {
			cands = append(cands, cand{e.Ret.Results[0], nil})
		}
		for _, cd := range cands {
			nRes++
			s := r.E(cd.v)
			switch {
			case loopRes.MatchString(s):
			case s == "bytes.Equal($0, $1)":
				var tgt ssa.Instruction = e.Ret
				if cd.pred != nil {
					tgt = cd.pred.Instrs[len(cd.pred.Instrs)-1]
				}
				if !c.RequireFact(vm, "R2", "txid-is-root-only-for-empty-path", emptyPath, instrSet([]ssa.Instruction{tgt}), "result bytes.Equal(txid, root)") {
					resOK = false
				}
			default:
				resOK = false
				c.Violated("R2", "result @ "+FuncKey(vm), p.InstrPos(e.Ret), "a non-false result that is not bytes.Equal(current, root): "+s)
			}
		}
	}
	if resOK && nRes > 0 {
		c.Held("R2", "result @ "+FuncKey(vm), p.Pos(vm.Pos()), "true only via bytes.Equal(current, root)")
	} else if nRes == 0 {
		c.Violated("R2", "result @ "+FuncKey(vm), p.Pos(vm.Pos()), "no result that can be true reason=not-established")
	}
	// R3 position bound
	c.positionBound("R3")

	// R4 callers
	cg := p.CG()
	n := 0
	for _, e := range cg.In[vm] {
		ci, ok := e.Site.(ssa.CallInstruction)
		if !ok {
			continue
		}
		n++
		s := p.argStr(ci, 3)
		key := FuncKey(e.From)
		switch key {
		case "x/bitcoin/keeper.Keeper.VerifyDeposit":
			if s == "$3.TxIndex" {
				c.Held("R4", "position-arg @ "+key, p.InstrPos(ci), s+" (also branches the coinbase-maturity rule)")
			} else {
				c.Violated("R4", "position-arg @ "+key, p.InstrPos(ci), "position passed is "+s+", coinbase decision uses $3.TxIndex")
			}
		case "x/bitcoin/keeper.msgServer.FinalizeWithdrawal":
			if s == "$2.TxIndex" {
				c.Held("R4", "position-arg @ "+key, p.InstrPos(ci), s+" (Validate rejects TxIndex == 0)")
			} else {
				c.Violated("R4", "position-arg @ "+key, p.InstrPos(ci), "position passed is "+s+", coinbase exclusion uses $2.TxIndex")
			}
		default:
			c.Violated("R4", "position-arg @ "+key, p.InstrPos(ci), "unknown caller of VerifyMerkelProof: add its coinbase rule to the checker reason=not-established")
		}
	}
	c.Floor("R4", "VerifyMerkelProof callers", n, 2)
	fv := p.MustFn("x/bitcoin/types.MsgFinalizeWithdrawal.Validate")
	c.RequireFact(fv, "R4", "withdrawal-not-coinbase", lit("($0.TxIndex != 0)"), nil, "")
}

// positionBound: a true result of VerifyMerkelProof requires position < 2^len(path).
// Accepted forms: the shifted position is zero after the loop; (position >> levels) == 0; position < 1<<levels.
func (c *Check) positionBound(rule string) {
	p := c.p
	vm := p.MustFn("x/bitcoin/types.VerifyMerkelProof")
	idx := "φ{$3|(@ >> 1)}"
	lv := `\(len\(\$2\) / 32\)`
	n := "(len($2) / 32)"
	_ = lv
	// position < 2^levels, in any of its exact forms: the position shifted once per level is zero; the
	// position shifted by the number of levels is zero (Go: a shift count >= 32 gives 0, as 32+ single
	// shifts do); 32 or more levels (every uint32 position is in range); position < 1<<levels; position == 0
	bound := lit(EQ("0", idx)) + "|" + lit(EQ("0", "($3 >> "+n+")")) + "|" + lit("($3 < (1 << "+n+"))") + "|" + lit("(32 <= "+n+")") + "|" + lit(EQ("0", "$3"))
	c.RequireFact(vm, rule, "position<2^len(path)", bound, nil, "")
}

func propC20(c *Check) {
	p := c.p
	c.Rule("R1", "every runtime store to Params.DepositTaxRate / MinDepositAmount / ConfirmationNumber is dominated by a guard on the very value stored: rate < 10000 (MaxTaxBP), amount > 1000 (DustTxoutAmount), number >= 1")
	c.Rule("R2", "the divisor of the tax formula is the same constant as the rate bound and division precedes multiplication")
	c.Rule("R3", "bitcoin Params are written only by ProcessBridgeRequest and InitGenesis; NetworkName and DepositMagicPrefix are never stored at runtime")
	c.Rule("R4", "out-of-range requests are ignored as a whole: every parameter store fed from a request element is reached under the same request-dependent guards as the other stores fed from that element")
	c.requestsAppliedAtomically("R4")
	pt := p.LookupType("x/bitcoin/types", "Params")
	maxBP, _ := constant.Int64Val(constant.ToInt(p.LookupObj("x/bitcoin/types", "MaxTaxBP").(*types.Const).Val()))
	dust, _ := constant.Int64Val(constant.ToInt(p.LookupObj("x/bitcoin/types", "DustTxoutAmount").(*types.Const).Val()))
	if maxBP != 10000 {
		c.Violated("R1", "const MaxTaxBP", "", fmt.Sprintf("MaxTaxBP = %d, expected 10000 (100%% in basis points)", maxBP))
	} else {
		c.Held("R1", "const MaxTaxBP", "", "10000")
	}
	if dust < 546 {
		c.Violated("R1", "const DustTxoutAmount", "", fmt.Sprintf("DustTxoutAmount = %d is below Bitcoin's dust limit 546", dust))
	} else {
		c.Held("R1", "const DustTxoutAmount", "", fmt.Sprint(dust))
	}
	guard := func(field string, mk func(v string) string) {
		n := 0
		for _, fs := range p.FieldStores(pt, field) {
			key := FuncKey(fs.Fn)
			if strings.Contains(key, "/types.") || strings.Contains(key, "/module.") || strings.HasPrefix(key, "cmd/") {
				continue // constructors / genesis (outside C20's quantifier)
			}
			n++
			v := p.R(fs.Fn).E(fs.Store.Val)
			c.requireFactForCommitted(fs.Fn, "R1", field+"-guard", mk(regexp.QuoteMeta(v)), fs.Store, "store to Params."+field)
		}
		c.Floor("R1", field+" runtime stores", n, 1)
	}
	guard("DepositTaxRate", func(v string) string {
		return fmt.Sprintf(`^\(%s < %d\)$|^\(%s <= %d\)$`, v, maxBP, v, maxBP-1)
	})
	guard("MinDepositAmount", func(v string) string {
		return fmt.Sprintf(`^\(%d < %s\)$|^\(%d <= %s\)$`, dust, v, dust+1, v)
	})
	guard("ConfirmationNumber", func(v string) string {
		return fmt.Sprintf(`^\(%s != 0\)$|^\(0 != %s\)$|^\(0 < %s\)$|^\(1 <= %s\)$`, v, v, v, v)
	})
	// R3 never stored at runtime
	for _, field := range []string{"NetworkName", "DepositMagicPrefix"} {
		bad := 0
		for _, fs := range p.FieldStores(pt, field) {
			key := FuncKey(fs.Fn)
			if strings.Contains(key, "/types.") || strings.HasPrefix(key, "cmd/") {
				continue
			}
			bad++
			c.Violated("R3", field+"-store @ "+key, p.InstrPos(fs.Store), "immutable bridge parameter stored at runtime")
		}
		if bad == 0 {
			c.Held("R3", field+"-never-stored", "", "")
		}
	}
	c.checkWriters("R3", "x/bitcoin/keeper", "Params", map[string]string{
		"x/bitcoin/keeper.Keeper.ProcessBridgeRequest": "Set",
		"x/bitcoin/module.InitGenesis":                 "Set",
	}, 2)
	// the Params.Set in ProcessBridgeRequest stores the guarded local
	pbr := p.MustFn("x/bitcoin/keeper.Keeper.ProcessBridgeRequest")
	for _, s := range p.StoreSites(pbr) {
		if s.Field.Name() == "Params" && s.Method == "Set" {
			v := p.R(pbr).E(s.Args[0])
			// the stored record is the loaded one, possibly via whole copies through other locals (copy, modify, commit)
			if u, ok := s.Args[0].(*ssa.UnOp); ok {
				if al, ok := u.X.(*ssa.Alloc); ok {
					v = strings.Join(p.recordOrigins(pbr, al), " | ")
				}
			}
			if v == "Params.Get()#0" {
				c.Held("R3", "Params.Set-value @ "+FuncKey(pbr), p.InstrPos(s.Call), "stores the loaded-and-guarded params")
			} else {
				c.Violated("R3", "Params.Set-value @ "+FuncKey(pbr), p.InstrPos(s.Call), "stores "+v)
			}
		}
	}
	// R2 tax formula divisor
	vd := p.MustFn("x/bitcoin/keeper.Keeper.VerifyDeposit")
	c.touch(vd)
	found := false
	for _, x := range p.helperContexts(vd) {
		for _, b := range x.fn.Blocks {
			for _, in := range b.Instrs {
				if bo, ok := in.(*ssa.BinOp); ok {
					if x.r.E(bo) == fmt.Sprintf("((%s.Value / %d) * Params.Get()#0.DepositTaxRate)", txOutExpr, maxBP) {
						found = true
					}
				}
			}
		}
	}
	if found {
		c.Held("R2", "tax = value/MaxTaxBP*rate @ "+FuncKey(vd), p.Pos(vd.Pos()), fmt.Sprintf("divisor %d = rate bound; division first, so tax <= value*rate/10000 < value when rate < 10000", maxBP))
	} else {
		c.Violated("R2", "tax = value/MaxTaxBP*rate @ "+FuncKey(vd), p.Pos(vd.Pos()), "tax formula (value / MaxTaxBP) * rate not found reason=not-established")
	}
	c.RequireFact(vd, "R2", "min-amount-enforced", `^\(Params\.Get\(\)#0\.MinDepositAmount <=? `+regexp.QuoteMeta(txOutExpr)+`\.Value\)$`, nil, "")
}

// curPhiString renders the loop-carried node of VerifyMerkelProof (the first argument of the
// bytes.Equal in its result) and reports whether every leaf of that φ is the txid parameter or a
// DoubleSHA256Sum result (so no path through an iteration carries the node over unhashed).
func curPhiString(p *Prog, vm *ssa.Function) (string, bool) {
	r := p.R(vm)
	for _, b := range vm.Blocks {
		for _, in := range b.Instrs {
			if ci, ok := in.(*ssa.Call); ok {
				if f := ci.Call.StaticCallee(); f != nil && f.Pkg != nil && f.Pkg.Pkg.Path() == "bytes" && f.Name() == "Equal" {
					if _, isPhi := ci.Call.Args[0].(*ssa.Phi); !isPhi {
						continue // bytes.Equal(txid, root) of an empty-path exit: judged by the result rule
					}
					seen := map[ssa.Value]bool{}
					hashes := 0
					var walk func(v ssa.Value) bool
					walk = func(v ssa.Value) bool {
						if seen[v] {
							return true
						}
						seen[v] = true
						switch x := v.(type) {
						case *ssa.Phi:
							for _, e := range x.Edges {
								if !walk(e) {
									return false
								}
							}
							return true
						case *ssa.Parameter:
							return x == vm.Params[0]
						case *ssa.Call:
							if g := x.Call.StaticCallee(); g != nil && g.Name() == "DoubleSHA256Sum" {
								hashes++
								return true
							}
						}
						return false
					}
					ok := walk(ci.Call.Args[0])
					return r.E(ci.Call.Args[0]), ok && hashes > 0
				}
			}
		}
	}
	return "", false
}
