package main

import (
	"fmt"
	"go/constant"
	"go/types"
	"regexp"
	"strconv"
	"strings"

	"golang.org/x/tools/go/ssa"
)

func init() {
	register("C03", propC03)
	register("C04", propC04)
	register("C20", propC20)
}

// FieldStore: a store to field F of a value of named struct type T.
type FieldStore struct {
	Fn    *ssa.Function
	Store *ssa.Store
}

func (p *Prog) FieldStores(structT *types.Named, field string) []FieldStore {
	var out []FieldStore
	for _, f := range p.ProdFuncs {
		if p.isGenerated(f) {
			continue
		}
		for _, b := range f.Blocks {
			for _, in := range b.Instrs {
				st, ok := in.(*ssa.Store)
				if !ok {
					continue
				}
				fa, ok := st.Addr.(*ssa.FieldAddr)
				if !ok {
					continue
				}
				if nt := namedOf(fa.X.Type()); nt == nil || nt.Obj() != structT.Obj() || fieldName(fa.X.Type(), fa.Field) != field {
					continue
				}
				out = append(out, FieldStore{f, st})
			}
		}
	}
	return out
}

// writersOf lists (function key → sites) writing keeper collection `field` of module pkgRel.
func (p *Prog) writersOf(pkgRel, field string) map[string][]StoreSite {
	out := map[string][]StoreSite{}
	for _, f := range p.ProdFuncs {
		for _, s := range p.StoreSites(f) {
			if s.IsWrite() && s.Field.Name() == field && s.Field.Pkg() != nil && relPkg(s.Field.Pkg().Path()) == pkgRel {
				out[FuncKey(rootOf(f))] = append(out[FuncKey(rootOf(f))], s)
			}
		}
	}
	return out
}

// checkWriters compares the writers of a collection with the allowed set (function key → allowed methods).
func (c *Check) checkWriters(rule, pkgRel, field string, allowed map[string]string, floor int) {
	p := c.p
	got := p.writersOf(pkgRel, field)
	n := 0
	for fn, sites := range got {
		for _, s := range sites {
			n++
			c.Counters["call_sites"]++
			if ms, ok := allowed[fn]; ok && strings.Contains(","+ms+",", ","+s.Method+",") {
				c.Held(rule, field+"-writer "+fn, p.InstrPos(s.Call), field+"."+s.Method)
			} else {
				c.Violated(rule, field+"-writer "+fn, p.InstrPos(s.Call), "unexpected writer: "+pkgRel+" "+field+"."+s.Method+" in "+fn)
			}
		}
	}
	c.Floor(rule, field+" writers", n, floor)
}

const txidExpr = "crypto.DoubleSHA256Sum($3.NoWitnessTx)"
const txOutExpr = "new(wire.MsgTx)#0.TxOut[$3.OutputIndex]"

func propC03(c *Check) {
	p := c.p
	c.Rule("R1", "VerifyDeposit: registered key, voted hash lookup, coinbase maturity (tip >= height+100 when TxIndex==0), 80-byte header whose double-SHA256 equals the voted hash, fully consumed decode, duplicate check, minimum amount, version-dispatched script check (v1: output index 0), SPV — each on every path to the success exit")
	c.Rule("R2", "same-object provenance: one txid = DoubleSHA256(NoWitnessTx) is used for the duplicate key, the SPV leaf and the receipt; header hashed = headers[BlockNumber], root = bytes 36..68 of that header; script checked = TxOut[OutputIndex] of the decoded tx; EVM address checked = address credited")
	c.Rule("R3", "mark-before-next: inside the batch loop Deposited.Set(Join(receipt.Txid, receipt.Txout)) succeeds between one VerifyDeposit and the next VerifyDeposit / the success exit")
	c.Rule("R4", "64-byte ambiguity: MinDepositTxSize and MinBtcTxSize exceed 64, Validate enforces them, and Validate precedes verification")
	c.Rule("R5", "tax shape: tax = value/10000*rate (divide first), capped by MaxDepositTax when > 0, only when rate > 0 and value > 10000; receipt Amount = value - tax, Tax = tax; Deposited stores Amount + Tax")

	vd := p.MustFn("x/bitcoin/keeper.Keeper.VerifyDeposit")
	hdr := "$2[$3.BlockNumber]"
	req := func(name, pat string) { c.RequireFact(vd, "R1", name, pat, nil, "") }
	req("registered-key", lit("RelayerKeeper.HasPubkey(relayer/types.EncodePublicKey($3.RelayerPubkey))#0"))
	req("voted-hash-lookup", lit("(BlockHashes.Get($3.BlockNumber)#1 == nil)"))
	req("coinbase-maturity", `^\(\$3\.TxIndex != 0\)$|^\(\(\$3\.BlockNumber \+ 100\) <=? BlockTip\.Peek\(\)#0\)$`)
	req("header-length", lit("(80 == len("+hdr+"))"))
	req("header-hash", lit("bytes.Equal(BlockHashes.Get($3.BlockNumber)#0, crypto.DoubleSHA256Sum("+hdr+"))"))
	req("decode", lit("(MsgTx.DeserializeNoWitness(new(wire.MsgTx)#0, bytes.NewReader($3.NoWitnessTx)) == nil)"))
	req("decode-consumes-all", `^\(Reader\.Len\(bytes\.NewReader\(\$3\.NoWitnessTx\)\) (<=|==) 0\)$`)
	req("duplicate", lit("!Deposited.Has(collections.Join("+txidExpr+", $3.OutputIndex))#0"))
	req("min-amount", `^\(Params\.Get\(\)#0\.MinDepositAmount <=? `+regexp.QuoteMeta(txOutExpr)+`\.Value\)$`)
	v0 := "(bitcoin/types.VerifyDespositScriptV0($3.RelayerPubkey, $3.EvmAddress, " + txOutExpr + ".PkScript) == nil)"
	v1 := "(bitcoin/types.VerifyDespositScriptV1($3.RelayerPubkey, Params.Get()#0.DepositMagicPrefix, $3.EvmAddress, " + txOutExpr + ".PkScript, new(wire.MsgTx)#0.TxOut[1].PkScript) == nil)"
	req("script-check", lit(v0)+"|"+lit(v1))
	req("spv", lit("bitcoin/types.VerifyMerkelProof("+txidExpr+", "+hdr+"[36:68], $3.IntermediateProof, $3.TxIndex)"))
	// v0 only for version 0, v1 only for version 1 with output index 0
	if calls := p.FindCalls(vd, `^bitcoin/types\.VerifyDespositScriptV1\(`); len(calls) > 0 {
		var t []ssa.Instruction
		for _, ci := range calls {
			t = append(t, ci)
		}
		c.RequireFact(vd, "R1", "v1-version", lit("($3.Version == 1)"), instrSet(t), "v1 script check")
		c.RequireFact(vd, "R1", "v1-output-index-0", lit("($3.OutputIndex == 0)"), instrSet(t), "v1 script check")
	} else {
		c.Violated("R1", "v1-script-call @ "+FuncKey(vd), p.Pos(vd.Pos()), "no VerifyDespositScriptV1 call reason=not-established")
	}
	if calls := p.FindCalls(vd, `^bitcoin/types\.VerifyDespositScriptV0\(`); len(calls) > 0 {
		var t []ssa.Instruction
		for _, ci := range calls {
			t = append(t, ci)
		}
		c.RequireFact(vd, "R1", "v0-version", lit("($3.Version == 0)"), instrSet(t), "v0 script check")
	} else {
		c.Violated("R1", "v0-script-call @ "+FuncKey(vd), p.Pos(vd.Pos()), "no VerifyDespositScriptV0 call reason=not-established")
	}

	// R2/R5 receipt fields
	rt := p.LookupType("x/bitcoin/types", "DepositExecReceipt")
	val := txOutExpr + ".Value"
	taxInner := "φ{((" + val + " / 10000) * Params.Get()#0.DepositTaxRate)|Params.Get()#0.MaxDepositTax}"
	want := map[string]string{
		"Address": "$3.EvmAddress",
		"Txid":    txidExpr,
		"Txout":   "$3.OutputIndex",
		"Amount":  "φ{(" + val + " - " + taxInner + ")|" + val + "}",
		"Tax":     "φ{((" + val + " / 10000) * Params.Get()#0.DepositTaxRate)|0|Params.Get()#0.MaxDepositTax}",
	}
	r := p.R(vd)
	got := map[string]string{}
	for _, fs := range p.FieldStores(rt, "Address") {
		_ = fs
	}
	for _, b := range vd.Blocks {
		for _, in := range b.Instrs {
			st, ok := in.(*ssa.Store)
			if !ok {
				continue
			}
			fa, ok := st.Addr.(*ssa.FieldAddr)
			if !ok {
				continue
			}
			if nt := namedOf(fa.X.Type()); nt != nil && nt.Obj() == rt.Obj() {
				got[fieldName(fa.X.Type(), fa.Field)] = r.E(st.Val)
			}
		}
	}
	for _, f := range []string{"Address", "Txid", "Txout"} {
		if got[f] == want[f] {
			c.Held("R2", "receipt."+f+" @ "+FuncKey(vd), p.Pos(vd.Pos()), got[f])
		} else {
			c.Violated("R2", "receipt."+f+" @ "+FuncKey(vd), p.Pos(vd.Pos()), "receipt field is "+got[f]+", expected "+want[f]+" reason=not-established")
		}
	}
	for _, f := range []string{"Amount", "Tax"} {
		if got[f] == want[f] {
			c.Held("R5", "receipt."+f+" @ "+FuncKey(vd), p.Pos(vd.Pos()), got[f])
		} else {
			c.Violated("R5", "receipt."+f+" @ "+FuncKey(vd), p.Pos(vd.Pos()), "receipt field is "+got[f]+", expected "+want[f]+" reason=not-established")
		}
	}
	// tax applied only under rate > 0 && value > 10000; cap only under MaxDepositTax > 0 && tax > cap
	var subInstr, capUse []ssa.Instruction
	for _, b := range vd.Blocks {
		for _, in := range b.Instrs {
			if bo, ok := in.(*ssa.BinOp); ok && r.E(bo) == "("+val+" - "+taxInner+")" {
				subInstr = append(subInstr, in)
			}
		}
	}
	if len(subInstr) == 0 {
		c.Violated("R5", "tax-subtraction @ "+FuncKey(vd), p.Pos(vd.Pos()), "value - tax not found reason=not-established")
	} else {
		c.RequireFact(vd, "R5", "tax-needs-rate>0", patPositive("Params.Get()#0.DepositTaxRate"), instrSet(subInstr), "tax subtraction")
		c.RequireFact(vd, "R5", "tax-needs-value>10000", lit("(10000 < "+val+")"), instrSet(subInstr), "tax subtraction")
	}
	_ = capUse
	// the cap replaces the tax only on the edge MaxDepositTax > 0 && MaxDepositTax < tax: find the φ and its incoming block for the cap value
	capOK := false
	for _, b := range vd.Blocks {
		for _, in := range b.Instrs {
			ph, ok := in.(*ssa.Phi)
			if !ok || r.E(ph) != taxInner {
				continue
			}
			for i, e := range ph.Edges {
				if r.E(e) != "Params.Get()#0.MaxDepositTax" {
					continue
				}
				pred := b.Preds[i]
				// every path to pred must establish both cap facts
				t := pred.Instrs[len(pred.Instrs)-1]
				ok1 := c.RequireFact(vd, "R5", "cap-needs-cap>0", patPositive("Params.Get()#0.MaxDepositTax"), instrSet([]ssa.Instruction{t}), "cap application")
				ok2 := c.RequireFact(vd, "R5", "cap-needs-tax>cap", lit("(Params.Get()#0.MaxDepositTax < (("+val+" / 10000) * Params.Get()#0.DepositTaxRate))"), instrSet([]ssa.Instruction{t}), "cap application")
				capOK = ok1 && ok2
			}
		}
	}
	if !capOK {
		c.Violated("R5", "cap-shape @ "+FuncKey(vd), p.Pos(vd.Pos()), "min(cap, tax) selection not established reason=not-established")
	}

	// R3 in NewDeposits
	nd := p.MustFn("x/bitcoin/keeper.msgServer.NewDeposits")
	c.touch(nd)
	vcalls := p.FindCalls(nd, `^Keeper\.VerifyDeposit\(`)
	if len(vcalls) != 1 {
		c.Violated("R3", "one-VerifyDeposit-call @ "+FuncKey(nd), p.Pos(nd.Pos()), fmt.Sprintf("%d call sites reason=not-established", len(vcalls)))
	} else {
		vc := vcalls[0]
		vstr := p.CallStr(vc)
		setPat := `^\(Deposited\.Set\(collections\.Join\(` + regexp.QuoteMeta(vstr) + `#0\.Txid, ` + regexp.QuoteMeta(vstr) + `#0\.Txout\), \(` + regexp.QuoteMeta(vstr) + `#0\.Amount \+ ` + regexp.QuoteMeta(vstr) + `#0\.Tax\)\) == nil\)$`
		edges := p.MatchEdges(nd, regexp.MustCompile(setPat))
		if len(edges) == 0 {
			c.Violated("R3", "mark-before-next @ "+FuncKey(nd), p.InstrPos(vc), "no Deposited.Set(Join(receipt.Txid, receipt.Txout), Amount+Tax) success edge reason=not-established")
		} else {
			avoid := map[edgeKey]bool{}
			for _, e := range edges {
				avoid[e.Key()] = true
			}
			succ := successTargets(nd)
			ps := &PathSearch{Fn: nd, AvoidEdges: avoid, From: vc, IsTarget: func(in ssa.Instruction) bool { return in == ssa.Instruction(vc) || succ(in) }}
			// only paths on which VerifyDeposit succeeded matter
			okEdges := p.MatchEdges(nd, regexp.MustCompile(`^\(`+regexp.QuoteMeta(vstr)+`#1 != nil\)$`))
			for _, e := range okEdges {
				avoid[e.Key()] = true
			}
			if t, path := ps.Find(); t != nil {
				c.Violated("R3", "mark-before-next @ "+FuncKey(nd), p.InstrPos(t), "the next item (or the success exit) is reachable after a verified deposit without marking it as deposited", p.describePath(path)...)
			} else {
				c.Held("R3", "mark-before-next @ "+FuncKey(nd), p.InstrPos(vc), "Deposited.Set succeeds between consecutive VerifyDeposit calls")
			}
		}
		// R4 Validate precedes
		c.RequireFact(nd, "R4", "item-Validate-before-verify", `^\(Deposit\.Validate\(\$2\.Deposits\[.*\]\) == nil\)$`, instrSet([]ssa.Instruction{vc}), "VerifyDeposit")
		c.RequireFact(nd, "R4", "msg-Validate", lit("(MsgNewDeposits.Validate($2) == nil)"), nil, "")
		c.RequireFact(nd, "R4", "headers-map", lit("(MsgNewDeposits.BlockHeadersMap($2)#1 == nil)"), nil, "")
		c.RequireFact(nd, "R1", "proposer-bound", lit("(RelayerKeeper.VerifyNonProposal($2)#1 == nil)"), nil, "")
		if p.argStr(vc, 2) != "MsgNewDeposits.BlockHeadersMap($2)#0" {
			c.Violated("R2", "headers-arg @ "+FuncKey(nd), p.InstrPos(vc), "VerifyDeposit is not given the validated header map: "+p.argStr(vc, 2))
		} else {
			c.Held("R2", "headers-arg @ "+FuncKey(nd), p.InstrPos(vc), "headers = BlockHeadersMap(req)")
		}
	}
	// R4 constants and Validate facts
	for _, cn := range []string{"MinDepositTxSize", "MinBtcTxSize"} {
		k := p.LookupObj("x/bitcoin/types", cn).(*types.Const)
		v, _ := constant.Int64Val(constant.ToInt(k.Val()))
		if v > 64 {
			c.Held("R4", "const "+cn, p.Pos(k.Pos()), fmt.Sprintf("%d > 64", v))
		} else {
			c.Violated("R4", "const "+cn, p.Pos(k.Pos()), fmt.Sprintf("%d <= 64: a 64-byte transaction is indistinguishable from an inner Merkle node", v))
		}
	}
	sizeFact := func(fnKey, field string) {
		f := p.MustFn(fnKey)
		re := regexp.MustCompile(`^\((\d+) <= len\(\$0\.` + field + `\)\)$`)
		edges := p.MatchEdges(f, re)
		c.touch(f)
		ok := false
		for _, e := range edges {
			m := re.FindStringSubmatch(e.Fact)
			if n, _ := strconv.Atoi(m[1]); n > 64 {
				ok = true
			}
		}
		if !ok {
			c.Violated("R4", "min-size @ "+fnKey, p.Pos(f.Pos()), "no lower bound > 64 on len("+field+") reason=not-established")
			return
		}
		c.RequireFact(f, "R4", "min-size", `^\((6[5-9]|[7-9]\d|\d{3,}) <= len\(\$0\.`+field+`\)\)$`, nil, "")
	}
	sizeFact("x/bitcoin/types.Deposit.Validate", "NoWitnessTx")
	sizeFact("x/bitcoin/types.MsgProcessWithdrawal.Validate", "NoWitnessTx")
	sizeFact("x/bitcoin/types.MsgReplaceWithdrawal.Validate", "NewNoWitnessTx")
	sizeFact("x/bitcoin/types.MsgNewConsolidation.Validate", "NoWitnessTx")

	// R6: the coinbase rule is sound only if position 0 cannot be presented under another index
	c.Rule("R6", "dependency: the SPV check binds the claimed position (C04/R3), otherwise a coinbase can be presented under a non-zero index and skip the maturity rule")
	c.positionBound("R6")
	// writers of Deposited
	c.checkWriters("R3", "x/bitcoin/keeper", "Deposited", map[string]string{
		"x/bitcoin/keeper.msgServer.NewDeposits": "Set",
		"x/bitcoin/module.InitGenesis":           "Set",
	}, 2)
}

func propC04(c *Check) {
	p := c.p
	c.Rule("R1", "input guards: len(txid)==32, len(root)==32, len(proof)%32==0 on every path to a return that can be true")
	c.Rule("R2", "loop shape: left/right order of the two copies chosen by position&1 (even: current‖sibling, odd: sibling‖current), node = DoubleSHA256(64-byte buffer), position shifted right once per level")
	c.Rule("R3", "position bound: a true result requires the position, after one shift per path element, to be zero (position < 2^len(path))")
	c.Rule("R4", "callers pass the same position field they use for the coinbase decision")
	vm := p.MustFn("x/bitcoin/types.VerifyMerkelProof")
	c.RequireFact(vm, "R1", "len(txid)==32", lit("(32 == len($0))"), nil, "")
	c.RequireFact(vm, "R1", "len(root)==32", lit("(32 == len($1))"), nil, "")
	c.RequireFact(vm, "R1", "len(proof)%32==0", lit("((len($2) % 32) == 0)"), nil, "")
	r := p.R(vm)
	idx := "φ{$3|(@ >> 1)}"
	cur := `φ\{\$0\|crypto\.DoubleSHA256Sum\((BUF)\)\}`
	_ = cur
	// find the parity branch
	var evenB, oddB *ssa.BasicBlock
	for _, ef := range p.EdgeFacts(vm) {
		switch ef.Fact {
		case "((1 & " + idx + ") == 0)":
			evenB = ef.Block.Succs[ef.Idx]
		case "((1 & " + idx + ") != 0)":
			oddB = ef.Block.Succs[ef.Idx]
		}
	}
	if evenB == nil || oddB == nil {
		c.Violated("R2", "parity-branch @ "+FuncKey(vm), p.Pos(vm.Pos()), "no branch on (position & 1) with position shifted right per iteration reason=not-established")
	} else {
		c.Held("R2", "parity-branch @ "+FuncKey(vm), p.InstrPos(evenB.Instrs[0]), "branch on (1 & "+idx+")")
		reCopy := regexp.MustCompile(`^copy\((.*)\[(:32|32:)\], (.*)\)$`)
		sibRe := regexp.MustCompile(`^\$2\[\(32 \* φ\{\(1 \+ @\)\|0\}\):\(\(32 \* φ\{\(1 \+ @\)\|0\}\) \+ 32\)\]$`)
		check := func(b *ssa.BasicBlock, name string, wantFirstIsCur bool) {
			var lo, hi, buf, hashArg string
			for _, in := range b.Instrs {
				ci, ok := in.(ssa.CallInstruction)
				if !ok {
					continue
				}
				s := p.CallStr(ci)
				if m := reCopy.FindStringSubmatch(s); m != nil {
					buf = m[1]
					if m[2] == ":32" {
						lo = m[3]
					} else {
						hi = m[3]
					}
				}
				if strings.HasPrefix(s, "crypto.DoubleSHA256Sum(") {
					hashArg = strings.TrimSuffix(strings.TrimPrefix(s, "crypto.DoubleSHA256Sum("), ")")
				}
			}
			curS, sibS := lo, hi
			if !wantFirstIsCur {
				curS, sibS = hi, lo
			}
			okCur := strings.HasPrefix(curS, "φ{$0|crypto.DoubleSHA256Sum(")
			okSib := sibRe.MatchString(sibS)
			if okCur && okSib && hashArg == buf && buf != "" {
				c.Held("R2", name+" @ "+FuncKey(vm), p.InstrPos(b.Instrs[0]), "buf[:32]="+lo+" buf[32:]="+hi+" node=DoubleSHA256(buf)")
			} else {
				c.Violated("R2", name+" @ "+FuncKey(vm), p.InstrPos(b.Instrs[0]), "concatenation order/hash not as required: buf[:32]="+lo+" buf[32:]="+hi+" hash("+hashArg+")")
			}
		}
		check(evenB, "even:current‖sibling", true)
		check(oddB, "odd:sibling‖current", false)
	}
	// the buffer is 64 bytes and the loop runs len(proof)/32 times
	loopOK := false
	for _, ef := range p.EdgeFacts(vm) {
		if ef.Fact == "(φ{(1 + @)|0} < (len($2) / 32))" {
			loopOK = true
		}
	}
	if loopOK {
		c.Held("R2", "loop-bound @ "+FuncKey(vm), p.Pos(vm.Pos()), "one iteration per 32-byte path element")
	} else {
		c.Violated("R2", "loop-bound @ "+FuncKey(vm), p.Pos(vm.Pos()), "loop is not bounded by len(proof)/32 reason=not-established")
	}
	// result is bytes.Equal(current, root)
	resOK := false
	for _, e := range Exits(vm) {
		if e.Kind == exitFailure {
			continue
		}
		s := r.E(e.Ret.Results[0])
		if regexp.MustCompile(`^bytes\.Equal\(φ\{\$0\|crypto\.DoubleSHA256Sum\(.*\)\}, \$1\)$`).MatchString(s) {
			resOK = true
		} else {
			resOK = false
			c.Violated("R2", "result @ "+FuncKey(vm), p.InstrPos(e.Ret), "a non-false result that is not bytes.Equal(current, root): "+s)
		}
	}
	if resOK {
		c.Held("R2", "result @ "+FuncKey(vm), p.Pos(vm.Pos()), "true only via bytes.Equal(current, root)")
	}
	// R3 position bound
	c.positionBound("R3")

	// R4 callers
	cg := p.CG()
	n := 0
	for _, e := range cg.In[vm] {
		ci, ok := e.Site.(ssa.CallInstruction)
		if !ok {
			continue
		}
		n++
		s := p.argStr(ci, 3)
		key := FuncKey(e.From)
		switch key {
		case "x/bitcoin/keeper.Keeper.VerifyDeposit":
			if s == "$3.TxIndex" {
				c.Held("R4", "position-arg @ "+key, p.InstrPos(ci), s+" (also branches the coinbase-maturity rule)")
			} else {
				c.Violated("R4", "position-arg @ "+key, p.InstrPos(ci), "position passed is "+s+", coinbase decision uses $3.TxIndex")
			}
		case "x/bitcoin/keeper.msgServer.FinalizeWithdrawal":
			if s == "$2.TxIndex" {
				c.Held("R4", "position-arg @ "+key, p.InstrPos(ci), s+" (Validate rejects TxIndex == 0)")
			} else {
				c.Violated("R4", "position-arg @ "+key, p.InstrPos(ci), "position passed is "+s+", coinbase exclusion uses $2.TxIndex")
			}
		default:
			c.Violated("R4", "position-arg @ "+key, p.InstrPos(ci), "unknown caller of VerifyMerkelProof: add its coinbase rule to the checker reason=not-established")
		}
	}
	c.Floor("R4", "VerifyMerkelProof callers", n, 2)
	fv := p.MustFn("x/bitcoin/types.MsgFinalizeWithdrawal.Validate")
	c.RequireFact(fv, "R4", "withdrawal-not-coinbase", lit("($0.TxIndex != 0)"), nil, "")
}

// positionBound: a true result of VerifyMerkelProof requires position < 2^len(path).
// Accepted forms: the shifted position is zero after the loop; (position >> levels) == 0; position < 1<<levels.
func (c *Check) positionBound(rule string) {
	p := c.p
	vm := p.MustFn("x/bitcoin/types.VerifyMerkelProof")
	idx := "φ{$3|(@ >> 1)}"
	lv := `\(len\(\$2\) / 32\)`
	bound := lit(EQ("0", idx)) + `|^\(0 == \(\$3 >> ` + lv + `\)\)$|^\(\$3 < \(1 << ` + lv + `\)\)$`
	c.RequireFact(vm, rule, "position<2^len(path)", bound, nil, "")
}

func propC20(c *Check) {
	p := c.p
	c.Rule("R1", "every runtime store to Params.DepositTaxRate / MinDepositAmount / ConfirmationNumber is dominated by a guard on the very value stored: rate < 10000 (MaxTaxBP), amount > 1000 (DustTxoutAmount), number >= 1")
	c.Rule("R2", "the divisor of the tax formula is the same constant as the rate bound and division precedes multiplication")
	c.Rule("R3", "bitcoin Params are written only by ProcessBridgeRequest and InitGenesis; NetworkName and DepositMagicPrefix are never stored at runtime")
	pt := p.LookupType("x/bitcoin/types", "Params")
	maxBP, _ := constant.Int64Val(constant.ToInt(p.LookupObj("x/bitcoin/types", "MaxTaxBP").(*types.Const).Val()))
	dust, _ := constant.Int64Val(constant.ToInt(p.LookupObj("x/bitcoin/types", "DustTxoutAmount").(*types.Const).Val()))
	if maxBP != 10000 {
		c.Violated("R1", "const MaxTaxBP", "", fmt.Sprintf("MaxTaxBP = %d, expected 10000 (100%% in basis points)", maxBP))
	} else {
		c.Held("R1", "const MaxTaxBP", "", "10000")
	}
	if dust < 546 {
		c.Violated("R1", "const DustTxoutAmount", "", fmt.Sprintf("DustTxoutAmount = %d is below Bitcoin's dust limit 546", dust))
	} else {
		c.Held("R1", "const DustTxoutAmount", "", fmt.Sprint(dust))
	}
	guard := func(field string, mk func(v string) string) {
		n := 0
		for _, fs := range p.FieldStores(pt, field) {
			key := FuncKey(fs.Fn)
			if strings.Contains(key, "/types.") || strings.Contains(key, "/module.") || strings.HasPrefix(key, "cmd/") {
				continue // constructors / genesis (outside C20's quantifier)
			}
			n++
			v := p.R(fs.Fn).E(fs.Store.Val)
			c.RequireFact(fs.Fn, "R1", field+"-guard", mk(regexp.QuoteMeta(v)), instrSet([]ssa.Instruction{fs.Store}), "store to Params."+field)
		}
		c.Floor("R1", field+" runtime stores", n, 1)
	}
	guard("DepositTaxRate", func(v string) string {
		return fmt.Sprintf(`^\(%s < %d\)$|^\(%s <= %d\)$`, v, maxBP, v, maxBP-1)
	})
	guard("MinDepositAmount", func(v string) string {
		return fmt.Sprintf(`^\(%d < %s\)$|^\(%d <= %s\)$`, dust, v, dust+1, v)
	})
	guard("ConfirmationNumber", func(v string) string {
		return fmt.Sprintf(`^\(%s != 0\)$|^\(0 != %s\)$|^\(0 < %s\)$|^\(1 <= %s\)$`, v, v, v, v)
	})
	// R3 never stored at runtime
	for _, field := range []string{"NetworkName", "DepositMagicPrefix"} {
		bad := 0
		for _, fs := range p.FieldStores(pt, field) {
			key := FuncKey(fs.Fn)
			if strings.Contains(key, "/types.") || strings.HasPrefix(key, "cmd/") {
				continue
			}
			bad++
			c.Violated("R3", field+"-store @ "+key, p.InstrPos(fs.Store), "immutable bridge parameter stored at runtime")
		}
		if bad == 0 {
			c.Held("R3", field+"-never-stored", "", "")
		}
	}
	c.checkWriters("R3", "x/bitcoin/keeper", "Params", map[string]string{
		"x/bitcoin/keeper.Keeper.ProcessBridgeRequest": "Set",
		"x/bitcoin/module.InitGenesis":                 "Set",
	}, 2)
	// the Params.Set in ProcessBridgeRequest stores the guarded local
	pbr := p.MustFn("x/bitcoin/keeper.Keeper.ProcessBridgeRequest")
	for _, s := range p.StoreSites(pbr) {
		if s.Field.Name() == "Params" && s.Method == "Set" {
			if v := p.R(pbr).E(s.Args[0]); v == "Params.Get()#0" {
				c.Held("R3", "Params.Set-value @ "+FuncKey(pbr), p.InstrPos(s.Call), "stores the loaded-and-guarded params")
			} else {
				c.Violated("R3", "Params.Set-value @ "+FuncKey(pbr), p.InstrPos(s.Call), "stores "+v)
			}
		}
	}
	// R2 tax formula divisor
	vd := p.MustFn("x/bitcoin/keeper.Keeper.VerifyDeposit")
	c.touch(vd)
	found := false
	r := p.R(vd)
	for _, b := range vd.Blocks {
		for _, in := range b.Instrs {
			if bo, ok := in.(*ssa.BinOp); ok {
				s := r.E(bo)
				if s == fmt.Sprintf("((%s.Value / %d) * Params.Get()#0.DepositTaxRate)", txOutExpr, maxBP) {
					found = true
				}
			}
		}
	}
	if found {
		c.Held("R2", "tax = value/MaxTaxBP*rate @ "+FuncKey(vd), p.Pos(vd.Pos()), fmt.Sprintf("divisor %d = rate bound; division first, so tax <= value*rate/10000 < value when rate < 10000", maxBP))
	} else {
		c.Violated("R2", "tax = value/MaxTaxBP*rate @ "+FuncKey(vd), p.Pos(vd.Pos()), "tax formula (value / MaxTaxBP) * rate not found reason=not-established")
	}
	c.RequireFact(vd, "R2", "min-amount-enforced", `^\(Params\.Get\(\)#0\.MinDepositAmount <=? `+regexp.QuoteMeta(txOutExpr)+`\.Value\)$`, nil, "")
}
