package main

import (
	"fmt"
	"regexp"
	"sort"
	"strings"

	"golang.org/x/tools/go/ssa"
)

func init() { register("C05", propC05) }

const (
	wsU   = "WITHDRAWAL_STATUS_UNSPECIFIED"
	wsPen = "WITHDRAWAL_STATUS_PENDING"
	wsPro = "WITHDRAWAL_STATUS_PROCESSING"
	wsCng = "WITHDRAWAL_STATUS_CANCELING"
	wsCed = "WITHDRAWAL_STATUS_CANCELED"
	wsPd  = "WITHDRAWAL_STATUS_PAID"
)

func propC05(c *Check) {
	p := c.p
	c.Rule("R1", "typestate of Withdrawal.Status over every non-generated production function: every status write obeys pending→canceling, {pending,canceling}→processing, processing→paid, canceling→canceled; new records start pending or canceled; a record whose status may be paid or canceled is never written back")
	c.Rule("R2", "one notice per terminal write: each →PAID / →CANCELED write is paired with exactly one append of that id to the paid / rejected queue, and the queue is stored on the success path; no other appender")
	c.Rule("R3", "terms on the way to processing (ProcessWithdrawal and ReplaceWithdrawal): decoded tx fully consumed, output count n or n+1, per id: script equals DecodeBtcAddress(address), output value <= requested amount, fee/size <= MaxTxPrice; extra output pays the current relayer key; replace: strictly higher fee, new txid")
	c.Rule("R4", "terms on the way to paid (FinalizeWithdrawal): Validate, proposer, txid among the voted txids, voted block hash equals DoubleSHA256(header), SPV of that txid at the claimed non-zero position, amount = output of the matched tx, processing entry removed")
	c.Rule("R5", "Finalize/ApproveCancellation are bound to the current proposer; Withdrawals has no other writer")
	c.Rule("R6", "the amount reported on payment is the voted transaction's output: in ProcessWithdrawal and ReplaceWithdrawal every iteration of the per-withdrawal loop that does not fail records the output value for its index in the TxOuptut that is appended to the processing entry (an iteration that skips it leaves 0, which FinalizeWithdrawal would report as the paid amount); the change-output check relies on the system-address recipe (C17/R1)")
	c.outputValuesRecorded("R6")
	c.Depend("R6", "C17", propC17, map[string]bool{"R1": true}, "the extra output 'must pay the current relayer key': VerifySystemAddressScript accepts exactly the script the address builder derives from that key")

	wt := p.LookupType("x/bitcoin/types", "Withdrawal")
	en := p.EnumOf(p.LookupType("x/bitcoin/types", "WithdrawalStatus"))
	allowed := map[[2]string]bool{
		{wsPen, wsCng}: true, {wsPen, wsPro}: true, {wsCng, wsPro}: true, {wsPro, wsPd}: true, {wsCng, wsCed}: true,
	}
	terminal := en.Set(wsPd, wsCed)
	nWrites, nSets := 0, 0
	var relation []string
	for _, f := range p.ProdFuncs {
		if p.isGenerated(f) || f.Pkg == nil && f.Parent() == nil {
			continue
		}
		ts := p.AnalyzeTypestate(f, wt, "Status", en)
		if len(ts.Allocs) == 0 {
			continue
		}
		c.touch(f)
		key := FuncKey(f)
		writes := ts.Writes()
		for _, w := range writes {
			nWrites++
			desc := en.Str(w.From) + "→" + en.Str(w.To)
			if w.Fresh {
				desc = "new→" + en.Str(w.To)
				relation = append(relation, key+": "+desc)
				if w.To&^en.Set(wsPen, wsCed) != 0 || w.To == 0 {
					c.Violated("R1", "new-record-status @ "+key, p.InstrPos(w.Store), "a new withdrawal starts as "+en.Str(w.To)+" (allowed: pending, or canceled when refunded at creation)")
				} else {
					c.Held("R1", "new-record-status @ "+key, p.InstrPos(w.Store), desc)
				}
				continue
			}
			relation = append(relation, key+": "+desc)
			bad := []string{}
			for _, fv := range en.Values {
				if w.From&(1<<uint(fv)) == 0 {
					continue
				}
				for _, tv := range en.Values {
					if w.To&(1<<uint(tv)) == 0 {
						continue
					}
					if !allowed[[2]string{en.Names[fv], en.Names[tv]}] {
						bad = append(bad, en.Names[fv]+"→"+en.Names[tv])
					}
				}
			}
			cons := "transition →" + strings.Trim(en.Str(w.To), "{}") + " @ " + key
			if len(bad) > 0 {
				c.Violated("R1", cons, p.InstrPos(w.Store), "status write "+desc+" admits forbidden transitions: "+strings.Join(bad, ", "))
			} else {
				c.Held("R1", cons, p.InstrPos(w.Store), desc)
			}
		}
		// a record that may be terminal is never written back
		for _, s := range p.StoreSites(f) {
			if s.Field.Name() != "Withdrawals" || s.Method != "Set" || len(s.Args) < 2 {
				continue
			}
			nSets++
			var a *ssa.Alloc
			if u, ok := s.Args[1].(*ssa.UnOp); ok {
				a, _ = u.X.(*ssa.Alloc)
			}
			if a == nil {
				c.Violated("R1", "record-written @ "+key, p.InstrPos(s.Call), "Withdrawals.Set of a value that is not a tracked local record reason=not-established")
				continue
			}
			st, ok := ts.At(s.Call, a)
			if !ok {
				continue
			}
			// terminal values are fine only when written by a status store that dominates this Set
			just := EnumSet(0)
			for _, w := range writes {
				if w.Alloc == a && instrDominates(w.Store, s.Call) {
					just |= w.To
				}
			}
			fresh := a.Comment == "complit"
			if !fresh {
				// a record built in place (possibly via a literal copied into a named local), never loaded
				fresh = true
				for _, o := range p.recordOrigins(f, a) {
					if !strings.HasPrefix(o, "new(") {
						fresh = false
					}
				}
			}
			if fresh {
				just |= en.Set(wsPen, wsCed)
			}
			if bad := st & terminal &^ just; bad != 0 {
				c.Violated("R1", "terminal-record-rewritten @ "+key, p.InstrPos(s.Call), "record stored while its status may be "+en.Str(bad)+" (terminal) without a status guard")
			} else {
				c.Held("R1", "record-written @ "+key, p.InstrPos(s.Call), "status at write "+en.Str(st))
			}
		}
	}
	sort.Strings(relation)
	c.Extra["status_relation"] = relation
	c.Floor("R1", "status writes", nWrites, 3)
	c.Floor("R1", "Withdrawals.Set sites", nSets, 3)

	// R5 writers + proposer binding
	c.checkWriters("R5", "x/bitcoin/keeper", "Withdrawals", map[string]string{
		"x/bitcoin/keeper.Keeper.ProcessBridgeRequest":   "Set",
		"x/bitcoin/keeper.msgServer.ProcessWithdrawal":   "Set",
		"x/bitcoin/keeper.msgServer.ReplaceWithdrawal":   "Set",
		"x/bitcoin/keeper.msgServer.FinalizeWithdrawal":  "Set",
		"x/bitcoin/keeper.msgServer.ApproveCancellation": "Set",
		"x/bitcoin/module.InitGenesis":                   "Set",
	}, 7)
	fin := p.MustFn("x/bitcoin/keeper.msgServer.FinalizeWithdrawal")
	apc := p.MustFn("x/bitcoin/keeper.msgServer.ApproveCancellation")
	nonProp := lit("(RelayerKeeper.VerifyNonProposal($2)#1 == nil)")
	c.RequireFact(fin, "R5", "proposer-bound", nonProp, nil, "")
	c.RequireFact(apc, "R5", "proposer-bound", nonProp, nil, "")
	for _, h := range []*ssa.Function{p.MustFn("x/bitcoin/keeper.msgServer.ProcessWithdrawal"), p.MustFn("x/bitcoin/keeper.msgServer.ReplaceWithdrawal")} {
		c.RequireFact(h, "R5", "quorum-gate", verifyProposalOK, nil, "")
	}

	// the "current relayer key" of R3 is the key of the latest voted MsgNewPubkey: its handler stores the voted
	// key as the current one on every success path, and nothing else writes it at run time
	c.RequireFact(p.MustFn("x/bitcoin/keeper.msgServer.NewPubkey"), "R3", "voted-key-becomes-current", `^\(Pubkey\.Set\(\*\$2\.Pubkey\) == nil\)$`, nil, "")
	c.checkWriters("R3", "x/bitcoin/keeper", "Pubkey", map[string]string{"x/bitcoin/keeper.msgServer.NewPubkey": "Set", "x/bitcoin/module.InitGenesis": "Set",
		"x/bitcoin/keeper.Keeper.NewPubkey": "Set" /* stores its argument as the current key as well; no production caller */}, 2)

	// R3 terms
	terms := func(fnKey, txField, feeField, ids string, replace bool) {
		h := p.MustFn(fnKey)
		tx := "new(wire.MsgTx)#0"
		i := "φ{(1 + @)|0}"
		W := "Withdrawals.Get(" + ids + "[" + i + "])#0"
		net := "bitcoin/types.BitcoinNetworks[Params.Get()#0.NetworkName]"
		var sets []ssa.Instruction
		for _, s := range p.StoreSites(h) {
			if s.Field.Name() == "Withdrawals" && s.Method == "Set" {
				sets = append(sets, s.Call)
			}
		}
		if len(sets) == 0 {
			c.Violated("R3", "record-write @ "+fnKey, p.Pos(h.Pos()), "no Withdrawals.Set reason=not-established")
			return
		}
		tset := instrSet(sets)
		c.RequireFact(h, "R3", "Validate", `^\(Msg(Process|Replace)Withdrawal\.Validate\(\$2\) == nil\)$`, nil, "")
		c.RequireFact(h, "R3", "decode", lit("(MsgTx.DeserializeNoWitness("+tx+", bytes.NewReader("+txField+")) == nil)"), nil, "")
		c.RequireFact(h, "R3", "decode-consumes-all", `^\(Reader\.Len\(bytes\.NewReader\(`+regexp.QuoteMeta(txField)+`\)\) (<=|==) 0\)$`, nil, "")
		c.RequireFact(h, "R3", "output-count n or n+1", lit(EQ("len("+ids+")", "len("+tx+".TxOut)"))+"|"+lit(EQ("(1 + len("+ids+"))", "len("+tx+".TxOut)")), nil, "")
		// exact forms only: float division compared with the limit, or integer cross-multiplication (integer division would floor the rate)
		c.RequireFact(h, "R3", "fee-rate<=MaxTxPrice", patLE("(float("+feeField+") / float(len("+txField+")))", "float("+W+".MaxTxPrice)")+"|"+
			patLE(feeField, "("+W+".MaxTxPrice * len("+txField+"))")+"|"+patLE(feeField, "(len("+txField+") * "+W+".MaxTxPrice)"), tset, "record write")
		c.RequireFact(h, "R3", "address-decodes", lit("(bitcoin/types.DecodeBtcAddress("+W+".Address, "+net+")#1 == nil)"), tset, "record write")
		c.RequireFact(h, "R3", "script-equals-address", lit("bytes.Equal(bitcoin/types.DecodeBtcAddress("+W+".Address, "+net+")#0, "+tx+".TxOut["+i+"].PkScript)"), tset, "record write")
		c.RequireFact(h, "R3", "value<=requested", patLE(tx+".TxOut["+i+"].Value", W+".RequestAmount"), tset, "record write")
		c.RequireFact(h, "R3", "extra-output-pays-relayer-key", lit(EQ("len("+ids+")", "len("+tx+".TxOut)"))+"|"+lit("bitcoin/types.VerifySystemAddressScript(Pubkey.Get()#0, "+tx+".TxOut[len("+ids+")].PkScript)"), nil, "")
		// the loop covers every id: range over ids bounded by len(ids)
		c.RequireFact(h, "R3", "all-ids-visited", lit("(len("+ids+") <= "+i+")"), nil, "")
		// receipt records the voted tx and amount
		wantStores := map[string]string{
			W + ".Receipt.Txid":   "crypto.DoubleSHA256Sum(" + txField + ")",
			W + ".Receipt.Amount": tx + ".TxOut[" + i + "].Value",
		}
		if !replace {
			wantStores = map[string]string{}
		}
		r := p.R(h)
		for _, b := range h.Blocks {
			for _, in := range b.Instrs {
				if st, ok := in.(*ssa.Store); ok {
					a := r.E(st.Addr)
					if w, ok := wantStores[a]; ok {
						if v := r.E(st.Val); v == w {
							c.Held("R3", "receipt "+strings.TrimPrefix(a, W+".")+" @ "+fnKey, p.InstrPos(in), v)
						} else {
							c.Violated("R3", "receipt "+strings.TrimPrefix(a, W+".")+" @ "+fnKey, p.InstrPos(in), "stored "+v+", expected "+w)
						}
						delete(wantStores, a)
					}
				}
			}
		}
		// the receipt may be updated in a local copy that is then attached to the record:
		//   receipt := *w.Receipt; receipt.Txid, receipt.Amount = …; w.Receipt = &receipt
		if len(wantStores) > 0 {
			for _, b := range h.Blocks {
				for _, in := range b.Instrs {
					st, ok := in.(*ssa.Store)
					if !ok || r.E(st.Addr) != W+".Receipt" {
						continue
					}
					al, ok := st.Val.(*ssa.Alloc)
					if !ok {
						continue
					}
					// the copy starts as the stored receipt (the other fields are kept)
					fromStored := false
					for _, ws := range r.wholeStores[al] {
						if r.E(ws.Val) == "*"+W+".Receipt" || r.E(ws.Val) == W+".Receipt" {
							fromStored = true
						}
					}
					if !fromStored {
						continue
					}
					for a, w := range wantStores {
						path := strings.TrimPrefix(a, W+".Receipt")
						if v := r.fieldAt(al, path, st, r.E(al)+path, 0); v == w {
							c.Held("R3", "receipt "+strings.TrimPrefix(a, W+".")+" @ "+fnKey, p.InstrPos(st), v+" (in a copy of the receipt attached to the record)")
							delete(wantStores, a)
						}
					}
				}
			}
		}
		for a := range wantStores {
			c.Violated("R3", "receipt "+strings.TrimPrefix(a, W+".")+" @ "+fnKey, p.Pos(h.Pos()), "store not found reason=not-established")
		}
		if !replace {
			// receipt literal: Txid: txid, Txout: idx, Amount: value
			got := map[string]string{}
			for _, b := range h.Blocks {
				for _, in := range b.Instrs {
					if st, ok := in.(*ssa.Store); ok {
						a := r.E(st.Addr)
						if strings.HasPrefix(a, "new(bitcoin/types.WithdrawalReceipt)#0.") {
							got[strings.TrimPrefix(a, "new(bitcoin/types.WithdrawalReceipt)#0.")] = r.E(st.Val)
						}
					}
				}
			}
			want := map[string]string{"Txid": "crypto.DoubleSHA256Sum(" + txField + ")", "Txout": i, "Amount": tx + ".TxOut[" + i + "].Value"}
			for k, w := range want {
				if got[k] == w {
					c.Held("R3", "receipt "+k+" @ "+fnKey, p.Pos(h.Pos()), w)
				} else {
					c.Violated("R3", "receipt "+k+" @ "+fnKey, p.Pos(h.Pos()), "stored "+got[k]+", expected "+w+" reason=not-established")
				}
			}
			// processing entry: Txid [txid], Withdrawals req.Id, Fee req.TxFee
			ok := false
			for _, s := range p.StoreSites(h) {
				if s.Field.Name() == "Processing" && s.Method == "Set" {
					ok = true
				}
			}
			if ok {
				c.RequireFact(h, "R3", "processing-entry-stored", `^\(Processing\.Set\(ProcessID\.Peek\(\)#0, .*\) == nil\)$`, nil, "")
			} else {
				c.Violated("R3", "processing-entry-stored @ "+fnKey, p.Pos(h.Pos()), "no Processing.Set reason=not-established")
			}
		} else {
			c.RequireFact(h, "R3", "strictly-higher-fee", patLT("Processing.Get($2.Pid)#0.Fee", "$2.NewTxFee"), nil, "")
			// new txid: the equality branch can only fail
			// loop form, or the library search any(recorded, equal(·, new txid))
			dup := lit("bytes.Equal(Processing.Get($2.Pid)#0.Txid["+i+"], crypto.DoubleSHA256Sum("+txField+"))") + "|" +
				lit("any(Processing.Get($2.Pid)#0.Txid, bytes.Equal(·, crypto.DoubleSHA256Sum("+txField+")))") + "|" +
				lit("any(Processing.Get($2.Pid)#0.Txid, bytes.Equal(crypto.DoubleSHA256Sum("+txField+"), ·))")
			edges := p.MatchEdges(h, regexp.MustCompile(dup))
			if len(edges) == 0 {
				c.Violated("R3", "new-txid @ "+fnKey, p.Pos(h.Pos()), "no comparison of the new txid with the recorded ones reason=not-established")
			} else {
				okAll := true
				for _, e := range edges {
					start := e.Block.Succs[e.Idx].Instrs[0]
					ps := &PathSearch{Fn: h, From: nil, IsTarget: successTargets(h)}
					_ = ps
					if canReachSuccessFromBlock(h, e.Block.Succs[e.Idx]) {
						okAll = false
						c.Violated("R3", "new-txid @ "+fnKey, p.InstrPos(start), "a replacement whose txid is already recorded can still succeed")
					}
				}
				if okAll {
					c.Held("R3", "new-txid @ "+fnKey, p.InstrPos(edges[0].Block.Instrs[0]), "txid equal to a recorded one → error")
				}
			}
			c.RequireFact(h, "R3", "processing-entry-stored", lit("(Processing.Set($2.Pid, Processing.Get($2.Pid)#0) == nil)"), nil, "")
		}
	}
	terms("x/bitcoin/keeper.msgServer.ProcessWithdrawal", "$2.NoWitnessTx", "$2.TxFee", "$2.Id", false)
	terms("x/bitcoin/keeper.msgServer.ReplaceWithdrawal", "$2.NewNoWitnessTx", "$2.NewTxFee", "Processing.Get($2.Pid)#0.Withdrawals", true)

	// R4 finalize
	i := "φ{(1 + @)|0}"
	idx := "φ{-1|" + i + "}"
	// the match index as a library search: index(recorded txids, equal(·, req.Txid)) is by definition the
	// first position whose txid equals the request's (or -1)
	idxIsSearch := false
	for _, q := range []string{"index(Processing.Get($2.Pid)#0.Txid, bytes.Equal(·, $2.Txid))", "index(Processing.Get($2.Pid)#0.Txid, bytes.Equal($2.Txid, ·))"} {
		for _, ef := range p.EdgeFacts(fin) {
			if strings.Contains(ef.Fact, q) {
				idx, idxIsSearch = q, true
			}
		}
	}
	c.RequireFact(fin, "R4", "Validate", lit("(MsgFinalizeWithdrawal.Validate($2) == nil)"), nil, "")
	c.RequireFact(fin, "R4", "processing-entry", lit("(Processing.Get($2.Pid)#1 == nil)"), nil, "")
	c.RequireFact(fin, "R4", "txid-found", lit(NE("-1", idx))+"|"+lit("(0 <= "+idx+")")+"|"+lit("(-1 < "+idx+")"), nil, "")
	// the match index is set only under bytes.Equal(recorded txid, req.Txid) (in the handler or in a private search helper)
	matched := false
	eqFact := lit("bytes.Equal(Processing.Get($2.Pid)#0.Txid[" + i + "], $2.Txid)")
	for _, x := range p.helperContexts(fin) {
		if x.call != nil && p.CallStr(x.call) == idx {
			// a search helper returning the index: the index is returned only under the equality
			for _, e := range Exits(x.fn) {
				if e.Kind != exitFailure && len(e.Ret.Results) > 0 && x.r.E(e.Ret.Results[0]) == i {
					matched = c.requireFactCtx(x, "R4", "match-index-under-txid-equality", eqFact, instrSet([]ssa.Instruction{e.Ret}), "match index result")
				}
			}
		}
		for _, b := range x.fn.Blocks {
			for _, in := range b.Instrs {
				ph, ok := in.(*ssa.Phi)
				if !ok || x.r.E(ph) != idx {
					continue
				}
				for k, e := range ph.Edges {
					if x.r.E(e) == i {
						t := b.Preds[k].Instrs[len(b.Preds[k].Instrs)-1]
						matched = c.requireFactCtx(x, "R4", "match-index-under-txid-equality", lit("bytes.Equal(Processing.Get($2.Pid)#0.Txid["+i+"], $2.Txid)"), instrSet([]ssa.Instruction{t}), "match index assignment")
					}
				}
			}
		}
	}
	if idxIsSearch {
		matched = true
		c.Held("R4", "match-index-under-txid-equality @ "+FuncKey(fin), p.Pos(fin.Pos()), "match index = "+idx+" (library search: first recorded txid equal to the request's)")
	}
	if !matched {
		c.Violated("R4", "match-index @ "+FuncKey(fin), p.Pos(fin.Pos()), "the index of the matched txid is not established reason=not-established")
	}
	c.RequireFact(fin, "R4", "voted-hash-lookup", lit("(BlockHashes.Get($2.BlockNumber)#1 == nil)"), nil, "")
	c.RequireFact(fin, "R4", "header-hash", lit("bytes.Equal(BlockHashes.Get($2.BlockNumber)#0, crypto.DoubleSHA256Sum($2.BlockHeader))"), nil, "")
	c.RequireFact(fin, "R4", "spv", lit("bitcoin/types.VerifyMerkelProof($2.Txid, $2.BlockHeader[36:68], $2.IntermediateProof, $2.TxIndex)"), nil, "")
	c.RequireFact(fin, "R4", "processing-removed", lit("(Processing.Remove($2.Pid) == nil)"), nil, "")
	c.positionBound("R4") // coinbase exclusion (TxIndex != 0) is sound only if the SPV check binds the position
	fv := p.MustFn("x/bitcoin/types.MsgFinalizeWithdrawal.Validate")
	c.RequireFact(fv, "R4", "header-80-bytes", lit("(80 == len($0.BlockHeader))"), nil, "")
	c.RequireFact(fv, "R4", "txid-32-bytes", lit("(32 == len($0.Txid))"), nil, "")
	c.RequireFact(fv, "R4", "not-coinbase", lit("($0.TxIndex != 0)"), nil, "")
	W := "Withdrawals.Get(Processing.Get($2.Pid)#0.Withdrawals[" + i + "])#0"
	{
		r := p.R(fin)
		want := map[string]string{
			W + ".Receipt.Txid":   "$2.Txid",
			W + ".Receipt.Amount": "Processing.Get($2.Pid)#0.Output[" + idx + "].Values[" + i + "]",
		}
		for _, b := range fin.Blocks {
			for _, in := range b.Instrs {
				st, ok := in.(*ssa.Store)
				if !ok {
					continue
				}
				a := r.E(st.Addr)
				w, ok := want[a]
				if !ok {
					continue
				}
				delete(want, a)
				if v := r.E(st.Val); v != w {
					c.Violated("R4", "reported "+strings.TrimPrefix(a, W+".")+" @ "+FuncKey(fin), p.InstrPos(in), "stored "+v+", expected "+w)
					continue
				}
				// the per-withdrawal index of Values[...] is the loop variable that selects the withdrawal id
				if strings.HasSuffix(a, "Amount") {
					if !sameLoopIndex(fin, st.Val, st.Addr) {
						c.Violated("R4", "reported Receipt.Amount @ "+FuncKey(fin), p.InstrPos(in), "the output value index is not the loop variable selecting the withdrawal id")
						continue
					}
				}
				c.Held("R4", "reported "+strings.TrimPrefix(a, W+".")+" @ "+FuncKey(fin), p.InstrPos(in), w)
			}
		}
		for a := range want {
			c.Violated("R4", "reported "+strings.TrimPrefix(a, W+".")+" @ "+FuncKey(fin), p.Pos(fin.Pos()), "store not found reason=not-established")
		}
	}

	// R2 notices
	qt := p.LookupType("x/bitcoin/types", "EthTxQueue")
	appenders := func(field string) map[string][]*ssa.Store {
		out := map[string][]*ssa.Store{}
		for _, fs := range p.FieldStores(qt, field) {
			out[FuncKey(fs.Fn)] = append(out[FuncKey(fs.Fn)], fs.Store)
		}
		return out
	}
	paid := appenders("PaidWithdrawals")
	rej := appenders("RejectedWithdrawals")
	deq := "x/bitcoin/keeper.Keeper.DequeueBitcoinModuleTx"
	for fn, sts := range paid {
		if fn != FuncKey(fin) && fn != deq {
			c.Violated("R2", "paid-queue-writer "+fn, p.InstrPos(sts[0]), "unexpected writer of the paid queue")
		}
	}
	for fn, sts := range rej {
		if fn != FuncKey(apc) && fn != deq && fn != "x/bitcoin/keeper.Keeper.ProcessBridgeRequest" {
			c.Violated("R2", "rejected-queue-writer "+fn, p.InstrPos(sts[0]), "unexpected writer of the rejected queue")
		}
	}
	// Finalize: pairing of the →PAID write with the append
	{
		ts := p.AnalyzeTypestate(fin, wt, "Status", en)
		var W0 []ssa.Instruction
		for _, w := range ts.Writes() {
			if w.To == en.Set(wsPd) {
				W0 = append(W0, w.Store)
			}
		}
		var A []ssa.Instruction
		for _, s := range paid[FuncKey(fin)] {
			A = append(A, s)
		}
		// the notices may be collected in a local accumulator that is flushed into the queue once after the loop
		accElem := ""
		if len(A) == 1 {
			if elem, apps, acc, ok := p.accumulatorForm(fin, A[0].(*ssa.Store), "PaidWithdrawals"); ok {
				c.accumulatorFlushed(fin, "paid", apps, A[0].(*ssa.Store), acc)
				A, accElem = apps, elem
			}
		}
		c.pairing(fin, "paid", W0, A)
		// appended id = id written
		r := p.R(fin)
		okID := false
		for _, b := range fin.Blocks {
			for _, in := range b.Instrs {
				if st, ok := in.(*ssa.Store); ok && r.E(st.Addr) == "new(bitcoin/types.WithdrawalExecReceipt)#0.Id" {
					okID = r.E(st.Val) == "Processing.Get($2.Pid)#0.Withdrawals["+i+"]"
				}
			}
		}
		appOK := accElem == "new(bitcoin/types.WithdrawalExecReceipt)#0"
		for _, a := range A {
			if st, isSt := a.(*ssa.Store); isSt && regexp.MustCompile(`^append\(.*EthTxQueue\.Get\(\)#0\.PaidWithdrawals.*, \[new\(bitcoin/types\.WithdrawalExecReceipt\)#0\]\)$`).MatchString(r.E(st.Val)) {
				appOK = true
			}
		}
		if okID && appOK {
			c.Held("R2", "paid-notice-id @ "+FuncKey(fin), p.Pos(fin.Pos()), "appends {Id: the id just written PAID, Receipt: its receipt}")
		} else {
			c.Violated("R2", "paid-notice-id @ "+FuncKey(fin), p.Pos(fin.Pos()), "the paid notice does not carry the id of the record written PAID reason=not-established")
		}
		c.RequireFact(fin, "R2", "queue-stored", lit("(EthTxQueue.Set(EthTxQueue.Get()#0) == nil)"), nil, "")
	}
	// ApproveCancellation: whole-slice append after a loop in which every iteration writes →CANCELED
	{
		ts := p.AnalyzeTypestate(apc, wt, "Status", en)
		var W0 []ssa.Instruction
		for _, w := range ts.Writes() {
			if w.To == en.Set(wsCed) {
				W0 = append(W0, w.Store)
			}
		}
		r := p.R(apc)
		var A []ssa.Instruction
		for _, s := range rej[FuncKey(apc)] {
			A = append(A, s)
		}
		gets := p.FindCalls(apc, `^Withdrawals\.Get\(`)
		accDone := false
		if len(A) == 1 {
			if elem, apps, acc, ok := p.accumulatorForm(apc, A[0].(*ssa.Store), "RejectedWithdrawals"); ok {
				accDone = true
				if elem != "$2.Id["+i+"]" {
					c.Violated("R2", "rejected-notice @ "+FuncKey(apc), p.InstrPos(A[0]), "the id collected for the refund notice is "+elem+", not the id of the record written CANCELED")
				} else {
					c.pairing(apc, "rejected", W0, apps)
					c.accumulatorFlushed(apc, "rejected", apps, A[0].(*ssa.Store), acc)
					c.Held("R2", "rejected-notice @ "+FuncKey(apc), p.InstrPos(A[0]), "each id written CANCELED is collected once and the collection is appended to the rejected queue after the loop")
				}
			}
		}
		switch {
		case accDone:
		case len(A) != 1 || len(W0) != 1 || len(gets) != 1:
			c.Violated("R2", "rejected-notice @ "+FuncKey(apc), p.Pos(apc.Pos()), fmt.Sprintf("expected one append, one →CANCELED write and one record load; found %d/%d/%d reason=not-established", len(A), len(W0), len(gets)))
		default:
			a := A[0].(*ssa.Store)
			okApp := concatAsAppend(r.E(a.Val)) == "append(EthTxQueue.Get()#0.RejectedWithdrawals, $2.Id)"
			okKey := p.CallStr(gets[0]) == "Withdrawals.Get($2.Id["+i+"])"
			inLoop := p.R(apc).blockReach(a.Block())[a.Block()]
			// every iteration writes: from the load, the next load / the append is not reachable without the write
			ps := &PathSearch{Fn: apc, From: gets[0], AvoidInstr: instrSet(W0), IsTarget: func(in ssa.Instruction) bool { return in == ssa.Instruction(gets[0]) || in == A[0] }}
			t, path := ps.Find()
			// the append is on every success path
			ps2 := &PathSearch{Fn: apc, AvoidInstr: instrSet(A), IsTarget: successTargets(apc)}
			t2, _ := ps2.Find()
			switch {
			case !okApp || !okKey:
				c.Violated("R2", "rejected-notice @ "+FuncKey(apc), p.InstrPos(a), "the ids queued are not exactly the ids visited: append="+r.E(a.Val)+" key="+p.CallStr(gets[0]))
			case inLoop:
				c.Violated("R2", "rejected-notice @ "+FuncKey(apc), p.InstrPos(a), "whole-list append inside a loop (ids queued more than once)")
			case t != nil:
				c.Violated("R2", "rejected-notice @ "+FuncKey(apc), p.InstrPos(t), "an id can be queued for refund without its record being written CANCELED", p.describePath(path)...)
			case t2 != nil:
				c.Violated("R2", "rejected-notice @ "+FuncKey(apc), p.InstrPos(t2), "success without queueing the refunds")
			default:
				c.Held("R2", "rejected-notice @ "+FuncKey(apc), p.InstrPos(a), "every visited id is written CANCELED; the visited list is appended once after the loop")
			}
		}
		c.RequireFact(apc, "R2", "queue-stored", lit("(EthTxQueue.Set(EthTxQueue.Get()#0) == nil)"), nil, "")
	}
	// ProcessBridgeRequest: accumulator form
	{
		pbr := p.MustFn("x/bitcoin/keeper.Keeper.ProcessBridgeRequest")
		c.touch(pbr)
		r := p.R(pbr)
		id := "$2.Withdraws[" + i + "].Id"
		acc := "φ{append(@, [" + id + "])|nil}"
		var A []*ssa.Store
		for _, s := range rej[FuncKey(pbr)] {
			A = append(A, s)
		}
		// the accumulator starts empty: nil or a pre-sized empty slice
		if len(A) == 1 {
			if m := regexp.MustCompile(`^append\(EthTxQueue\.Get\(\)#0\.RejectedWithdrawals, (φ\{append\(@, \[` + regexp.QuoteMeta(id) + `\]\)\|make\(\[\]uint64,0,[^|{}]*\)\})\)$`).FindStringSubmatch(r.E(A[0].Val)); m != nil {
				acc = m[1]
			}
		}
		okShape := len(A) == 1 && r.E(A[0].Val) == "append(EthTxQueue.Get()#0.RejectedWithdrawals, "+acc+")"
		// status CANCELED is selected exactly in the block that appends the id to the accumulator
		okPair := false
		var setKeyOK bool
		for _, b := range pbr.Blocks {
			for _, in := range b.Instrs {
				ph, ok := in.(*ssa.Phi)
				if !ok || r.E(ph) != "φ{"+wsCed+"|"+wsPen+"}" {
					continue
				}
				for k, e := range ph.Edges {
					if r.E(e) != wsCed {
						continue
					}
					pred := b.Preds[k]
					n := 0
					for _, pin := range pred.Instrs {
						if ci, ok := pin.(ssa.CallInstruction); ok && strings.HasPrefix(p.CallStr(ci), "append(") && strings.HasSuffix(p.CallStr(ci), ", ["+id+"])") {
							n++
						}
					}
					okPair = n == 1 && len(pred.Succs) == 1
				}
			}
		}
		// … or the new record's status field is set to CANCELED in that block (the record starts PENDING)
		if !okPair {
			for _, b := range pbr.Blocks {
				for _, in := range b.Instrs {
					st, ok := in.(*ssa.Store)
					if !ok || r.E(st.Val) != wsCed {
						continue
					}
					fa, ok := st.Addr.(*ssa.FieldAddr)
					if !ok || fieldName(fa.X.Type(), fa.Field) != "Status" {
						continue
					}
					al, _ := rootAlloc(st.Addr)
					if al == nil {
						continue
					}
					freshRec := true
					for _, o := range p.recordOrigins(pbr, al) {
						if !strings.HasPrefix(o, "new(") {
							freshRec = false
						}
					}
					if !freshRec {
						continue
					}
					n := 0
					for _, pin := range b.Instrs {
						if ci, ok := pin.(ssa.CallInstruction); ok && strings.HasPrefix(p.CallStr(ci), "append(") && strings.HasSuffix(p.CallStr(ci), ", ["+id+"])") {
							n++
						}
					}
					okPair = n == 1 && len(b.Succs) == 1
				}
			}
		}
		for _, s := range p.StoreSites(pbr) {
			if s.Field.Name() == "Withdrawals" && s.Method == "Set" && r.E(s.Args[0]) == id {
				setKeyOK = true
			}
		}
		if okShape && okPair && setKeyOK {
			c.Held("R2", "refund-at-creation @ "+FuncKey(pbr), p.InstrPos(A[0]), "id appended to the accumulator exactly where status CANCELED is chosen; accumulator flushed once into the rejected queue")
		} else {
			c.Violated("R2", "refund-at-creation @ "+FuncKey(pbr), p.Pos(pbr.Pos()), fmt.Sprintf("accumulator form not established (shape=%v pair=%v key=%v) reason=not-established", okShape, okPair, setKeyOK))
		}
		if len(A) == 1 {
			// after the flush the queue is stored before success
			qRe := regexp.MustCompile(lit("(EthTxQueue.Set(EthTxQueue.Get()#0) == nil)"))
			ps := &PathSearch{Fn: pbr, From: A[0], AvoidEdges: edgeSet(p.MatchEdges(pbr, qRe)), IsTarget: p.successTargetsFor(pbr, qRe)}
			if t, path := ps.Find(); t != nil {
				c.Violated("R2", "refund-queue-stored @ "+FuncKey(pbr), p.InstrPos(t), "refunds appended but the queue is not stored on a success path", p.describePath(path)...)
			} else {
				c.Held("R2", "refund-queue-stored @ "+FuncKey(pbr), p.InstrPos(A[0]), "EthTxQueue.Set follows the flush on every success path")
			}
			// an id put into the accumulator is always flushed before success
			for _, ci := range p.FindCalls(pbr, `^append\(.*, \[`+regexp.QuoteMeta(id)+`\]\)$`) {
				// after an append the accumulator is non-empty: the edge len(acc) <= 0 is infeasible
				empty := edgeSet(p.MatchEdges(pbr, regexp.MustCompile(lit(EQ("0", "len("+acc+")")))))
				ps := &PathSearch{Fn: pbr, From: ci, AvoidInstr: instrSet([]ssa.Instruction{A[0]}), AvoidEdges: empty, IsTarget: successTargets(pbr)}
				if t, path := ps.Find(); t != nil {
					c.Violated("R2", "refund-flushed @ "+FuncKey(pbr), p.InstrPos(t), "a refunded id can be dropped: success reachable without flushing the accumulator", p.describePath(path)...)
				} else {
					c.Held("R2", "refund-flushed @ "+FuncKey(pbr), p.InstrPos(ci), "every accumulated id reaches the rejected queue before success")
				}
			}
		}
	}
}

func edgeSet(es []EdgeFact) map[edgeKey]bool {
	m := map[edgeKey]bool{}
	for _, e := range es {
		m[e.Key()] = true
	}
	return m
}

func canReachSuccessFromBlock(fn *ssa.Function, b *ssa.BasicBlock) bool {
	succ := successTargets(fn)
	seen := map[*ssa.BasicBlock]bool{}
	var walk func(x *ssa.BasicBlock) bool
	walk = func(x *ssa.BasicBlock) bool {
		if seen[x] {
			return false
		}
		seen[x] = true
		for _, in := range x.Instrs {
			if succ(in) {
				return true
			}
		}
		for _, s := range x.Succs {
			if walk(s) {
				return true
			}
		}
		return false
	}
	return walk(b)
}

// pairing: W (terminal status writes) and A (queue appends) alternate one-to-one on every path.
func (c *Check) pairing(fn *ssa.Function, what string, W, A []ssa.Instruction) {
	p := c.p
	key := what + "-pairing @ " + FuncKey(fn)
	if len(W) == 0 || len(A) == 0 {
		c.Violated("R2", key, p.Pos(fn.Pos()), fmt.Sprintf("%d terminal writes, %d queue appends reason=not-established", len(W), len(A)))
		return
	}
	isW, isA := instrSet(W), instrSet(A)
	succ := successTargets(fn)
	// (a) an append only after a write
	if t, path := (&PathSearch{Fn: fn, AvoidInstr: isW, IsTarget: isA}).Find(); t != nil {
		c.Violated("R2", key, p.InstrPos(t), "a notice can be queued without the terminal status write", p.describePath(path)...)
		return
	}
	for _, w := range W {
		// (b) after a write: no success exit and no further write without an append
		if t, path := (&PathSearch{Fn: fn, From: w, AvoidInstr: isA, IsTarget: func(in ssa.Instruction) bool { return succ(in) || isW(in) }}).Find(); t != nil {
			c.Violated("R2", key, p.InstrPos(t), "a terminal status write is not followed by its notice", p.describePath(path)...)
			return
		}
	}
	for _, a := range A {
		// (c) after an append: no further append without a new write
		if t, path := (&PathSearch{Fn: fn, From: a, AvoidInstr: isW, IsTarget: isA}).Find(); t != nil {
			c.Violated("R2", key, p.InstrPos(t), "two notices for one terminal status write", p.describePath(path)...)
			return
		}
	}
	c.Held("R2", key, p.InstrPos(A[0]), fmt.Sprintf("%d write(s) and %d append(s) alternate one-to-one on every path", len(W), len(A)))
}

// sameLoopIndex: the last index of the value expression and the index selecting
// the record (through the alloc's Withdrawals.Get key) are the same SSA value.
func sameLoopIndex(fn *ssa.Function, val, addr ssa.Value) bool {
	var idxOf func(v ssa.Value) ssa.Value
	idxOf = func(v ssa.Value) ssa.Value {
		switch x := v.(type) {
		case *ssa.UnOp:
			return idxOf(x.X)
		case *ssa.IndexAddr:
			return x.Index
		case *ssa.Index:
			return x.Index
		}
		return nil
	}
	vi := idxOf(val)
	// record alloc → whole store → Extract → Call Withdrawals.Get(key); key = load of IndexAddr
	a, _ := rootAlloc(addr)
	if a == nil {
		// Receipt is a pointer: addr = FieldAddr(load(FieldAddr(alloc,Receipt)), Amount)
		if fa, ok := addr.(*ssa.FieldAddr); ok {
			if u, ok := fa.X.(*ssa.UnOp); ok {
				a, _ = rootAlloc(u.X)
			}
		}
	}
	if a == nil || vi == nil {
		return false
	}
	for _, ref := range *a.Referrers() {
		st, ok := ref.(*ssa.Store)
		if !ok || st.Addr != a {
			continue
		}
		ex, ok := st.Val.(*ssa.Extract)
		if !ok {
			continue
		}
		call, ok := ex.Tuple.(*ssa.Call)
		if !ok {
			continue
		}
		sa := storeAccess(&call.Call)
		if sa == nil || len(sa.Args) == 0 {
			continue
		}
		if ki := idxOf(sa.Args[0]); ki != nil && ki == vi {
			return true
		}
	}
	return false
}


// outputValuesRecorded: every store `txOutput.Values[idx] = v` inside the per-withdrawal loops of the two
// transaction-voting handlers is executed by every iteration that goes on to the next one.
func (c *Check) outputValuesRecorded(rule string) {
	p := c.p
	n := 0
	for _, key := range []string{"x/bitcoin/keeper.msgServer.ProcessWithdrawal", "x/bitcoin/keeper.msgServer.ReplaceWithdrawal"} {
		f := p.MustFn(key)
		c.touch(f)
		found := false
		for _, b := range f.Blocks {
			for _, in := range b.Instrs {
				st, ok := in.(*ssa.Store)
				if !ok {
					continue
				}
				ia, ok := st.Addr.(*ssa.IndexAddr)
				if !ok {
					continue
				}
				ld, ok := ia.X.(*ssa.UnOp)
				if !ok {
					continue
				}
				fa, ok := ld.X.(*ssa.FieldAddr)
				if !ok || fieldName(fa.X.Type(), fa.Field) != "Values" || namedOf(fa.X.Type()) == nil || namedOf(fa.X.Type()).Obj().Name() != "TxOuptut" {
					continue
				}
				found = true
				n++
				if skip, path := loopIterationCanSkip(f, st); skip {
					c.Violated(rule, "output-value-recorded-each-iteration @ "+FuncKey(f), p.InstrPos(st), "an iteration of the per-withdrawal loop can go on to the next one without recording the output value of its withdrawal: the entry keeps 0 and FinalizeWithdrawal reports 0 as the paid amount", p.describePath(path)...)
				} else {
					c.Held(rule, "output-value-recorded-each-iteration @ "+FuncKey(f), p.InstrPos(st), "Values[idx] is stored on every path around the loop")
				}
			}
		}
		if !found {
			c.Violated(rule, "output-value-recorded @ "+FuncKey(f), p.Pos(f.Pos()), "no store to TxOuptut.Values[idx] found reason=not-established")
		}
	}
	c.Floor(rule, "per-withdrawal output value stores", n, 2)
}


// accumulatorForm: the store st to queue field qf is `append(queue.qf, ACC)` where ACC is a local accumulator
// φ{append(@, [E]) | empty}: returns E, the per-element append instructions of the accumulator and ACC's rendering.
func (p *Prog) accumulatorForm(f *ssa.Function, st *ssa.Store, qf string) (string, []ssa.Instruction, string, bool) {
	r := p.R(f)
	m := regexp.MustCompile(`^append\(EthTxQueue\.Get\(\)#0\.` + qf + `, (φ\{append\(@, \[(.*)\]\)\|(?:nil|make\([^|{}]*\))\})\)$`).FindStringSubmatch(r.E(st.Val))
	if m == nil || !balancedTop(m[2]) {
		return "", nil, "", false
	}
	acc, elem := m[1], m[2]
	var apps []ssa.Instruction
	for _, ci := range callsIn(f) {
		if c, ok := ci.(*ssa.Call); ok && r.E(c) == "append("+acc+", ["+elem+"])" {
			apps = append(apps, c)
		}
	}
	if len(apps) == 0 {
		return "", nil, "", false
	}
	return elem, apps, acc, true
}

// accumulatorFlushed: every element put into the accumulator reaches the queue before success (the flush store is
// on every path from an accumulator append to a success exit; `len(acc) == 0` is infeasible after an append), and
// the flush is not repeated in a loop.
func (c *Check) accumulatorFlushed(f *ssa.Function, what string, apps []ssa.Instruction, flush *ssa.Store, acc string) {
	p := c.p
	key := what + "-accumulator-flushed @ " + FuncKey(f)
	if p.R(f).blockReach(flush.Block())[flush.Block()] {
		c.Violated("R2", key, p.InstrPos(flush), "the accumulated notices are appended to the queue inside a loop (queued more than once)")
		return
	}
	empty := edgeSet(p.MatchEdges(f, regexp.MustCompile(lit(EQ("0", "len("+acc+")")))))
	isFlush := func(in ssa.Instruction) bool { return in == ssa.Instruction(flush) }
	for _, a := range apps {
		if t, path := (&PathSearch{Fn: f, From: a, AvoidInstr: isFlush, AvoidEdges: empty, IsTarget: successTargets(f)}).Find(); t != nil {
			c.Violated("R2", key, p.InstrPos(t), "a collected notice can be dropped: success is reachable without appending the accumulator to the queue", p.describePath(path)...)
			return
		}
	}
	c.Held("R2", key, p.InstrPos(flush), "every collected notice reaches the queue before success, once")
}


var concat2Re = regexp.MustCompile(`^slices\.Concat\(\[(.*), ([^\[\],]*)\]\)$`)

// concatAsAppend: slices.Concat(a, b) holds the elements of a followed by those of b, as append(a, b...) does.
func concatAsAppend(s string) string {
	if m := concat2Re.FindStringSubmatch(s); m != nil {
		return "append(" + m[1] + ", " + m[2] + ")"
	}
	return s
}
