package keeper_test

import (
	"github.com/btcsuite/btcd/chaincfg/chainhash"
	"github.com/ethereum/go-ethereum/common"
	"github.com/ethereum/go-ethereum/core/types/goattypes"
	"github.com/goatnetwork/goat/x/bitcoin/types"
	relayer "github.com/goatnetwork/goat/x/relayer/types"
)

// TestD11OutOfRangeDepositTaxRequestIsIgnored demonstrates that an
// execution-layer DepositTax request whose rate is out of range
// (rate >= MaxTaxBP) has to be ignored as a whole.
//
// Before the fix ProcessBridgeRequest guarded only the rate and stored the
// cap of every request, so {rate 10000, cap 0} kept the old rate but removed
// the cap: deposits that used to be capped were taxed without a limit.
func (suite *KeeperTestSuite) TestD11OutOfRangeDepositTaxRequestIsIgnored() {
	const (
		oldRate = 5
		oldCap  = 1000
	)

	param := types.DefaultParams()
	param.DepositTaxRate = oldRate
	param.MaxDepositTax = oldCap
	suite.Require().NoError(param.Validate())
	suite.Require().NoError(suite.Keeper.Params.Set(suite.Context, param))
	suite.Require().NoError(suite.Keeper.EthTxQueue.Set(suite.Context, types.EthTxQueue{}))

	// the deposit fixture of TestVerifyDepositV0: 1 BTC to the relayer key
	evmAddress := common.HexToAddress("0xbC122aEc3EdD80433dfE3c708b2E549B5A7Ab96E")
	blockHash, err := chainhash.NewHashFromStr("38fb77a25662f9eda5abef8a407ba45e8c3374b5a0724cfa9762f1f9cbf627e2")
	suite.Require().NoError(err)
	const height = 102
	const amount = 1e8
	suite.Require().NoError(suite.Keeper.BlockHashes.Set(suite.Context, height, blockHash[:]))
	suite.Require().NoError(suite.Keeper.BlockTip.Set(suite.Context, height))
	header := common.Hex2Bytes("00000020451119ce15cd42ceb7a00c2ef9843aa613a69f19f7b4fc483f0f28b099c54d1bc8df397f2235b299f7ca89e10f789e598f53dc89789b8a047bc78238ef4bd4daf9f8e466ffff7f2000000000")
	rawTx := common.Hex2Bytes("0200000001e15e44fc827b0e1a3178b6e07f67e8339faae54e4241e5fa5c1ed61786a84bda0000000000fdffffff020dc74c0001000000225120098ad136e9ed8106af7c1b6b4934011f320b30f6e18871917e0d6fb1bdcb5d1400e1f50500000000220020f7608234b4bc67678cc5498dfe7db5dfda221d3ff669f1d9ee89fbcf14d104f366000000")
	proof := common.Hex2Bytes("4930ac654c3c2e487fcc2106a51ecaaf4188093686dfffcfe880798044aadc02")

	suite.RelayerKeeper.EXPECT().
		HasPubkey(suite.Context, relayer.EncodePublicKey(&suite.TestKey)).Return(true, nil).Times(2)

	verify := func() *types.DepositExecReceipt {
		res, err := suite.Keeper.VerifyDeposit(suite.Context,
			map[uint64][]byte{height: header},
			&types.Deposit{
				Version:           0,
				BlockNumber:       height,
				TxIndex:           1,
				NoWitnessTx:       rawTx,
				OutputIndex:       1,
				IntermediateProof: proof,
				EvmAddress:        evmAddress.Bytes(),
				RelayerPubkey:     &suite.TestKey,
			})
		suite.Require().NoError(err)
		return res
	}

	// the uncapped tax of this deposit is 1e8/1e4*5 = 50000, so the cap applies
	before := verify()
	suite.Require().EqualValues(oldCap, before.Tax)
	suite.Require().EqualValues(amount-oldCap, before.Amount)

	// the out-of-range request: the rate is not below MaxTaxBP
	suite.Require().NoError(suite.Keeper.ProcessBridgeRequest(suite.Context, goattypes.BridgeRequests{
		DepositTax: []*goattypes.DepositTaxRequest{{Rate: types.MaxTaxBP, Max: 0}},
	}))

	got, err := suite.Keeper.Params.Get(suite.Context)
	suite.Require().NoError(err)
	// non-fatal assertions, so the consequence on a deposit is reported as well
	suite.Assert().EqualValues(oldRate, got.DepositTaxRate, "the rate of an out-of-range request must be ignored")
	suite.Assert().EqualValues(oldCap, got.MaxDepositTax, "the cap of an out-of-range request must be ignored too")
	suite.Assert().Equal(param, got, "an out-of-range request must leave the params entirely unchanged")

	// the same deposit is still capped
	after := verify()
	suite.Assert().Equal(before, after, "the tax of a deposit must not change by an ignored request")
}
