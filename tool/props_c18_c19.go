package main

import (
	"os"
	"go/token"
	"fmt"
	"go/types"
	"regexp"
	"sort"
	"strings"

	"golang.org/x/tools/go/ssa"
)

func init() {
	register("C18", propC18)
	register("C19", propC19)
}

// keeperCollections lists the collections fields of a module's Keeper struct.
func (p *Prog) keeperCollections(mod string) []*types.Var {
	kt := p.LookupType("x/"+mod+"/keeper", "Keeper")
	st := kt.Underlying().(*types.Struct)
	var out []*types.Var
	for i := 0; i < st.NumFields(); i++ {
		f := st.Field(i)
		ts := f.Type().String()
		if strings.HasPrefix(ts, "cosmossdk.io/collections.") && !strings.HasPrefix(ts, "cosmossdk.io/collections.Schema") {
			out = append(out, f)
		}
	}
	return out
}

// reachSites: store sites of fn and of the repository functions it reaches.
func (p *Prog) reachSites(fn *ssa.Function) []StoreSite {
	reach, _ := p.CG().Reach([]*ssa.Function{fn}, nil)
	var out []StoreSite
	for f := range reach {
		out = append(out, p.StoreSites(f)...)
	}
	return out
}

func propC18(c *Check) {
	p := c.p
	c.Rule("R4", "import accepts what the chain writes: every record the running chain builds with fields of statically known shape (constant status, fixed-length keys) has a success path through the Validate method InitGenesis runs on imported records; no named status value of a record leads to a panic in code run on import")
	c.importValidatorsAcceptRuntimeRecords("R4")
	c.importAcceptsEveryStatus("R4")
	c.Rule("R5", "import accepts every setting the chain can store: for each record the running chain modifies field by field and writes back, the Validate method InitGenesis runs has no failure branch on a modified integer field that a storable value (per the guards dominating its store) satisfies")
	c.importAcceptsRuntimeSettings("R5")
	c.Rule("R6", "what import refuses the running chain never creates: voter records are created only with a vote key no existing voter uses (InitGenesis refuses duplicated vote keys)")
	c.freshVotersAreDistinct("R6")
	c.Rule("R7", "a chain initialised from an exported state can execute its first block: the begin blocker does not fail when the block has no last commit (initial height above 1)")
	c.hookFailureNeedsLastCommit("R7")
	c.Rule("R8", "the order of a derived queue does not leak: the relayer voter queue is not exported and is rebuilt on import in voter-record order; where the running chain copies it in its (arrival) order into the persistent voter list of the group, it must be canonically ordered first")
	c.derivedQueueOrder("R8")
	c.Rule("R9", "the exported block-hash window is the stored one: the export reads BlockHashes downwards from the tip one height at a time, and its loop bound does not exclude height 0 (the import writes hash i of the list at height tip-i)")
	c.exportedHashWindow("R9")
	c.Rule("R10", "indices rebuilt on import obey the running chain's invariants: the locking genesis writes the (token, validator) index and the power ranking only for Pending/Active validators (C13/R1, R3 on the genesis functions)")
	c.DependOn("R10", "C13", propC13, map[string]bool{"R1": true, "R3": true}, regexp.MustCompile(`x/locking/module\.`), "an index entry the running chain would never hold makes the imported chain behave differently from the exported one")
	c.Rule("R1", "coverage: every collection of every keeper is read by its module's ExportGenesis and written by its InitGenesis, or is a derived index that InitGenesis rebuilds; every GenesisState field is assigned on export and consumed on import")
	c.Rule("R2", "derived data obeys the runtime guards: InitGenesis ranks / indexes only Pending/Active validators, ranks only positive power, records only Active validators in the validator set, and rebuilds the voter queue from the voter status")
	c.Rule("R3", "the exported validator set is LockingKeeper.ActiveValidators, which walks ValidatorSet and reports the recorded power and the validator's key")
	derived := map[string]map[string]string{
		"locking": {"Locking": "validator.Locking of Pending/Active validators", "PowerRanking": "validator.Power of Pending/Active validators", "ValidatorSet": "Active validators", "Threshold": "token thresholds"},
		"relayer": {"Queue": "voter status"},
	}
	total := 0
	for _, mod := range []string{"bitcoin", "relayer", "goat", "locking"} {
		ig := p.MustFn("x/" + mod + "/module.InitGenesis")
		eg := p.MustFn("x/" + mod + "/module.ExportGenesis")
		c.touch(ig)
		c.touch(eg)
		written := map[string]bool{}
		read := map[string]bool{}
		for _, s := range p.reachSites(ig) {
			if s.IsWrite() {
				written[s.Field.Name()] = true
			}
		}
		for _, s := range p.reachSites(eg) {
			if !s.IsWrite() {
				read[s.Field.Name()] = true
			} else {
				c.Violated("R1", "export-writes "+mod+"."+s.Field.Name(), p.InstrPos(s.Call), "ExportGenesis writes state")
			}
		}
		for _, f := range p.keeperCollections(mod) {
			total++
			name := mod + "." + f.Name()
			if src, ok := derived[mod][f.Name()]; ok {
				if written[f.Name()] {
					c.Held("R1", "derived "+name, p.Pos(f.Pos()), "rebuilt by InitGenesis from "+src)
				} else {
					c.Violated("R1", "derived "+name, p.Pos(f.Pos()), "derived index is not rebuilt by InitGenesis (would be empty after import)")
				}
				continue
			}
			switch {
			case !read[f.Name()]:
				c.Violated("R1", "exported "+name, p.Pos(f.Pos()), "collection is never read by ExportGenesis: its content is lost on export")
			case !written[f.Name()]:
				c.Violated("R1", "imported "+name, p.Pos(f.Pos()), "collection is never written by InitGenesis: exported content is dropped on import")
			default:
				c.Held("R1", "round-trip "+name, p.Pos(f.Pos()), "read on export, written on import")
			}
		}
		// GenesisState fields: assigned somewhere in the export (ExportGenesis, the repository functions it calls and
		// their closures — e.g. the callback of a Walk), consumed somewhere in the import
		gt := p.LookupType("x/"+mod+"/types", "GenesisState")
		gs := gt.Underlying().(*types.Struct)
		family := func(root *ssa.Function) []*ssa.Function {
			reach, _ := p.CG().Reach([]*ssa.Function{root}, nil)
			var out []*ssa.Function
			for f := range reach {
				if len(f.Blocks) > 0 && isProdPkgFn(f) && !p.isGenerated(f) {
					out = append(out, f)
				}
			}
			for _, f := range p.Funcs {
				if f.Parent() != nil && reach[rootOf(f)] && !reach[f] && len(f.Blocks) > 0 {
					out = append(out, f)
				}
			}
			return out
		}
		isGS := func(t types.Type) bool { nt := namedOf(t); return nt != nil && nt.Obj() == gt.Obj() }
		exp := map[string]bool{}
		for _, f := range family(eg) {
			for _, b := range f.Blocks {
				for _, in := range b.Instrs {
					if st, ok := in.(*ssa.Store); ok {
						if fa, ok := st.Addr.(*ssa.FieldAddr); ok && isGS(fa.X.Type()) {
							exp[fieldName(fa.X.Type(), fa.Field)] = true
						}
					}
				}
			}
		}
		imp := map[string]bool{}
		for _, f := range family(ig) {
			for _, b := range f.Blocks {
				for _, in := range b.Instrs {
					switch x := in.(type) {
					case *ssa.FieldAddr:
						if isGS(x.X.Type()) {
							imp[fieldName(x.X.Type(), x.Field)] = true
						}
					case *ssa.Field:
						if isGS(x.X.Type()) {
							imp[fieldName(x.X.Type(), x.Field)] = true
						}
					case ssa.CallInstruction:
						if cf := calleeFunc(x.Common()); cf != nil && strings.HasPrefix(cf.Name(), "Get") && len(x.Common().Args) > 0 && isGS(x.Common().Args[0].Type()) {
							imp[strings.TrimPrefix(cf.Name(), "Get")] = true
						}
					}
				}
			}
		}
		for i := 0; i < gs.NumFields(); i++ {
			f := gs.Field(i)
			if !f.Exported() || strings.HasPrefix(f.Name(), "XXX_") {
				continue
			}
			name := mod + ".GenesisState." + f.Name()
			switch {
			case !exp[f.Name()]:
				c.Violated("R1", "genesis-field-exported "+name, p.Pos(f.Pos()), "ExportGenesis never assigns this field")
			case !imp[f.Name()]:
				c.Violated("R1", "genesis-field-imported "+name, p.Pos(f.Pos()), "InitGenesis never reads this field")
			default:
				c.Held("R1", "genesis-field "+name, p.Pos(f.Pos()), "")
			}
		}
	}
	c.Floor("R1", "keeper collections", total, 20)

	// R2 derived guards
	lig := p.MustFn("x/locking/module.InitGenesis")
	rankedFact := `^\((Active == .*\.Status|.*\.Status == Active)\)$|^\((Pending == .*\.Status|.*\.Status == Pending)\)$`
	activeFact := `^\((Active == .*\.Status|.*\.Status == Active)\)$`
	for i, s := range p.StoreSites(lig) {
		tgt := instrSet([]ssa.Instruction{s.Call})
		switch s.Field.Name() + "." + s.Method {
		case "Locking.Set":
			c.RequireFact(lig, "R2", fmt.Sprintf("locking-index-only-ranked#%d", i), rankedFact, tgt, "locking index insert")
		case "PowerRanking.Set":
			c.RequireFact(lig, "R2", fmt.Sprintf("ranking-only-ranked#%d", i), rankedFact, tgt, "ranking insert")
			pw := ""
			if call, ok := s.Args[0].(*ssa.Call); ok && len(call.Call.Args) > 0 {
				pw = p.R(lig).E(call.Call.Args[0])
			}
			c.RequireFact(lig, "R2", fmt.Sprintf("ranking-only-positive-power#%d", i), patPositive(pw), tgt, "ranking insert")
			if !strings.HasSuffix(pw, ".Power") {
				c.Violated("R2", fmt.Sprintf("ranking-key#%d", i), p.InstrPos(s.Call), "ranking key power is "+pw)
			}
		case "ValidatorSet.Set":
			c.RequireFact(lig, "R2", fmt.Sprintf("validator-set-only-active#%d", i), activeFact, tgt, "validator set insert")
			if v := p.R(lig).E(s.Args[1]); !strings.HasSuffix(v, ".Power") {
				c.Violated("R2", fmt.Sprintf("validator-set-power#%d", i), p.InstrPos(s.Call), "recorded power is "+v)
			}
		}
	}
	// the derived indexes are rebuilt under exactly the runtime conditions: no other fact may be necessary to reach the insert
	allowedNec := map[string]*regexp.Regexp{
		"Locking.Set":      regexp.MustCompile(`\.Status (==|!=) |(==|!=) .*\.Status\)$| == nil\)$|^\(φ\{\(1 \+ @\)\|0\} < len\(|^\(len\(.*\) <= φ\{\(1 \+ @\)\|0\}\)$`),
		"PowerRanking.Set": regexp.MustCompile(`\.Status (==|!=) |(==|!=) .*\.Status\)$| == nil\)$|^\(φ\{\(1 \+ @\)\|0\} < len\(|^\(len\(.*\) <= φ\{\(1 \+ @\)\|0\}\)$|\.Power`),
		"ValidatorSet.Set": regexp.MustCompile(`\.Status (==|!=) |(==|!=) .*\.Status\)$| == nil\)$|^\(φ\{\(1 \+ @\)\|0\} < len\(|^\(len\(.*\) <= φ\{\(1 \+ @\)\|0\}\)$`),
	}
	for i, s := range p.StoreSites(lig) {
		re, ok := allowedNec[s.Field.Name()+"."+s.Method]
		if !ok {
			continue
		}
		bad := false
		for _, nf := range p.necessaryFacts(lig, s.Call) {
			if !re.MatchString(nf.Fact) {
				bad = true
				c.Violated("R2", fmt.Sprintf("rebuild-condition %s.%s#%d @ %s", s.Field.Name(), s.Method, i, FuncKey(lig)), p.InstrPos(s.Call), "the derived index is rebuilt only under "+nf.Fact+", a condition the running chain does not apply when it maintains this index: entries are missing after import")
			}
		}
		if !bad {
			c.Held("R2", fmt.Sprintf("rebuild-condition %s.%s#%d @ %s", s.Field.Name(), s.Method, i, FuncKey(lig)), p.InstrPos(s.Call), "only status / loop / error conditions"+map[bool]string{true: " / power", false: ""}[s.Field.Name() == "PowerRanking"])
		}
	}
	// the initial validator updates are exactly the Active validators with their power
	for _, s := range p.renderedStores(lig) {
		if strings.HasSuffix(s.addr, "ValidatorUpdate)#0.Power") {
			if strings.HasSuffix(s.val, ".Power") {
				c.RequireFact(lig, "R2", "initial-updates-only-active", activeFact, instrSet([]ssa.Instruction{s.in}), "initial validator update")
			} else {
				c.Violated("R2", "initial-update-power", p.InstrPos(s.in), "initial update power is "+s.val)
			}
		}
	}
	rig := p.MustFn("x/relayer/module.InitGenesis")
	for _, q := range []struct{ f, st string }{{"OnBoarding", "VOTER_STATUS_ON_BOARDING"}, {"OffBoarding", "VOTER_STATUS_OFF_BOARDING"}} {
		found := false
		for _, s := range p.renderedStores(rig) {
			if strings.HasSuffix(s.addr, "VoterQueue)#0."+q.f) && strings.HasPrefix(s.val, "append(") {
				found = true
				c.RequireFact(rig, "R2", "queue-"+q.f+"-from-status", `^\(`+q.st+` == .*\.Status\)$|^\(.*\.Status == `+q.st+`\)$`, instrSet([]ssa.Instruction{s.in}), "queue rebuild")
			}
		}
		if !found {
			c.Violated("R2", "queue-"+q.f+"-rebuilt", p.Pos(rig.Pos()), "InitGenesis does not rebuild queue."+q.f+" from the voter status reason=not-established")
			continue
		}
		// and conversely every imported voter with that status is queued (the running chain queues each one, member of
		// the group or not — the election is the only place that retires the record): the record is stored without
		// the append only over an outcome "status differs"
		var appends, sets []ssa.Instruction
		for _, s := range p.renderedStores(rig) {
			if strings.HasSuffix(s.addr, "VoterQueue)#0."+q.f) && strings.HasPrefix(s.val, "append(") {
				appends = append(appends, s.in)
			}
		}
		for _, ci := range p.FindCalls(rig, `^Voters\.Set\(`) {
			sets = append(sets, ci)
		}
		differs := map[edgeKey]bool{}
		for _, ef := range p.EdgeFacts(rig) {
			if m := cmpRe.FindStringSubmatch(ef.Fact); m != nil && m[2] == "!=" && (m[1] == q.st && strings.HasSuffix(m[3], ".Status") || m[3] == q.st && strings.HasSuffix(m[1], ".Status")) {
				differs[ef.Key()] = true
			}
			// equal to another status constant
			if m := cmpRe.FindStringSubmatch(ef.Fact); m != nil && m[2] == "==" {
				k, v := m[1], m[3]
				if strings.HasSuffix(k, ".Status") {
					k, v = v, k
				}
				if strings.HasPrefix(k, "VOTER_STATUS_") && k != q.st && strings.HasSuffix(v, ".Status") {
					differs[ef.Key()] = true
				}
			}
		}
		cons := "queue-" + q.f + "-holds-every-voter-of-that-status"
		if len(sets) == 0 || len(differs) == 0 {
			c.Violated("R2", cons, p.Pos(rig.Pos()), fmt.Sprintf("%d voter stores, %d tests of the status against %s reason=not-established", len(sets), len(differs), q.st))
		} else if t, path := (&PathSearch{Fn: rig, AvoidInstr: instrSet(appends), AvoidEdges: differs, IsTarget: instrSet(sets)}).Find(); t != nil {
			c.Violated("R2", cons, p.InstrPos(t), "a voter record with status "+q.st+" is imported without being put into queue."+q.f, p.describePath(path)...)
		} else {
			c.Held("R2", cons, p.InstrPos(appends[0]), "the record is stored without the append only when its status differs")
		}
	}
	// R3
	ex := p.MustFn("app.App.ExportAppStateAndValidators")
	c.touch(ex)
	okV := false
	for _, s := range p.renderedStores(ex) {
		if strings.HasSuffix(s.addr, "ExportedApp)#0.Validators") {
			okV = s.val == "Keeper.ActiveValidators($0.LockingKeeper)#0"
			if !okV {
				c.Violated("R3", "exported-validators @ "+FuncKey(ex), p.InstrPos(s.in), "validators exported from "+s.val)
			}
		}
	}
	if okV {
		c.Held("R3", "exported-validators @ "+FuncKey(ex), p.Pos(ex.Pos()), "LockingKeeper.ActiveValidators(ctx)")
	} else {
		c.Violated("R3", "exported-validators-found @ "+FuncKey(ex), p.Pos(ex.Pos()), "assignment of ExportedApp.Validators not found reason=not-established")
	}
	av := p.MustFn("x/locking/keeper.Keeper.ActiveValidators")
	c.touch(av)
	{
		its := p.FindCalls(av, `^ValidatorSet\.Iterate\(nil\)`)
		walks := p.FindCalls(av, `^ValidatorSet\.Walk\(nil, `)
		want := map[string]string{"Power": `^Iterator\.KeyValue\(.*\)#0\.Value$`, "PubKey": `^Validators\.Get\(Iterator\.KeyValue\(.*\)#0\.Key\)#0\.Pubkey$`, "Address": `^ConsAddress\.Bytes\(Iterator\.KeyValue\(.*\)#0\.Key\)$`}
		body := av
		switch {
		case len(its) == 1 && len(walks) == 0:
			c.Held("R3", "walks-ValidatorSet @ "+FuncKey(av), p.InstrPos(its[0]), "")
		case len(its) == 0 && len(walks) == 1:
			// the callback form: every entry is handed to the closure (key, value); the walk must not be cut short
			// on a path that does not fail
			var cb *ssa.Function
			if args := walks[0].Common().Args; len(args) > 0 {
				cb = funcOfValue(args[len(args)-1], 0)
			}
			stops := false
			if cb != nil {
				for _, e := range Exits(cb) {
					if e.Kind == exitFailure || len(e.Ret.Results) != 2 {
						continue
					}
					if k, ok := e.Ret.Results[0].(*ssa.Const); !ok || k.Value == nil || k.Value.String() != "false" {
						stops = true
					}
				}
			}
			if cb == nil || stops {
				c.Violated("R3", "walks-ValidatorSet @ "+FuncKey(av), p.InstrPos(walks[0]), "the walk over ValidatorSet can stop before the last entry (or its callback is not resolved)")
			} else {
				c.Held("R3", "walks-ValidatorSet @ "+FuncKey(av), p.InstrPos(walks[0]), "Walk with a callback that never stops early")
				body = cb
				c.touch(cb)
				want = map[string]string{"Power": `^\$1$`, "PubKey": `^Validators\.Get\(\$0\)#0\.Pubkey$`, "Address": `^ConsAddress\.Bytes\((\$0)?\)$`}
			}
		default:
			c.Violated("R3", "walks-ValidatorSet @ "+FuncKey(av), p.Pos(av.Pos()), "does not iterate the whole ValidatorSet")
		}
		for _, s := range p.renderedStores(body) {
			for f, re := range want {
				if strings.HasSuffix(s.addr, "GenesisValidator)#0."+f) {
					delete(want, f)
					if regexp.MustCompile(re).MatchString(s.val) {
						c.Held("R3", "genesis-validator."+f+" @ "+FuncKey(av), p.InstrPos(s.in), s.val)
					} else {
						c.Violated("R3", "genesis-validator."+f+" @ "+FuncKey(av), p.InstrPos(s.in), "is "+s.val)
					}
				}
			}
		}
		for f := range want {
			c.Violated("R3", "genesis-validator."+f+" @ "+FuncKey(av), p.Pos(av.Pos()), "not set reason=not-established")
		}
	}
}

var errCtor = map[string]bool{"errors.New": true, "fmt.Errorf": true, "errorsmod.Wrap": true, "errorsmod.Wrapf": true}

func propC19(c *Check) {
	p := c.p
	c.Rule("R1", "(informational) handlers call Validate before using request sub-messages; panics inside handlers are recovered by baseapp.runTx and are rejections, not violations")
	c.Rule("R2", "goroutine context (errgroup closures, where a panic kills the process): the payload nil guard precedes both goroutines; every index/slice of message-derived data in VerifyDequeue is dominated by its length guard; no unchecked type assertion or explicit panic is reachable")
	c.Rule("R3", "block context (errors halt the chain): the explicit error constructions reachable from Begin/EndBlock are exactly the reviewed ones, each excluded by an invariant that C13/C16 rules establish or intended (engine faults); a new one is reported")
	c.Rule("R4", "nothing survives a failed transaction outside the rolled-back stores: no package-level or keeper-reachable mutable state")
	c.Rule("R5", "error discipline: no error result is discarded anywhere in hand-written production code (bare call, `_ =`, `v, _ :=`, defer/go), so a failed step always fails the transaction (rolled back by the SDK) or the block; exemptions are listed by callee with a reason")
	c.Rule("R6", "no certain crash, no giving up on success: no pointer is dereferenced (field, element, load, method with pointer receiver) and no error is passed to panic on a path where a dominating branch established that it is nil")
	c.certainCrash("R6")
	c.Rule("R7", "no division by a parameter that validation lets be zero: every field of a module's Params record that consensus code divides by (or takes a remainder by) is established positive on every success path of that record's Validate")
	c.divisorParamsValidated("R7")

	// R1 notes
	for _, h := range p.Contexts().Tx {
		if len(h.Params) < 3 {
			continue
		}
		v := p.FindCalls(h, `^Msg\w+\.Validate\(\$2\)`)
		if len(v) == 0 {
			c.Note("handler %s does not call req.Validate(); malformed requests are rejected by panic recovery or later checks", FuncKey(h))
		}
	}
	// R2
	vp := p.MustFn("x/goat/keeper.Keeper.verifyEthBlockProposal")
	gos := p.FindCalls(vp, `^Group\.Go\(`)
	if len(gos) == 0 {
		c.Violated("R2", "goroutines-found @ "+FuncKey(vp), p.Pos(vp.Pos()), "no errgroup.Go reason=not-established")
	} else {
		c.RequireFact(vp, "R2", "payload-nil-guard-before-goroutines", lit(NE("$2.Payload", "nil")), instrSet(callInstrs(gos)), "starting a goroutine")
	}
	vdq := p.MustFn("x/goat/keeper.Keeper.VerifyDequeue")
	btc := "BitcoinKeeper.DequeueBitcoinModuleTx()#0"
	lck := "LockingKeeper.DequeueLockingModuleTx()#0"
	n := 0
	for _, b := range vdq.Blocks {
		for _, in := range b.Instrs {
			var idxd ssa.Value
			switch x := in.(type) {
			case *ssa.IndexAddr:
				idxd = x.X
			case *ssa.Index:
				idxd = x.X
			case *ssa.Slice:
				idxd = x.X
			default:
				continue
			}
			s := p.R(vdq).E(idxd)
			tgt := instrSet([]ssa.Instruction{in})
			switch {
			case s == "$2":
				n++
				c.RequireFact(vdq, "R2", "extra-data-length-before-index", lit(EQ("33", "len($2)")), tgt, "txRoot[0]")
			case s == "$3":
				n++
				c.RequireFact(vdq, "R2", fmt.Sprintf("txs-length-before-use#%d", n), patLE("len("+btc+")", "len($3)"), tgt, "indexing the proposed txs")
			case s == "$3[len("+btc+"):]":
				n++
				c.RequireFact(vdq, "R2", fmt.Sprintf("txs-length-before-use#%d", n), patLE("len("+lck+")", "len($3[len("+btc+"):])"), tgt, "indexing the proposed txs")
			}
		}
	}
	c.Floor("R2", "guarded index/slice sites in VerifyDequeue", n, 2)
	// unchecked type assertions / explicit panics reachable from goroutine closures
	var closures []*ssa.Function
	for _, f := range p.ProdFuncs {
		for _, ci := range callsIn(f) {
			if cf := calleeFunc(ci.Common()); cf != nil && cf.FullName() == "(*golang.org/x/sync/errgroup.Group).Go" {
				args := ci.Common().Args
				if mc, ok := args[len(args)-1].(*ssa.MakeClosure); ok {
					closures = append(closures, mc.Fn.(*ssa.Function))
				}
			}
		}
	}
	reach, parent := p.CG().Reach(closures, nil)
	bad := 0
	for f := range reach {
		if p.isGenerated(f) {
			continue
		}
		c.touch(f)
		for _, b := range f.Blocks {
			for _, in := range b.Instrs {
				switch x := in.(type) {
				case *ssa.TypeAssert:
					if !x.CommaOk {
						bad++
						c.Violated("R2", "unchecked-type-assertion @ "+FuncKey(f), p.InstrPos(in), "panics outside any recover when the dynamic type differs; reachable from a goroutine: "+p.CG().PathTo(f, parent))
					}
				case *ssa.Panic:
					bad++
					c.Violated("R2", "explicit-panic @ "+FuncKey(f), p.InstrPos(in), "explicit panic reachable from a goroutine (kills the process): "+p.CG().PathTo(f, parent))
				case *ssa.FieldAddr:
					// a pointer that can be the nil constant on some path (a local `var x *T` assigned in a loop or
					// branch) is dereferenced without a dominating nil test
					if mayBeNilConst(x.X, 0) && !knownNonNilAt(x.X, b) {
						bad++
						c.Violated("R2", "possibly-nil-dereference @ "+FuncKey(f), p.InstrPos(in), "a pointer that is nil on some path is dereferenced without a nil check, reachable from a goroutine (a nil dereference there kills the process): "+p.CG().PathTo(f, parent))
					}
				}
			}
		}
	}
	if bad == 0 {
		c.Held("R2", "no-unrecovered-panic-constructs in goroutine context", "", fmt.Sprintf("%d functions reachable from %d errgroup closures: no unchecked type assertion, no explicit panic", len(reach), len(closures)))
	}

	// R3 block-context explicit error exits
	reviewed := map[string]string{
		"x/locking/keeper.Keeper.EndBlocker|invalid iterator: validator power is bigger than before": "collections iterate PowerRanking in descending key order (trusted)",
		"x/locking/keeper.Keeper.EndBlocker|pending validator %x existed in the last validator set":  "ValidatorSet holds Active validators only (C13/R4, C14/R1: Active→Pending is written together with ValidatorSet.Remove)",
		"x/locking/keeper.Keeper.EndBlocker|%s validator %x in power ranking":                        "only Pending/Active validators are ranked (C13/R1, R3)",
		"x/locking/keeper.Keeper.DistributeReward|invalid zero power":                                "reached only with a non-empty last commit (obligation failure-exit-needs-last-commit), whose signers have positive power in CometBFT (trusted)",
		"x/relayer/keeper.Keeper.EndBlocker|delete too many voters in ElectProposer":                 "removals that would empty the group are never queued (C16/R3)",
		"x/goat/keeper.Keeper.Finalized|invalid from NewPayloadV4 api":                               "intended: an engine fault must abort the block (C09)",
		"x/goat/keeper.Keeper.Finalized|invalid from ForkchoiceUpdatedV3 api":                        "intended: an engine fault must abort the block (C09)",
	}
	// the same exits named by what guards them (the wording of a message may change, the condition under which the
	// hook gives up may not): module → pattern over the facts that dominate the error construction → reviewed key
	reviewedGuards := []struct {
		mod, re, key string
	}{
		{"x/locking", `^\(Pending != .*PowerRanking\.Iterate.*\.Status\)$`, "x/locking/keeper.Keeper.EndBlocker|%s validator %x in power ranking"},
		{"x/locking", `^makemap\(map\[string\]uint64\)\[.*PowerRanking\.Iterate.*\]#1$`, "x/locking/keeper.Keeper.EndBlocker|pending validator %x existed in the last validator set"},
		{"x/locking", `^\(0 == φ\{\(@ \+ Context\.VoteInfos\(\)\[.*\]\.Validator\.Power\)\|0\}\)$`, "x/locking/keeper.Keeper.DistributeReward|invalid zero power"},
		{"x/locking", `^\(φ\{0\|Pair\.K1\(.*PowerRanking\.Iterate.*\)\} < Pair\.K1\(.*PowerRanking\.Iterate.*\)\)$`, "x/locking/keeper.Keeper.EndBlocker|invalid iterator: validator power is bigger than before"},
		{"x/relayer", `^\(0 == len\(slices\.DeleteFunc\(.*Voters.*\)\)\)$`, "x/relayer/keeper.Keeper.EndBlocker|delete too many voters in ElectProposer"},
	}
	guardRes := make([]*regexp.Regexp, len(reviewedGuards))
	for i, g := range reviewedGuards {
		guardRes[i] = regexp.MustCompile(g.re)
	}
	breach, bparent := p.CG().Reach(p.Contexts().Block, nil)
	found := map[string]bool{}
	var keysFound []string
	for f := range breach {
		if p.isGenerated(f) {
			continue
		}
		c.touch(f)
		for _, ci := range callsIn(f) {
			cf := calleeFunc(ci.Common())
			if cf == nil || !errCtor[funcShort(cf)] {
				continue
			}
			msg := ""
			for _, a := range ci.Common().Args {
				if k, ok := a.(*ssa.Const); ok && k.Value != nil && strings.HasPrefix(k.Value.ExactString(), "\"") {
					msg = strings.Trim(k.Value.ExactString(), "\"")
				}
			}
			if os.Getenv("GOATVERIF_DEBUG_GUARDS") != "" {
				fmt.Fprintf(os.Stderr, "GUARD %s|%s <= %v\n", FuncKey(f), msg, p.guardFactsOf(f, ci))
			}
			key := FuncKey(f) + "|" + msg
			// a constructor that wraps an error handed to it (a callee's result, a parameter) adds context to a failure
			// that already exists; it is not a new way to fail
			if decoratesPropagatedError(ci) {
				c.Held("R3", "block-hook-error-decoration "+key, p.InstrPos(ci), "adds context to a propagated error")
				continue
			}
			// the same reviewed failure may live in a helper of the hook (extracted by a refactoring): it is the
			// failure of that module's hook with that message, whichever function of the module constructs it
			if _, listed := reviewed[key]; !listed {
				mod := strings.Join(strings.SplitN(FuncKey(f), "/", 3)[:2], "/")
				for rk := range reviewed {
					if strings.HasPrefix(rk, mod+"/") && strings.HasSuffix(rk, "|"+msg) && msg != "" {
						key = rk
					}
				}
			}
			if _, listed := reviewed[key]; !listed {
				mod := strings.Join(strings.SplitN(FuncKey(f), "/", 3)[:2], "/")
				facts := p.guardFactsOf(f, ci)
				for i, g := range reviewedGuards {
					if g.mod != mod {
						continue
					}
					for _, ft := range facts {
						if guardRes[i].MatchString(ft) {
							key = g.key
						}
					}
				}
			}
			// only exits that are actually returned from the hook (not the tx-only helpers reachable through shared functions)
			keysFound = append(keysFound, key)
			if FuncKey(f) == "x/goat/keeper.Keeper.Finalized" || strings.HasPrefix(FuncKey(f), "x/goat/keeper.Keeper.Finalized$") {
				if _, listed := reviewed[key]; !listed {
					// every failure of the engine hand-off aborts the block by design (C09): wrapped engine errors and
					// malformed engine answers are engine faults, not broken invariants of this chain
					c.Held("R3", "block-hook-error-exit "+key, p.InstrPos(ci), "engine hand-off: a failure must abort the block (C09)")
					continue
				}
			}
			if why, ok := reviewed[key]; ok {
				found[key] = true
				c.Held("R3", "block-hook-error-exit "+key, p.InstrPos(ci), "reviewed: "+why)
			} else {
				c.Violated("R3", "block-hook-error-exit "+key, p.InstrPos(ci), "a new explicit failure of begin/end-of-block processing (halts the chain): "+p.CG().PathTo(f, bparent)+" — review the invariant that excludes it and add it to the table")
			}
		}
	}
	sort.Strings(keysFound)
	c.Extra["block_hook_error_exits"] = keysFound
	c.Floor("R3", "reviewed block-hook error exits found", len(found), 3)
	c.hookFailureNeedsLastCommit("R3")
	// the invariants that make the reviewed exits unreachable
	c.Depend("R3", "C16", propC16, map[string]bool{"R3": true}, "relayer EndBlocker's 'delete too many voters' exit is unreachable only if removals never empty the group")
	c.Depend("R3", "C13", propC13, map[string]bool{"R1": true, "R2": true, "R3": true}, "locking EndBlocker's 'validator in power ranking' exit and CometBFT's rejection of zero-power additions are excluded only by the ranking discipline")
	// R4
	c.noGlobalWrites("R4")
	// the ante chain's writes are committed before the messages run: a store write there survives a failed message
	{
		areach, aparent := p.CG().Reach(p.Contexts().Ante, nil)
		nA, badA := 0, 0
		for f := range areach {
			nA++
			for _, s := range p.StoreSites(f) {
				if s.IsWrite() {
					badA++
					c.Violated("R4", "ante-handler-writes "+ownerKey(p, s.Field)+" @ "+FuncKey(f), p.InstrPos(s.Call), "state written while a transaction is admitted ("+p.CG().PathTo(f, aparent)+"): baseapp commits the ante handler's branch before the messages run, so the write survives a transaction whose message fails")
				}
			}
		}
		if badA == 0 {
			c.Held("R4", "ante-handler-writes-nothing", "", fmt.Sprintf("%d repository functions reachable from the guard's AnteHandle: no store write", nA))
		}
		c.Floor("R4", "functions reachable from AnteHandle (positive control: the relayer proposer lookup)", nA, 2)
	}
	// R5
	c.errorDiscipline("R5", 500)
	c.writeFailureMustFail("R5", 0)
	c.readFailureForgivenOnlyIfNotFound("R5")
	c.errorsIsArgumentOrder("R5")
}


// mayBeNilConst: v is, on some path, the nil constant (directly or through φ-nodes).
// guardFactsOf: the facts of the branch outcomes that dominate instruction in (up to five levels), in the function's
// own terms: what is known to hold when the instruction runs.
func (p *Prog) guardFactsOf(f *ssa.Function, in ssa.Instruction) []string {
	var out []string
	r := p.R(f)
	n := 0
	for d := in.Block(); d != nil && d.Idom() != nil && n < 5; d = d.Idom() {
		id := d.Idom()
		if len(d.Preds) != 1 || d.Preds[0] != id || len(id.Succs) != 2 || id.Succs[0] == id.Succs[1] {
			continue
		}
		iff, ok := id.Instrs[len(id.Instrs)-1].(*ssa.If)
		if !ok {
			continue
		}
		n++
		if id.Succs[0] == d {
			out = append(out, posFact(r, iff.Cond))
		} else {
			out = append(out, negateFact(r, iff.Cond))
		}
	}
	return out
}

// decoratesPropagatedError: one operand of the error constructor is an error value that was not made here: the
// result of a call, a parameter or a captured variable (possibly merged by a φ).
func decoratesPropagatedError(ci ssa.CallInstruction) bool {
	var operands []ssa.Value
	for _, a := range ci.Common().Args {
		operands = append(operands, a)
		// the array behind a variadic argument list
		if sl, ok := a.(*ssa.Slice); ok {
			if arr, ok := sl.X.(*ssa.Alloc); ok && arr.Referrers() != nil {
				for _, r := range *arr.Referrers() {
					if ia, ok := r.(*ssa.IndexAddr); ok && ia.Referrers() != nil {
						for _, r2 := range *ia.Referrers() {
							if st, ok := r2.(*ssa.Store); ok && st.Addr == ssa.Value(ia) {
								operands = append(operands, st.Val)
							}
						}
					}
				}
			}
		}
	}
	var propagated func(v ssa.Value, depth int) bool
	propagated = func(v ssa.Value, depth int) bool {
		if depth > 4 {
			return false
		}
		switch x := v.(type) {
		case *ssa.MakeInterface:
			return propagated(x.X, depth+1)
		case *ssa.ChangeInterface:
			return propagated(x.X, depth+1)
		case *ssa.Parameter, *ssa.FreeVar:
			return types.Identical(v.Type(), errorType)
		case *ssa.Extract:
			return types.Identical(v.Type(), errorType) && classifyErr(v, map[ssa.Value]bool{}) != exitSuccess
		case *ssa.Call:
			if !types.Identical(v.Type(), errorType) {
				return false
			}
			if cf := calleeFunc(&x.Call); cf != nil && errCtor[funcShort(cf)] {
				return false
			}
			return true
		case *ssa.Phi:
			if !types.Identical(v.Type(), errorType) {
				return false
			}
			for _, e := range x.Edges {
				if !isNilConst(e) && !propagated(e, depth+1) {
					return false
				}
			}
			return true
		case *ssa.UnOp:
			// a captured / named error variable of the function
			if x.Op == token.MUL && types.Identical(v.Type(), errorType) {
				switch x.X.(type) {
				case *ssa.FreeVar, *ssa.Alloc:
					return true
				}
			}
		}
		return false
	}
	for _, o := range operands {
		if propagated(o, 0) {
			return true
		}
	}
	return false
}

func mayBeNilConst(v ssa.Value, depth int) bool {
	if depth > 4 {
		return false
	}
	switch x := v.(type) {
	case *ssa.Const:
		return x.Value == nil
	case *ssa.Phi:
		for k, e := range x.Edges {
			// a transition that is the impossible outcome of a nil test of a known failure value carries nothing
			if k < len(x.Block().Preds) && deadEdge(x.Block().Preds[k], x.Block()) {
				continue
			}
			if mayBeNilConst(e, depth+1) {
				return true
			}
		}
	}
	return false
}


// certainCrash: a use of v that faults (or a panic(v) that throws away a success) in a block every way into which has
// passed the outcome `v == nil` of a branch on that very value.
func (c *Check) certainCrash(rule string) {
	p := c.p
	n, bad := 0, 0
	for _, f := range p.ProdFuncs {
		if p.isGenerated(f) {
			continue
		}
		k := FuncKey(rootOf(f))
		if !(strings.HasPrefix(k, "x/") || strings.HasPrefix(k, "app.")) || strings.Contains(k, "/client/") || strings.Contains(k, "testutil") {
			continue
		}
		c.touch(f)
		for _, b := range f.Blocks {
			for _, in := range b.Instrs {
				var ptr ssa.Value
				what := ""
				switch x := in.(type) {
				case *ssa.UnOp:
					if x.Op == token.MUL {
						ptr, what = x.X, "load through"
					}
				case *ssa.FieldAddr:
					ptr, what = x.X, "field of"
				case *ssa.IndexAddr:
					if _, isPtr := x.X.Type().Underlying().(*types.Pointer); isPtr {
						ptr, what = x.X, "element of"
					}
				case *ssa.Store:
					ptr, what = x.Addr, "store through"
				case ssa.CallInstruction:
					if com := x.Common(); com.IsInvoke() {
						ptr, what = com.Value, "method call on"
					}
				case *ssa.Return:
					// `return …, err` on the outcome `err == nil` of a test of that very error: the bail-out was put on the
					// wrong branch — the caller is told success with whatever the other results are at that point
					if n := len(x.Results); n > 0 && types.Identical(x.Results[n-1].Type(), errorType) {
						ev := x.Results[n-1]
						if sv := spilledValue(ev, x); sv != nil {
							ev = sv // results spilled to named variables because of a defer
						}
						if _, isConst := ev.(*ssa.Const); !isConst {
							if _, isPhi := ev.(*ssa.Phi); !isPhi && (knownNilAt(ev, b) || (stableValue(ev, 0) && p.R(f).domFacts(b)[EQ(p.R(f).E(ev), "nil")])) {
								// only a bail-out: the block does nothing but return, right after the test
								onlySpills := true
								for _, bi := range b.Instrs[:len(b.Instrs)-1] {
									switch bi.(type) {
									case *ssa.Store, *ssa.UnOp, *ssa.DebugRef, *ssa.RunDefers:
									default:
										onlySpills = false
									}
								}
								if onlySpills && len(b.Preds) == 1 {
									bad++
									c.Violated(rule, "error-returned-where-nil @ "+FuncKey(f), p.InstrPos(in), "returns "+p.R(f).E(ev)+" on the branch where a test just found it nil: the failure branch and the success branch are swapped")
								}
							}
						}
					}
					continue
				case *ssa.Panic:
					{
						arg := x.X
						if mi, ok := arg.(*ssa.MakeInterface); ok {
							arg = mi.X
						}
						if ci, ok := arg.(*ssa.ChangeInterface); ok {
							arg = ci.X
						}
						if types.Identical(arg.Type(), errorType) {
							n++
							if knownNilAt(arg, b) || (stableValue(arg, 0) && p.R(f).domFacts(b)[EQ(p.R(f).E(arg), "nil")]) {
								bad++
								c.Violated(rule, "panic-on-success @ "+FuncKey(f), p.InstrPos(in), "panic("+p.R(f).E(arg)+") is reached only after the branch outcome that the error is nil: the function gives up exactly when the step succeeded")
							}
						}
					}
					continue
				}
				if ptr == nil {
					continue
				}
				switch ptr.(type) {
				case *ssa.Alloc, *ssa.Global, *ssa.FieldAddr, *ssa.IndexAddr:
					continue // addresses, never nil
				}
				n++
				if knownNilAt(ptr, b) || (stableValue(ptr, 0) && p.R(f).domFacts(b)[EQ(p.R(f).E(ptr), "nil")]) || reloadedNil(p.R(f), ptr, in) {
					bad++
					c.Violated(rule, "nil-dereference @ "+FuncKey(f), p.InstrPos(in), what+" "+p.R(f).E(ptr)+" on a path where a dominating branch established that it is nil")
				}
			}
		}
	}
	if bad == 0 {
		c.Held(rule, "no-certain-crash", "", fmt.Sprintf("%d dereferences and panic(err) sites in hand-written production code, none dominated by the outcome `== nil` of a test of the same value", n))
	}
	c.Floor(rule, "dereference / panic(err) sites examined", n, 200)
}


// reloadedNil: ptr is a field read again right after the same field was tested against nil: the block of `use` is
// entered only from the block that ends in that test, on its `== nil` outcome, and nothing between the test and the
// use (no store, no call) can have changed the field.
func reloadedNil(r *Renderer, ptr ssa.Value, use ssa.Instruction) bool {
	ld, ok := ptr.(*ssa.UnOp)
	if !ok || ld.Op != token.MUL {
		return false
	}
	b := use.Block()
	if len(b.Preds) != 1 {
		return false
	}
	id := b.Preds[0]
	iff, ok := id.Instrs[len(id.Instrs)-1].(*ssa.If)
	if !ok || len(id.Succs) != 2 || id.Succs[0] == id.Succs[1] {
		return false
	}
	bo, ok := iff.Cond.(*ssa.BinOp)
	if !ok || (bo.Op != token.EQL && bo.Op != token.NEQ) {
		return false
	}
	var tested ssa.Value
	switch {
	case isNilConst(bo.Y):
		tested = bo.X
	case isNilConst(bo.X):
		tested = bo.Y
	default:
		return false
	}
	tl, ok := tested.(*ssa.UnOp)
	if !ok || tl.Op != token.MUL || tl.Block() != id || r.E(tl.X) != r.E(ld.X) {
		return false
	}
	nilSucc := 0
	if bo.Op == token.NEQ {
		nilSucc = 1
	}
	if id.Succs[nilSucc] != b {
		return false
	}
	effect := func(in ssa.Instruction) bool {
		switch in.(type) {
		case *ssa.Store, ssa.CallInstruction, *ssa.MapUpdate, *ssa.Send:
			return true
		}
		return false
	}
	after := false
	for _, in := range id.Instrs {
		if in == ssa.Instruction(tl) {
			after = true
			continue
		}
		if after && effect(in) {
			return false
		}
	}
	for _, in := range b.Instrs {
		if in == use || in == ssa.Instruction(ld) {
			break
		}
		if effect(in) {
			return false
		}
	}
	return true
}


// divisorParamsValidated: integer divisions in production code whose divisor is a field of a repository `Params` record;
// the record's Validate must refuse a zero.
func (c *Check) divisorParamsValidated(rule string) {
	p := c.p
	type key struct {
		t *types.Named
		f string
	}
	seen := map[key]ssa.Instruction{}
	for _, f := range p.ProdFuncs {
		if p.isGenerated(f) {
			continue
		}
		for _, b := range f.Blocks {
			for _, in := range b.Instrs {
				bo, ok := in.(*ssa.BinOp)
				if !ok || (bo.Op != token.QUO && bo.Op != token.REM) {
					continue
				}
				if bt, ok := bo.Y.Type().Underlying().(*types.Basic); !ok || bt.Info()&types.IsInteger == 0 {
					continue
				}
				y := bo.Y
				if cv, ok := y.(*ssa.Convert); ok {
					y = cv.X
				}
				ld, ok := y.(*ssa.UnOp)
				if !ok || ld.Op != token.MUL {
					continue
				}
				fa, ok := ld.X.(*ssa.FieldAddr)
				if !ok {
					continue
				}
				nt := namedOf(fa.X.Type())
				if nt == nil || nt.Obj().Name() != "Params" || nt.Obj().Pkg() == nil || !strings.HasPrefix(nt.Obj().Pkg().Path(), modPath) {
					continue
				}
				k := key{nt, fieldName(fa.X.Type(), fa.Field)}
				if _, dup := seen[k]; !dup {
					seen[k] = in
					c.touch(f)
				}
			}
		}
	}
	var keys []key
	for k := range seen {
		keys = append(keys, k)
	}
	sort.Slice(keys, func(i, j int) bool { return keys[i].t.Obj().Pkg().Path()+keys[i].f < keys[j].t.Obj().Pkg().Path()+keys[j].f })
	for _, k := range keys {
		vkey := relPkg(k.t.Obj().Pkg().Path()) + ".Params.Validate"
		vf := p.Fn(vkey)
		cons := "divisor " + relPkg(k.t.Obj().Pkg().Path()) + ".Params." + k.f
		if vf == nil {
			c.Violated(rule, cons, p.InstrPos(seen[k]), "divided by at "+p.InstrPos(seen[k])+" but "+vkey+" does not exist reason=not-established")
			continue
		}
		c.RequireFact(vf, rule, cons+" validated positive", patPositive("$0."+k.f), nil, "")
	}
	c.Floor(rule, "parameters used as divisors", len(keys), 1)
}
