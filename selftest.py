#!/usr/bin/env python3
"""Thorough tier: (1) checker self-test — every patch of the mutant corpus for this property is applied to a
scratch copy of /repo's *current* tree, type-checked and analysed; it must be reported (or, for *.silent.patch,
must NOT be reported); (2) the property's obligations are decided on the unmodified tree (this alone gives the verdict).
SELFTEST lines never contain VIOLATION; VIOLATION lines come solely from the unmodified working tree."""
import sys, os, json, glob, subprocess, tempfile, shutil, time
from concurrent.futures import ThreadPoolExecutor

VERIF = os.path.dirname(os.path.abspath(__file__))
pid, repo = sys.argv[1], sys.argv[2]
BIN = os.environ.get("GOATVERIF_BIN") or os.path.join(VERIF, "bin", "goatverif")

def corpus():
    out = []
    for f in sorted(glob.glob(os.path.join(VERIF, "mutants", pid, "*.patch"))):
        out.append((os.path.basename(f), f, f.endswith(".silent.patch")))
    for d in sorted(glob.glob(os.path.join(VERIF, "seeded", "*"))):
        meta = os.path.join(d, "meta.json")
        patch = os.path.join(d, "patch.diff")
        if os.path.exists(meta) and os.path.exists(patch):
            try:
                m = json.load(open(meta))
            except Exception:
                continue
            if pid in (m.get("property"), *m.get("also_checked_by", [])):
                out.append(("seeded/" + os.path.basename(d), patch, False))
    # behaviour-preserving refactors written by independent agents: none may be reported. To keep the tier within
    # minutes, a property re-checks the refactors that touch a file its own mutants and seeds touch (its area of the
    # code); sweep.py runs every refactor against every property.
    area = set()
    for _, patch, _ in out:
        area.update(touched(patch))
    for f in sorted(glob.glob(os.path.join(VERIF, "benign", "*.silent.patch"))):
        if not area or area.intersection(touched(f)):
            out.append(("benign/" + os.path.basename(f), f, True))
    return out

def touched(patch):
    files = set()
    for l in open(patch, errors="replace"):
        if l.startswith("+++ ") or l.startswith("--- "):
            f = l[4:].split("\t")[0].strip()
            if f == "/dev/null":
                continue
            files.add(f.split("/", 1)[1] if f.startswith(("a/", "b/")) else f)
    return sorted(files)

def run_one(item):
    """The variant tree = /repo's current working tree with the patched files overlaid (go/packages
    Overlay): only the touched files are copied, patched in a scratch directory and handed to the
    checker with -overlay; everything else is read from /repo itself."""
    name, patch, silent = item
    tmp = tempfile.mkdtemp(prefix="goatverif-mut-")
    try:
        dst = os.path.join(tmp, "overlay")
        os.makedirs(dst)
        for rel in touched(patch):
            src = os.path.join(repo, rel)
            if os.path.exists(src):
                os.makedirs(os.path.dirname(os.path.join(dst, rel)), exist_ok=True)
                shutil.copy(src, os.path.join(dst, rel))
        r = subprocess.run(["patch", "-p1", "-s", "--no-backup-if-mismatch", "-i", patch], cwd=dst, capture_output=True, text=True)
        if r.returncode != 0:
            return {"mutant": name, "result": "skipped", "why": "patch does not apply to the current tree"}
        for root, _, fs in os.walk(dst):
            for f in fs:
                if f.endswith((".orig", ".rej")):
                    os.unlink(os.path.join(root, f))
        t0 = time.time()
        os.makedirs(os.path.join(tmp, "t"))
        env = dict(os.environ, TMPDIR=os.path.join(tmp, "t"))
        r = subprocess.run([BIN, "-repo", repo, "-overlay", dst, "-verif", VERIF, "-prop", pid, "-no-evidence"], capture_output=True, text=True, env=env)
        hits = []
        for l in r.stdout.splitlines():
            if l.startswith("VIOLATION "):
                parts = dict(kv.split("=", 1) for kv in l.split(" ")[1:] if "=" in kv and not kv.startswith("construct"))
                cons = l.split('construct="', 1)[1].split('"', 1)[0] if 'construct="' in l else ""
                hits.append(parts.get("rule", "?") + " @ " + cons)
        if r.returncode == 2:
            return {"mutant": name, "result": "does-not-compile-or-unresolved", "why": (r.stdout + r.stderr)[-300:]}
        caught = r.returncode == 1 and hits
        if silent:
            res = "silent-ok" if not caught else "FALSE-ALARM"
        else:
            res = "caught" if caught else "MISSED"
        return {"mutant": name, "result": res, "reported": hits[:6], "wall_s": round(time.time() - t0, 1)}
    finally:
        shutil.rmtree(tmp, ignore_errors=True)

items = corpus()
results = []
if items:
    with ThreadPoolExecutor(max_workers=12) as ex:
        results = list(ex.map(run_one, items))
for r in results:
    print("SELFTEST  %s %-28s %s %s" % (pid, r["result"], r["mutant"], "; ".join(r.get("reported", []))[:200]))
summary = {
    "selftest_mutants": len(results),
    "programs": len(results) + 1,
    "selftest_caught": sum(1 for r in results if r["result"] == "caught"),
    "selftest_missed": [r["mutant"] for r in results if r["result"] == "MISSED"],
    "selftest_false_alarms": [r["mutant"] for r in results if r["result"] == "FALSE-ALARM"],
    "selftest_silent_ok": sum(1 for r in results if r["result"] == "silent-ok"),
    "selftest_skipped": [r["mutant"] for r in results if r["result"] in ("skipped", "does-not-compile-or-unresolved")],
    "selftest_results": results,
}
fd, path = tempfile.mkstemp(prefix="goatverif-selftest-", suffix=".json")
with os.fdopen(fd, "w") as f:
    json.dump(summary, f)
try:
    rc = subprocess.run([BIN, "-repo", repo, "-verif", VERIF, "-prop", pid, "-tier", "thorough", "-selftest", path]).returncode
finally:
    os.unlink(path)
sys.exit(rc)
