package main

import (
	"fmt"
	"go/token"
	"os"
	"regexp"
	"sort"
	"strings"

	"golang.org/x/tools/go/ssa"
)

func init() { register("C16", propC16) }

func propC16(c *Check) {
	p := c.p
	c.Rule("R1", "NewVoter proofs: Validate, proposer binding, voter loaded by Hash160(tx key), status PENDING, SHA256(BLS key) == registered key hash, ECDSA and BLS proofs both over the same sign doc = VoteSignDoc(method, chain id, proposer, 0, epoch, SignDoc(height, address, key hash)) — all before any write")
	c.Rule("R2", "voter typestate: new→PENDING; PENDING→ON_BOARDING|OFF_BOARDING (NewVoter); ACTIVATED→OFF_BOARDING (removal); queue members→ACTIVATED (election); every →ON/OFF_BOARDING write is paired with one append of that address to the matching queue")
	c.Rule("R3", "never empty: a removal is queued only after the remaining-member count (voters + proposer − queued removals, decremented for this one) is still >= 1")
	c.Rule("R4", "election: past the period/timeout guard every success path increments the epoch once, sets LastElected = block time and stores the relayer; a removed proposer is replaced by the first remaining voter which leaves the voter list; an elected proposer is swapped with a voter; the queues are applied then cleared")
	c.Rule("R5", "writers of Relayer, Voters and Queue")
	c.Rule("R6", "members are distinct: a voter record created at run time is stored only when its address is absent and after the existing voters were consulted with the new vote key (a branch on a lookup that receives the key and reads the voter records)")
	c.freshVotersAreDistinct("R6")
	c.voteKeyRepresentation("R6")
	c.Rule("R7", "an imported relayer group is well-formed: genesis import refuses a proposer that is also listed among the voters")
	c.Rule("R8", "a proposer that acts is marked accepted (otherwise the end blocker elects a new one although the proposer did not fail to accept in time): every success exit of VerifyProposal / VerifyNonProposal is reached either with the loaded ProposerAccepted flag true or through a Relayer.Set of the record whose flag was set to true")
	c.actingProposerMarkedAccepted("R8")
	c.genesisRefusesProposerAmongVoters("R7")
	c.duplicateChecksRecord("R7", "x/relayer/module.InitGenesis", 1)

	nv := p.MustFn("x/relayer/keeper.msgServer.NewVoter")
	ws := p.writeSites(nv)
	var wt []ssa.Instruction
	for _, w := range ws {
		if s := p.CallStr(w.(ssa.CallInstruction)); strings.Contains(s, "VerifyNonProposal(") {
			continue
		}
		wt = append(wt, w)
	}
	// account creation through the account keeper is a write as well
	for _, ci := range p.FindCalls(nv, `^AccountKeeper\.(SetAccount|NewAccountWithAddress)\(`) {
		wt = append(wt, ci)
	}
	tgt := instrSet(wt)
	addr := "Codec.BytesToString(crypto.Hash160Sum($2.VoterTxKey))#0"
	V := "Voters.Get(" + addr + ")#0"
	req := "relayer/types.NewOnBoardingVoterRequest(" + V + ".Height, crypto.Hash160Sum($2.VoterTxKey), " + V + ".VoteKey)"
	doc := "relayer/types.VoteSignDoc(OnBoardingVoterRequest.MethodName(" + req + "), Context.ChainID(), $2.Proposer, 0, IRelayer.GetEpoch(Keeper.VerifyNonProposal($2)#0), OnBoardingVoterRequest.SignDoc(" + req + "))"
	for name, pat := range map[string]string{
		"Validate":         lit("(MsgNewVoterRequest.Validate($2) == nil)"),
		"proposer-bound":   lit("(Keeper.VerifyNonProposal($2)#1 == nil)"),
		"voter-registered": lit("(" + strings.TrimSuffix(V, "#0") + "#1 == nil)"),
		"status-pending":   lit(EQ("VOTER_STATUS_PENDING", V+".Status")),
		"bls-key-hash":     lit("bytes.Equal("+V+".VoteKey, crypto.SHA256Sum([$2.VoterBlsKey]))") + "|" + lit("bytes.Equal(crypto.SHA256Sum([$2.VoterBlsKey]), "+V+".VoteKey)"),
		"tx-key-proof":     lit("crypto.VerifySignature($2.VoterTxKey, " + doc + ", $2.VoterTxKeyProof)"),
		"bls-key-proof":    lit("crypto.Verify($2.VoterBlsKey, " + doc + ", $2.VoterBlsKeyProof)"),
	} {
		c.RequireFact(nv, "R1", name, pat, nil, "")
		c.RequireFact(nv, "R1", name+"-before-write", pat, tgt, "state write")
	}
	// which crypto packages
	for _, ci := range callsIn(nv) {
		if f := calleeFunc(ci.Common()); f != nil && f.Pkg() != nil {
			switch f.FullName() {
			case "github.com/ethereum/go-ethereum/crypto.VerifySignature":
				c.Held("R1", "ecdsa-verifier @ "+FuncKey(nv), p.InstrPos(ci), f.FullName())
			case modPath + "/pkg/crypto.Verify":
				c.Held("R1", "bls-verifier @ "+FuncKey(nv), p.InstrPos(ci), f.FullName())
			}
		}
	}
	// SignDoc binds height, address, key hash; MethodName constant
	sd := p.MustFn("x/relayer/types.OnBoardingVoterRequest.SignDoc")
	c.touch(sd)
	for _, e := range Exits(sd) {
		s := p.R(sd).E(e.Ret.Results[0])
		if s == "slices.Concat([crypto.Uint64LE([$0.Height]), $0.TxKeyHash, $0.VoteKeyHash])" {
			c.Held("R1", "registration-signdoc @ "+FuncKey(sd), p.InstrPos(e.Ret), s)
		} else {
			c.Violated("R1", "registration-signdoc @ "+FuncKey(sd), p.InstrPos(e.Ret), "sign doc is "+s+", expected height ‖ address ‖ vote-key hash")
		}
	}
	nr := p.MustFn("x/relayer/types.NewOnBoardingVoterRequest")
	c.touch(nr)
	{
		want := map[string]string{"Height": "$0", "TxKeyHash": "$1", "VoteKeyHash": "$2"}
		for _, s := range p.renderedStores(nr) {
			for f, w := range want {
				if strings.HasSuffix(s.addr, "."+f) {
					if s.val == w {
						c.Held("R1", "registration-request."+f+" @ "+FuncKey(nr), p.InstrPos(s.in), w)
					} else {
						c.Violated("R1", "registration-request."+f+" @ "+FuncKey(nr), p.InstrPos(s.in), "is "+s.val)
					}
				}
			}
		}
	}
	// the key that will verify votes is the proven BLS key
	{
		okKey := false
		for _, s := range p.renderedStores(nv) {
			if s.addr == V+".VoteKey" {
				okKey = s.val == "$2.VoterBlsKey"
				if !okKey {
					c.Violated("R1", "stored-vote-key @ "+FuncKey(nv), p.InstrPos(s.in), "stored vote key is "+s.val)
				}
			}
		}
		if okKey {
			c.Held("R1", "stored-vote-key @ "+FuncKey(nv), p.Pos(nv.Pos()), "voter.VoteKey = the BLS key whose possession was proven")
		} else {
			c.Violated("R1", "stored-vote-key-found @ "+FuncKey(nv), p.Pos(nv.Pos()), "store of the proven BLS key not found reason=not-established")
		}
	}

	// R2 typestate
	vt := p.LookupType("x/relayer/types", "Voter")
	en := p.EnumOf(p.LookupType("x/relayer/types", "VoterStatus"))
	pend, onb, offb, act := en.Set("VOTER_STATUS_PENDING"), en.Set("VOTER_STATUS_ON_BOARDING"), en.Set("VOTER_STATUS_OFF_BOARDING"), en.Set("VOTER_STATUS_ACTIVATED")
	nW := 0
	var relation []string
	for _, f := range p.ProdFuncs {
		if p.isGenerated(f) || !strings.HasPrefix(FuncKey(rootOf(f)), "x/relayer/") {
			continue
		}
		ts := p.AnalyzeTypestate(f, vt, "Status", en)
		if len(ts.Allocs) == 0 {
			continue
		}
		c.touch(f)
		key := FuncKey(f)
		r := p.R(f)
		for _, w := range ts.Writes() {
			nW++
			desc := en.Str(w.From) + "→" + en.Str(w.To)
			cons := "voter-transition →" + strings.Trim(en.Str(w.To), "{}") + " @ " + key
			relation = append(relation, key+": "+desc)
			ok := false
			switch {
			case w.Fresh:
				ok = w.To == pend
			case w.To == onb || w.To == offb:
				ok = w.From == pend || (w.To == offb && w.From == act)
			case w.To == act:
				ok = key == "x/relayer/keeper.Keeper.EndBlocker" && strings.Contains(r.E(w.Store.Addr), "Queue.Get()#0.OnBoarding[")
			}
			if ok {
				c.Held("R2", cons, p.InstrPos(w.Store), desc)
			} else {
				c.Violated("R2", cons, p.InstrPos(w.Store), "voter status write "+desc+" is not one of new→PENDING, PENDING→ON/OFF_BOARDING, ACTIVATED→OFF_BOARDING, on-boarding queue member→ACTIVATED")
			}
			// pairing with the queue append
			if w.To == onb || w.To == offb {
				q := map[EnumSet]string{onb: "OnBoarding", offb: "OffBoarding"}[w.To]
				var apps []ssa.Instruction
				for _, s := range p.renderedStores(f) {
					if s.addr == "Queue.Get()#0."+q && strings.HasPrefix(s.val, "append(") {
						apps = append(apps, s.in)
						continue
					}
					// the new queue may be built in a local record (whose lists start as the stored ones) and
					// committed with Queue.Set afterwards
					if fa, ok := s.in.Addr.(*ssa.FieldAddr); ok && fieldName(fa.X.Type(), fa.Field) == q && namedOf(fa.X.Type()) != nil && namedOf(fa.X.Type()).Obj().Name() == "VoterQueue" {
						if strings.HasPrefix(s.val, "append(") && strings.Contains(s.val, "Queue.Get()#0."+q) && len(p.commitPoints(f, s.in)) > 0 {
							apps = append(apps, s.in)
						}
					}
				}
				paired := len(apps) > 0
				if paired {
					succ := successTargets(f)
					isA := instrSet(apps)
					// after the status write: no success exit / further status write without the append; an append only after a write
					if t, _ := (&PathSearch{Fn: f, From: w.Store, AvoidInstr: isA, IsTarget: func(in ssa.Instruction) bool { return succ(in) || in == ssa.Instruction(w.Store) }}).Find(); t != nil {
						paired = false
					}
					var allW []ssa.Instruction
					for _, w2 := range ts.Writes() {
						if w2.To == w.To {
							allW = append(allW, w2.Store)
						}
					}
					if t, _ := (&PathSearch{Fn: f, AvoidInstr: instrSet(allW), IsTarget: isA}).Find(); t != nil {
						paired = false
					}
				}
				if paired {
					c.Held("R2", "queue-append-paired →"+q+" @ "+key, p.InstrPos(w.Store), "")
				} else {
					c.Violated("R2", "queue-append-paired →"+q+" @ "+key, p.InstrPos(w.Store), "status →"+strings.Trim(en.Str(w.To), "{}")+" without appending the voter to queue."+q+" on the same path")
				}
			}
		}
	}
	sort.Strings(relation)
	c.Extra["voter_status_relation"] = relation
	c.Floor("R2", "voter status writes", nW, 3)

	// R3
	pr := p.MustFn("x/relayer/keeper.Keeper.ProcessRelayerRequest")
	c.touch(pr)
	{
		var apps []ssa.Instruction
		for _, s := range p.renderedStores(pr) {
			if s.addr == "Queue.Get()#0.OffBoarding" {
				apps = append(apps, s.in)
				id := "[Codec.BytesToString(Address.Bytes($2.Removes[φ{(1 + @)|0}].Voter))#0]"
				want := "append(mix{Queue.Get()#0.OffBoarding|append(@, " + id + ")}, " + id + ")"
				if s.val != want {
					c.Violated("R3", "removal-queue-append @ "+FuncKey(pr), p.InstrPos(s.in), "OffBoarding = "+s.val)
				}
			}
		}
		if len(apps) != 1 {
			c.Violated("R3", "removal-queue-append-found @ "+FuncKey(pr), p.Pos(pr.Pos()), fmt.Sprintf("%d OffBoarding appends reason=not-established", len(apps)))
		} else {
			active := "φ{((1 + len(Relayer.Get()#0.Voters)) - len(Queue.Get()#0.OffBoarding))|(@ - 1)}"
			c.RequireFact(pr, "R3", "group-stays-non-empty", lit("(1 <= ("+active+" - 1))")+"|"+lit("(0 < ("+active+" - 1))"), instrSet(apps), "queueing a removal")
			c.RequireFact(pr, "R3", "only-activated-removed", lit(EQ("VOTER_STATUS_ACTIVATED", "Voters.Get(Codec.BytesToString(Address.Bytes($2.Removes[φ{(1 + @)|0}].Voter))#0)#0.Status")), instrSet(apps), "queueing a removal")
			c.RequireFact(pr, "R3", "queue-stored", lit("(Queue.Set(Queue.Get()#0) == nil)")+"|"+lit(EQ("0", "len($2.Removes)")), nil, "")
		}
		// adds: only unknown addresses, registered as PENDING with the block height
		c.RequireFact(pr, "R3", "add-only-unknown", lit("!Voters.Has(Codec.BytesToString($2.Adds[φ{(1 + @)|0}].Voter[:])#0)#0"), instrSet(callInstrs(p.FindCalls(pr, `^Voters\.Set\(Codec\.BytesToString\(\$2\.Adds`))), "registering a voter")
	}

	// R4 election
	eb := p.MustFn("x/relayer/keeper.Keeper.EndBlocker")
	c.touch(eb)
	c.HookRuns("R4", "x/relayer/module.AppModule.EndBlock", "x/relayer/keeper.Keeper.EndBlocker")
	{
		stores := p.renderedStores(eb)
		var epochSt, lastSt []ssa.Instruction
		for _, s := range stores {
			switch s.addr {
			case "Relayer.Get()#0.Epoch":
				epochSt = append(epochSt, s.in)
				if s.val != "(1 + Relayer.Get()#0.Epoch)" {
					c.Violated("R4", "epoch+1 @ "+FuncKey(eb), p.InstrPos(s.in), "epoch becomes "+s.val)
				}
			case "Relayer.Get()#0.LastElected":
				lastSt = append(lastSt, s.in)
				if s.val != "Context.BlockTime()" {
					c.Violated("R4", "last-elected=block-time @ "+FuncKey(eb), p.InstrPos(s.in), "LastElected = "+s.val)
				}
			}
		}
		qg := p.FindCalls(eb, `^Queue\.Get\(\)`)
		if len(epochSt) != 1 || len(lastSt) != 1 || len(qg) != 1 {
			c.Violated("R4", "election-bookkeeping @ "+FuncKey(eb), p.Pos(eb.Pos()), fmt.Sprintf("epoch stores %d, LastElected stores %d, Queue.Get %d (want 1 each) reason=not-established", len(epochSt), len(lastSt), len(qg)))
		} else {
			succ := successTargets(eb)
			if t, path := (&PathSearch{Fn: eb, From: qg[0], AvoidInstr: instrSet(epochSt), IsTarget: succ}).Find(); t != nil {
				c.Violated("R4", "epoch-incremented-on-every-election @ "+FuncKey(eb), p.InstrPos(t), "an election path ends without incrementing the epoch", p.describePath(path)...)
			} else {
				c.Held("R4", "epoch-incremented-on-every-election @ "+FuncKey(eb), p.InstrPos(epochSt[0]), "(1 + epoch), once, not in a loop")
			}
			if p.R(eb).blockReach(epochSt[0].Block())[epochSt[0].Block()] {
				c.Violated("R4", "epoch-once @ "+FuncKey(eb), p.InstrPos(epochSt[0]), "epoch increment inside a loop")
			}
			relRe := regexp.MustCompile(`^\(Relayer\.Set\(\*?(Relayer\.Get\(\)#0|\$\d)\)(‹\d+›)? == nil\)$`)
			relSetOK := edgeSet(p.MatchEdges(eb, relRe))
			if t, path := (&PathSearch{Fn: eb, From: qg[0], AvoidEdges: relSetOK, IsTarget: p.successTargetsFor(eb, relRe)}).Find(); t != nil {
				c.Violated("R4", "relayer-stored-on-every-election @ "+FuncKey(eb), p.InstrPos(t), "an election path ends without storing the relayer", p.describePath(path)...)
			} else {
				c.Held("R4", "relayer-stored-on-every-election @ "+FuncKey(eb), p.InstrPos(qg[0]), "")
			}
			// the epoch is incremented before the relayer is stored
			for _, s := range p.StoreSites(eb) {
				if s.Field.Name() == "Relayer" && s.Method == "Set" {
					if t, _ := (&PathSearch{Fn: eb, AvoidInstr: instrSet(epochSt), IsTarget: func(in ssa.Instruction) bool { return in == ssa.Instruction(s.Call) }}).Find(); t != nil {
						c.Violated("R4", "epoch-before-store @ "+FuncKey(eb), p.InstrPos(s.Call), "relayer stored on a path that did not increment the epoch")
					}
				}
			}
		}
		// no election only when the period has not elapsed and the proposer accepted / no timeout / timeout not reached
		var early []ssa.Instruction
		for _, e := range Exits(eb) {
			if e.Kind != exitFailure && len(qg) == 1 && !instrDominates(qg[0], e.Ret) {
				early = append(early, e.Ret)
			}
		}
		dur := "Time.Sub(Context.BlockTime(), Relayer.Get()#0.LastElected)"
		if len(early) > 0 {
			c.RequireFact(eb, "R4", "no-election-only-within-period", lit("("+dur+" < Params.Get()#0.ElectingPeriod)"), instrSet(early), "skipping the election")
			c.RequireFact(eb, "R4", "no-election-only-if-accepted-or-not-timed-out", lit("Relayer.Get()#0.ProposerAccepted")+"|"+lit(EQ("0", "Params.Get()#0.AcceptProposerTimeout"))+"|"+lit("("+dur+" < Params.Get()#0.AcceptProposerTimeout)"), instrSet(early), "skipping the election")
		} else {
			c.Violated("R4", "election-guard @ "+FuncKey(eb), p.Pos(eb.Pos()), "no early return: elections would run every block reason=not-established")
		}
		// and conversely an election runs only when it is due: the period has elapsed, or the proposer has not
		// accepted, an accept timeout is configured (non-zero) and that timeout has elapsed
		if len(epochSt) > 0 {
			due := lit("(Params.Get()#0.ElectingPeriod <= " + dur + ")")
			tgt := instrSet(epochSt)
			c.RequireFact(eb, "R4", "election-only-after-period-or-not-accepted", due+"|"+lit("!Relayer.Get()#0.ProposerAccepted"), tgt, "starting an election")
			c.RequireFact(eb, "R4", "election-only-after-period-or-timeout-configured", due+"|"+lit(NE("0", "Params.Get()#0.AcceptProposerTimeout")), tgt, "starting an election")
			c.RequireFact(eb, "R4", "election-only-after-period-or-timeout-elapsed", due+"|"+lit("(Params.Get()#0.AcceptProposerTimeout <= "+dur+")"), tgt, "starting an election")
		}
		// a proposer that was just put in place has not accepted yet: wherever the stored record may carry a
		// different proposer than the loaded one, it carries ProposerAccepted = false (otherwise a new proposer
		// that never acts is not replaced when the accept timeout passes)
		{
			r := p.R(eb)
			n := 0
			for _, s := range p.StoreSites(eb) {
				if s.Field.Name() != "Relayer" || s.Method != "Set" || len(s.Args) == 0 {
					continue
				}
				u, ok := s.Args[len(s.Args)-1].(*ssa.UnOp)
				if !ok || u.Op != token.MUL {
					continue
				}
				a, path := rootAlloc(u.X)
				if a == nil || path != "" {
					continue
				}
				n++
				cons := fmt.Sprintf("new-proposer-not-yet-accepted#%d @ %s", n, FuncKey(eb))
				prop := r.fieldAt(a, ".Proposer", s.Call, "unchanged", 0)
				acc := r.fieldAt(a, ".ProposerAccepted", s.Call, "unchanged", 0)
				if os.Getenv("GOATVERIF_DEBUG_C16") != "" {
					fmt.Fprintln(os.Stderr, "C16 accepted:", p.InstrPos(s.Call), "proposer=", prop, "accepted=", acc)
				}
				reachedBy := ""
				if prop != "unchanged" && acc != "false" {
					// which proposer assignment can actually be observed here (the rendering joins assignments
					// of branches that exclude each other)
					for _, b := range eb.Blocks {
						for _, in := range b.Instrs {
							st, ok := in.(*ssa.Store)
							if !ok {
								continue
							}
							if ra, sp := rootAlloc(st.Addr); ra != a || sp != ".Proposer" {
								continue
							}
							if t, _ := (&PathSearch{Fn: eb, From: st, IsTarget: func(x ssa.Instruction) bool { return x == ssa.Instruction(s.Call) }}).Find(); t != nil {
								reachedBy = p.InstrPos(st)
							}
						}
					}
				}
				switch {
				case prop == "unchanged":
					c.Held("R4", cons, p.InstrPos(s.Call), "the proposer is the loaded one; flag "+acc)
				case acc != "false" && reachedBy == "":
					c.Held("R4", cons, p.InstrPos(s.Call), "no proposer assignment reaches this store; flag "+acc)
				case acc == "false":
					c.Held("R4", cons, p.InstrPos(s.Call), "proposer "+prop+" stored with ProposerAccepted = false")
				default:
					c.Violated("R4", cons, p.InstrPos(s.Call), "the record is stored with proposer "+prop+" and ProposerAccepted = "+acc+" (want false: the new proposer has not accepted)")
				}
			}
			c.Floor("R4", "relayer stores in the end blocker", n, 1)
		}
		// a retired record may be the proposer's: after every Voters.Remove no success exit is reached without the
		// proposer having been looked up among / compared with the retired addresses (otherwise a removed proposer
		// stays in office, and the next election swaps it into the voter list without a record)
		{
			r := p.R(eb)
			isProp := func(v ssa.Value) bool { return r.E(v) == "Relayer.Get()#0.Proposer" }
			var consults []ssa.Instruction
			for _, b := range eb.Blocks {
				for _, in := range b.Instrs {
					switch x := in.(type) {
					case *ssa.Lookup:
						if isProp(x.Index) {
							consults = append(consults, in)
						}
					case *ssa.BinOp:
						if (x.Op == token.EQL || x.Op == token.NEQ) && (isProp(x.X) || isProp(x.Y)) {
							consults = append(consults, in)
						}
					case *ssa.Call:
						if cf := calleeFunc(x.Common()); cf != nil && cf.Pkg() != nil && cf.Pkg().Path() == "slices" && (cf.Name() == "Contains" || cf.Name() == "Index") && len(x.Call.Args) == 2 && isProp(x.Call.Args[1]) {
							consults = append(consults, in)
						}
						// a helper this tree adds (not in the reference inventory) that is handed the relayer record: what
						// it does with the proposer is judged in the expanded view, where its body stands here
						if g := x.Common().StaticCallee(); g != nil && !inventory()[FuncKey(g)] && strings.HasPrefix(FuncKey(g), "x/relayer/") {
							for _, a := range x.Call.Args {
								if ra, _ := rootAlloc(a); ra != nil && r.E(ra) == "Relayer.Get()#0" {
									consults = append(consults, in)
								}
							}
						}
					}
				}
			}
			removes := p.FindCalls(eb, `^Voters\.Remove\(`)
			for i, rm := range removes {
				cons := fmt.Sprintf("retired-address-compared-with-proposer#%d @ %s", i+1, FuncKey(eb))
				// (the comparison may come first: a plan / apply split decides before it retires the records)
				if before, _ := (&PathSearch{Fn: eb, AvoidInstr: instrSet(consults), IsTarget: func(in ssa.Instruction) bool { return in == ssa.Instruction(rm) }}).Find(); before == nil {
					c.Held("R4", cons, p.InstrPos(rm), "the proposer has been looked up among the retired addresses on every path to this removal")
					continue
				}
				if t, path := (&PathSearch{Fn: eb, From: rm, AvoidInstr: instrSet(consults), IsTarget: successTargets(eb)}).Find(); t != nil {
					c.Violated("R4", cons, p.InstrPos(rm), "a voter record is retired and a success exit reached without checking whether it is the proposer's", p.describePath(path)...)
				} else {
					c.Held("R4", cons, p.InstrPos(rm), "the proposer is looked up among the retired addresses on every path to success")
				}
			}
			c.Floor("R4", "voter records retired by the end blocker", len(removes), 1)
		}
		// proposer replacement
		del := `slices\.DeleteFunc\(mix\{.*\}, closure\(x/relayer/keeper\.Keeper\.EndBlocker\$1\)\)`
		nP := 0
		for _, s := range stores {
			if s.addr != "Relayer.Get()#0.Proposer" {
				continue
			}
			nP++
			switch {
			case regexp.MustCompile(`^` + del + `\[0\]$`).MatchString(s.val):
				// the same list minus its first element becomes the voter list
				ok := false
				for _, s2 := range stores {
					if s2.addr == "Relayer.Get()#0.Voters" && s2.val == strings.TrimSuffix(s.val, "[0]")+"[1:]" && s2.in.Block() == s.in.Block() {
						ok = true
					}
				}
				if ok {
					c.Held("R4", "removed-proposer-replaced-by-first-voter @ "+FuncKey(eb), p.InstrPos(s.in), "proposer = remaining[0]; voters = remaining[1:]")
				} else {
					c.Violated("R4", "removed-proposer-replaced-by-first-voter @ "+FuncKey(eb), p.InstrPos(s.in), "the new proposer stays in the voter list")
				}
				c.RequireFact(eb, "R4", "replacement-needs-a-remaining-voter", `^\(0 != len\(`+del+`\)\)$|^\(0 < len\(`+del+`\)\)$`, instrSet([]ssa.Instruction{s.in}), "proposer replacement")
			case strings.HasSuffix(s.val, "]") && strings.HasPrefix(s.val, "mix{"):
				// swap with a voter: the old proposer is written into the same slot
				c.Held("R4", fmt.Sprintf("elected-proposer-is-a-voter#%d @ %s", nP, FuncKey(eb)), p.InstrPos(s.in), "proposer = voters[i]")
			default:
				c.Violated("R4", fmt.Sprintf("proposer-source#%d @ %s", nP, FuncKey(eb)), p.InstrPos(s.in), "the proposer is set to "+s.val+", not to a current voter")
			}
		}
		c.Floor("R4", "proposer assignments", nP, 2)
		// swap: every proposer=voters[i] is paired with voters[i]=old proposer in the same block
		for _, b := range eb.Blocks {
			var pst, vst *ssa.Store
			for _, in := range b.Instrs {
				if st, ok := in.(*ssa.Store); ok {
					a := p.R(eb).E(st.Addr)
					if a == "Relayer.Get()#0.Proposer" && !strings.Contains(p.R(eb).E(st.Val), "DeleteFunc(mix") || a == "Relayer.Get()#0.Proposer" && strings.HasPrefix(p.R(eb).E(st.Val), "mix{") {
						pst = st
					}
					if _, ok := st.Addr.(*ssa.IndexAddr); ok && strings.HasPrefix(a, "mix{") {
						vst = st
					}
				}
			}
			if pst != nil && strings.HasPrefix(p.R(eb).E(pst.Val), "mix{") {
				okSwap := false
				if vst != nil {
					pi, _ := idxOfLoad(pst.Val)
					vi := vst.Addr.(*ssa.IndexAddr).Index
					// the value written into voters[i] is the proposer as loaded before it was overwritten
					oldProp := false
					if a, fld := loadOfField(vst.Val); a != nil && fld == "Proposer" {
						oldProp = instrDominates(vst.Val.(ssa.Instruction), pst)
					}
					sameIdx := pi != nil && pi == vi
					if c1, ok := pi.(*ssa.Const); ok {
						if c2, ok := vi.(*ssa.Const); ok && c1.Value != nil && c2.Value != nil && c1.Value.ExactString() == c2.Value.ExactString() {
							sameIdx = true
						}
					}
					okSwap = sameIdx && oldProp
				}
				if okSwap {
					c.Held("R4", "proposer-swapped-out-of-voters @ "+FuncKey(eb), p.InstrPos(pst), "voters[i], proposer = proposer, voters[i]")
				} else {
					c.Violated("R4", "proposer-swapped-out-of-voters @ "+FuncKey(eb), p.InstrPos(pst), "the elected voter is not replaced by the old proposer in the voter list (proposer would also be a voter, or a member is lost)")
				}
			}
		}
		// queues cleared and stored when applied
		for _, q := range []string{"OnBoarding", "OffBoarding"} {
			ok := false
			for _, s := range stores {
				if s.addr == "Queue.Get()#0."+q && s.val == "Queue.Get()#0."+q+"[:0]" {
					ok = true
				}
			}
			if ok {
				c.Held("R4", "queue-cleared "+q+" @ "+FuncKey(eb), p.Pos(eb.Pos()), "")
			} else {
				c.Violated("R4", "queue-cleared "+q+" @ "+FuncKey(eb), p.Pos(eb.Pos()), "applied queue is not cleared (members would be applied again at the next election)")
			}
		}
		var clr []ssa.Instruction
		for _, s := range stores {
			if strings.HasPrefix(s.addr, "Queue.Get()#0.") && strings.HasSuffix(s.val, "[:0]") {
				clr = append(clr, s.in)
			}
		}
		if len(clr) > 0 {
			qsRe := regexp.MustCompile(lit("(Queue.Set(Queue.Get()#0) == nil)"))
			qsOK := edgeSet(p.MatchEdges(eb, qsRe))
			if t, path := (&PathSearch{Fn: eb, From: clr[len(clr)-1], AvoidEdges: qsOK, IsTarget: p.successTargetsFor(eb, qsRe)}).Find(); t != nil {
				c.Violated("R4", "cleared-queue-stored @ "+FuncKey(eb), p.InstrPos(t), "queues cleared in memory but not stored", p.describePath(path)...)
			} else {
				c.Held("R4", "cleared-queue-stored @ "+FuncKey(eb), p.InstrPos(clr[0]), "")
			}
		}
		// on-boarding members come from the queue; off-boarding members are removed from Voters
		for _, s := range stores {
			if s.addr == "Relayer.Get()#0.Voters" && strings.HasPrefix(s.val, "append(") {
				if s.val == "append(Relayer.Get()#0.Voters, Queue.Get()#0.OnBoarding)" {
					c.Held("R4", "on-boarding-from-queue @ "+FuncKey(eb), p.InstrPos(s.in), "")
				} else {
					c.Violated("R4", "on-boarding-from-queue @ "+FuncKey(eb), p.InstrPos(s.in), "voters extended by "+s.val)
				}
			}
		}
	}
	// R5 writers
	c.checkWriters("R5", "x/relayer/keeper", "Relayer", map[string]string{
		"x/relayer/keeper.Keeper.VerifyProposal": "Set", "x/relayer/keeper.Keeper.VerifyNonProposal": "Set", "x/relayer/keeper.msgServer.AcceptProposer": "Set",
		"x/relayer/keeper.Keeper.EndBlocker": "Set", "x/relayer/module.InitGenesis": "Set"}, 7)
	c.checkWriters("R5", "x/relayer/keeper", "Voters", map[string]string{
		"x/relayer/keeper.Keeper.ProcessRelayerRequest": "Set", "x/relayer/keeper.msgServer.NewVoter": "Set", "x/relayer/keeper.Keeper.EndBlocker": "Set,Remove", "x/relayer/module.InitGenesis": "Set"}, 6)
	c.checkWriters("R5", "x/relayer/keeper", "Queue", map[string]string{
		"x/relayer/keeper.Keeper.ProcessRelayerRequest": "Set", "x/relayer/keeper.msgServer.NewVoter": "Set", "x/relayer/keeper.Keeper.EndBlocker": "Set", "x/relayer/module.InitGenesis": "Set"}, 4)
}

// oneSuccChain: b reaches c through blocks with a single successor each (straight line).
func oneSuccChain(b, c *ssa.BasicBlock) bool {
	for i := 0; i < 8 && b != c; i++ {
		if len(b.Succs) != 1 {
			return false
		}
		b = b.Succs[0]
	}
	return b == c
}

// idxOfLoad: v is a load of X[i] → i
func idxOfLoad(v ssa.Value) (ssa.Value, bool) {
	switch x := v.(type) {
	case *ssa.UnOp:
		if ia, ok := x.X.(*ssa.IndexAddr); ok {
			return ia.Index, true
		}
	case *ssa.Index:
		return x.Index, true
	}
	return nil, false
}


func (c *Check) actingProposerMarkedAccepted(rule string) {
	p := c.p
	for _, key := range []string{"x/relayer/keeper.Keeper.VerifyProposal", "x/relayer/keeper.Keeper.VerifyNonProposal"} {
		f := p.MustFn(key)
		c.touch(f)
		r := p.R(f)
		cons := "acting-proposer-marked-accepted @ " + key
		// the stores of the record: Relayer.Set(rec) at which rec.ProposerAccepted is true
		var marks []ssa.Instruction
		for _, s := range p.StoreSites(f) {
			if s.Field.Name() != "Relayer" || s.Method != "Set" || len(s.Args) == 0 {
				continue
			}
			v := s.Args[len(s.Args)-1]
			if u, ok := v.(*ssa.UnOp); ok && u.Op == token.MUL {
				if a, path := rootAlloc(u.X); a != nil && path == "" {
					if r.fieldAt(a, ".ProposerAccepted", s.Call, "unchanged", 0) == "true" {
						marks = append(marks, s.Call)
					}
				}
			}
		}
		avoid := map[edgeKey]bool{}
		for _, ef := range p.EdgeFacts(f) {
			if ef.Pred == nil && regexp.MustCompile(`^Relayer\.Get\(\)#0\.ProposerAccepted$`).MatchString(ef.Fact) {
				avoid[ef.Key()] = true
			}
		}
		if len(marks) == 0 || len(avoid) == 0 {
			c.Violated(rule, cons, p.Pos(f.Pos()), fmt.Sprintf("%d stores of the record with the flag set, %d tests of the loaded flag reason=not-established", len(marks), len(avoid)))
			continue
		}
		ps := &PathSearch{Fn: f, AvoidEdges: avoid, AvoidInstr: instrSet(marks), IsTarget: successTargets(f)}
		if t, path := ps.Find(); t != nil {
			c.Violated(rule, cons, p.InstrPos(t), "a success exit is reachable without the proposer being marked accepted (flag neither found true nor stored true)", p.describePath(path)...)
		} else {
			c.Held(rule, cons, p.InstrPos(marks[0]), "flag loaded true, or set and stored")
		}
	}
}

// duplicateChecksRecord: a "seen before?" test on a local set (`if seen[k] { panic }`, `if _, ok := seen[k]; ok { panic }`) only
// refuses duplicates if the key is recorded afterwards: for every lookup on a map made in the function whose "present"
// outcome leads to a panic, the same map is updated under the same key in code the lookup's block dominates.
func (c *Check) duplicateChecksRecord(rule, fnKey string, floor int) {
	p := c.p
	f := p.MustFn(fnKey)
	c.touch(f)
	r := p.R(f)
	leadsToPanic := func(b *ssa.BasicBlock) bool {
		for d := 0; d < 3 && b != nil; d++ {
			for _, in := range b.Instrs {
				if _, ok := in.(*ssa.Panic); ok {
					return true
				}
			}
			if len(b.Succs) != 1 {
				return false
			}
			b = b.Succs[0]
		}
		return false
	}
	n := 0
	for _, b := range f.Blocks {
		if len(b.Instrs) == 0 {
			continue
		}
		iff, ok := b.Instrs[len(b.Instrs)-1].(*ssa.If)
		if !ok {
			continue
		}
		cond, neg := iff.Cond, false
		for {
			if u, ok := cond.(*ssa.UnOp); ok && u.Op == token.NOT {
				cond, neg = u.X, !neg
				continue
			}
			break
		}
		var lk *ssa.Lookup
		switch x := cond.(type) {
		case *ssa.Lookup:
			lk = x
		case *ssa.Extract:
			if l, ok := x.Tuple.(*ssa.Lookup); ok && x.Index == 1 {
				lk = l
			}
		}
		if lk == nil {
			continue
		}
		if _, isLocal := lk.X.(*ssa.MakeMap); !isLocal {
			continue
		}
		present := b.Succs[0]
		if neg {
			present = b.Succs[1]
		}
		if !leadsToPanic(present) {
			continue // a membership requirement (panic when absent), not a duplicate check
		}
		n++
		key := r.E(lk.Index)
		cons := fmt.Sprintf("duplicate-check-records#%d @ %s", n, fnKey)
		recorded := false
		for _, b2 := range f.Blocks {
			for _, in := range b2.Instrs {
				if mu, ok := in.(*ssa.MapUpdate); ok && mu.Map == lk.X && r.E(mu.Key) == key && (b.Dominates(b2) || b == b2) {
					recorded = true
				}
			}
		}
		if recorded {
			c.Held(rule, cons, p.InstrPos(lk), "seen["+key+"] is tested, and set on the way on")
		} else {
			c.Violated(rule, cons, p.InstrPos(lk), "the set is asked whether it holds "+key+" but that key is never put into it: the duplicate check cannot fire")
		}
	}
	c.Floor(rule, "duplicate checks in "+fnKey, n, floor)
}
