package keeper_test

import (
	"bytes"
	"slices"
	"time"

	"github.com/cosmos/cosmos-sdk/crypto/keys/secp256k1"
	sdktypes "github.com/cosmos/cosmos-sdk/types"
	authtypes "github.com/cosmos/cosmos-sdk/x/auth/types"
	"github.com/ethereum/go-ethereum/common"
	"github.com/ethereum/go-ethereum/core/types/goattypes"
	"github.com/kelindar/bitmap"
	"go.uber.org/mock/gomock"

	goatcrypto "github.com/goatnetwork/goat/pkg/crypto"
	keepertest "github.com/goatnetwork/goat/testutil/keeper"
	"github.com/goatnetwork/goat/x/relayer/keeper"
	relayer "github.com/goatnetwork/goat/x/relayer/module"
	"github.com/goatnetwork/goat/x/relayer/types"
)

// TestD14DuplicatedVoteKeyHash drives the real code with two execution layer
// "add voter" requests which have different voter addresses but the same vote
// key hash, and checks two properties after every stage of the on-boarding:
//
//   - all members of the relayer group are distinct (no vote key takes two seats)
//   - exporting the state and initialising a fresh keeper from it succeeds and
//     reproduces the same state
//
// stage 1: ProcessRelayerRequest only (the voters are PENDING and have the key hash)
// stage 2: MsgNewVoter for every pending voter + EndBlocker (the voters are ACTIVATED
// and have the key itself)
func (suite *KeeperTestSuite) TestD14DuplicatedVoteKeyHash() {
	// the only one vote key: public part, secret part and the hash in the add requests
	blsKey := suite.Voters[2].VoteKey
	blsSecret := new(goatcrypto.PrivateKey).Deserialize(suite.VoterKeys[2].VoteKey)
	suite.Require().NotNil(blsSecret)
	keyHash := goatcrypto.SHA256Sum(blsKey)

	// the two new comers: different tx keys (addresses), the same vote key
	newcomers := []int{2, 3}
	suite.Require().NotEqual(suite.Voters[2].Address, suite.Voters[3].Address)

	// vote secret by seat, used for the quorum check in the stage 2
	secrets := map[string]*goatcrypto.PrivateKey{
		suite.VoterKeys[0].Address: new(goatcrypto.PrivateKey).Deserialize(suite.VoterKeys[0].VoteKey),
		suite.VoterKeys[1].Address: new(goatcrypto.PrivateKey).Deserialize(suite.VoterKeys[1].VoteKey),
		suite.VoterKeys[2].Address: blsSecret,
		suite.VoterKeys[3].Address: blsSecret,
	}

	genesisTime := sdktypes.UnwrapSDKContext(suite.Context).BlockTime()
	err := suite.Keeper.Relayer.Set(suite.Context, types.Relayer{
		Proposer:         suite.VoterKeys[0].Address,
		Voters:           []string{suite.VoterKeys[1].Address},
		LastElected:      genesisTime,
		ProposerAccepted: true,
	})
	suite.Require().NoError(err)

	// votersOfKey returns the voter records which use the vote key (by hash or by key)
	votersOfKey := func(ctx sdktypes.Context) (res []types.Voter) {
		err := suite.Keeper.Voters.Walk(ctx, nil, func(_ string, v types.Voter) (bool, error) {
			if bytes.Equal(v.VoteKey, keyHash) || bytes.Equal(v.VoteKey, blsKey) {
				res = append(res, v)
			}
			return false, nil
		})
		suite.Require().NoError(err)
		return res
	}

	// exportImport uses the real ExportGenesis, GenesisState.Validate and InitGenesis
	exportImport := func(ctx sdktypes.Context, stage string) {
		exported := relayer.ExportGenesis(ctx, suite.Keeper)
		suite.Require().NotNil(exported)
		suite.Assert().NoError(exported.Validate(), "%s: the exported genesis state should be valid", stage)

		fresh, freshCtx, _ := keepertest.RelayerKeeper(suite.T(), suite.Account)
		imported := suite.Assert().NotPanics(func() { relayer.InitGenesis(freshCtx, fresh, *exported) },
			"%s: InitGenesis should accept the state from ExportGenesis", stage)
		if imported {
			suite.Assert().Equal(exported, relayer.ExportGenesis(freshCtx, fresh),
				"%s: the export of the imported state should be the same state", stage)
		}
	}

	// ---- stage 1: two add requests with the same vote key hash
	err = suite.Keeper.ProcessRelayerRequest(suite.Context, goattypes.RelayerRequests{
		Adds: []*goattypes.AddVoterRequest{
			{Voter: common.Address(suite.Voters[2].Address), Pubkey: common.Hash(keyHash)},
			{Voter: common.Address(suite.Voters[3].Address), Pubkey: common.Hash(keyHash)},
		},
	})
	suite.Require().NoError(err)

	pending := votersOfKey(suite.Context)
	suite.Require().NotEmpty(pending, "the first add request should be accepted")
	suite.Assert().LessOrEqual(len(pending), 1,
		"stage 1 (pending): %d voter records have the vote key hash %x", len(pending), keyHash)
	exportImport(suite.Context, "stage 1 (pending)")

	// ---- stage 2: every pending voter finishes the registration with the very same vote key
	server := keeper.NewMsgServerImpl(suite.Keeper)
	sdkctx := sdktypes.UnwrapSDKContext(suite.Context)
	for _, idx := range newcomers {
		exists, err := suite.Keeper.Voters.Has(suite.Context, suite.VoterKeys[idx].Address)
		suite.Require().NoError(err)
		if !exists {
			continue // the add request was ignored
		}

		prvkey := &secp256k1.PrivKey{Key: suite.VoterKeys[idx].TxKey}
		account, err := authtypes.NewBaseAccountWithPubKey(prvkey.PubKey())
		suite.Require().NoError(err)
		suite.Require().Equal(suite.Voters[idx].Address, account.GetAddress().Bytes())

		sigdoc := slices.Concat(
			[]byte(sdkctx.ChainID()),
			goatcrypto.Uint64LE(0, 0),
			[]byte("Relayer/NewVoter"),
			[]byte(suite.VoterKeys[0].Address),
			types.NewOnBoardingVoterRequest(uint64(sdkctx.BlockHeight()), account.GetAddress(), keyHash).SignDoc(),
		)
		txKeyProof, err := prvkey.Sign(sigdoc)
		suite.Require().NoError(err)
		voteKeyProof := goatcrypto.Sign(blsSecret, goatcrypto.SHA256Sum(sigdoc))

		suite.Account.EXPECT().HasAccount(gomock.Any(), account.GetAddress()).Return(false)
		suite.Account.EXPECT().NewAccountWithAddress(gomock.Any(), account.GetAddress()).Return(account)
		suite.Account.EXPECT().SetAccount(gomock.Any(), account)

		_, err = server.NewVoter(suite.Context, &types.MsgNewVoterRequest{
			Proposer:         suite.VoterKeys[0].Address,
			VoterBlsKey:      blsKey,
			VoterTxKey:       prvkey.PubKey().Bytes(),
			VoterTxKeyProof:  txKeyProof,
			VoterBlsKeyProof: voteKeyProof,
		})
		suite.Require().NoError(err, "NewVoter of %s", suite.VoterKeys[idx].Address)
	}

	// the next election activates the on-boarding voters
	params, err := suite.Keeper.Params.Get(suite.Context)
	suite.Require().NoError(err)
	electionCtx := sdkctx.WithBlockTime(genesisTime.Add(params.ElectingPeriod + time.Second))
	suite.Require().NoError(suite.Keeper.EndBlocker(electionCtx))

	group, err := suite.Keeper.Relayer.Get(electionCtx)
	suite.Require().NoError(err)
	seats := append([]string{group.Proposer}, group.Voters...)

	seatsOfKey := make(map[string][]string) // vote key => members
	for _, member := range seats {
		voter, err := suite.Keeper.Voters.Get(electionCtx, member)
		suite.Require().NoError(err)
		suite.Require().Equal(types.VOTER_STATUS_ACTIVATED, voter.Status)
		seatsOfKey[string(voter.VoteKey)] = append(seatsOfKey[string(voter.VoteKey)], member)
	}
	suite.Require().NotEmpty(seatsOfKey[string(blsKey)], "the new vote key should be in the relayer group")
	suite.Assert().Equal(len(seats), len(seatsOfKey),
		"stage 2 (activated): %d seats of the relayer group but only %d distinct vote keys, the vote key %x… has the seats %v",
		len(seats), len(seatsOfKey), blsKey[:8], seatsOfKey[string(blsKey)])
	suite.Assert().LessOrEqual(len(votersOfKey(electionCtx)), 1,
		"stage 2 (activated): more than one voter record has the vote key %x…", blsKey[:8])
	exportImport(electionCtx, "stage 2 (activated)")

	// the consequence for the quorum: the real VerifyProposal counts the duplicated key per seat
	if dup := seatsOfKey[string(blsKey)]; len(dup) > 1 {
		var bmp bitmap.Bitmap
		signers := []string{group.Proposer}
		for i, member := range group.Voters { // every seat of the duplicated key first
			if slices.Contains(dup, member) {
				bmp.Set(uint32(i))
				signers = append(signers, member)
			}
		}
		for i, member := range group.Voters { // then the others up to the threshold
			if len(signers) >= group.Threshold() {
				break
			}
			if !slices.Contains(signers, member) {
				bmp.Set(uint32(i))
				signers = append(signers, member)
			}
		}
		suite.Require().GreaterOrEqual(len(signers), group.Threshold())

		reqMethod, reqSigDoc := "testing", []byte("testing sig doc")
		sigdoc := types.VoteSignDoc(reqMethod, electionCtx.ChainID(), group.Proposer, 0, group.Epoch, reqSigDoc)
		var sigs [][]byte
		holders := make(map[*goatcrypto.PrivateKey]bool)
		for _, member := range signers {
			holders[secrets[member]] = true
			sigs = append(sigs, goatcrypto.Sign(secrets[member], sigdoc))
		}
		aggsig, err := goatcrypto.AggregateSignatures(sigs)
		suite.Require().NoError(err)

		suite.VoteMsgMock.EXPECT().GetProposer().AnyTimes().Return(group.Proposer)
		suite.VoteMsgMock.EXPECT().GetVote().AnyTimes().Return(&types.Votes{
			Sequence: 0, Epoch: group.Epoch, Voters: bmp.ToBytes(), Signature: aggsig,
		})
		suite.VoteMsgMock.EXPECT().MethodName().AnyTimes().Return(reqMethod)
		suite.VoteMsgMock.EXPECT().VoteSigDoc().AnyTimes().Return(reqSigDoc)

		_, err = suite.Keeper.VerifyProposal(electionCtx, suite.VoteMsgMock)
		if err == nil && len(holders) < group.Threshold() {
			suite.Failf("one vote key is counted twice toward the quorum",
				"VerifyProposal accepted a vote of %d seats %v for the threshold %d of %d members, but only %d distinct vote keys signed it",
				len(signers), signers, group.Threshold(), len(seats), len(holders))
		}
	}
}
