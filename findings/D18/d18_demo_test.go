package keeper_test

import (
	"math/big"

	"cosmossdk.io/collections"
	"github.com/ethereum/go-ethereum/common"
	"github.com/ethereum/go-ethereum/core/types/goattypes"
	"github.com/goatnetwork/goat/x/locking/types"
)

// TestD18PowerOverflow: C13 "every reported change is one the consensus engine accepts: … no total-power
// overflow". A lock request is accepted whenever the power of each single coin fits uint64; nothing bounds the
// validator's power by what CometBFT accepts (int64, total <= MaxInt64/8). A Pending validator that locks
// 2^63 * 1e18 units of a weight-1 token gets power 2^63, and the end blocker reports int64(2^63) = MinInt64:
// a negative power, which CometBFT refuses (the block cannot be finalised). A second identical lock wraps the
// uint64 sum to 0.
func (suite *KeeperTestSuite) TestD18PowerOverflow() {
	for idx, validator := range suite.Validator {
		suite.Require().NoError(suite.Keeper.Validators.Set(suite.Context, suite.Address[idx], validator))
		if validator.Status == types.Active || validator.Status == types.Pending {
			for _, locking := range validator.Locking {
				suite.Require().NoError(suite.Keeper.Locking.Set(suite.Context, collections.Join(locking.Denom, suite.Address[idx]), locking.Amount))
			}
			if validator.Power > 0 {
				suite.Require().NoError(suite.Keeper.PowerRanking.Set(suite.Context, collections.Join(validator.Power, suite.Address[idx])))
			}
			if validator.Status == types.Active {
				suite.Require().NoError(suite.Keeper.ValidatorSet.Set(suite.Context, suite.Address[idx], validator.Power))
			}
		}
	}
	for address, token := range suite.Token {
		suite.Require().NoError(suite.Keeper.Tokens.Set(suite.Context, address, token))
	}
	suite.Require().NoError(suite.Keeper.Threshold.Set(suite.Context, types.Threshold{List: suite.Threshold}))
	suite.Require().NoError(suite.Keeper.Params.Set(suite.Context, types.Params{MaxValidators: 2}))

	// 2^63 * 1e18 units of the weight-1 test token
	amount := new(big.Int).Mul(new(big.Int).Lsh(big.NewInt(1), 63), big.NewInt(1e18))
	req := []*goattypes.LockRequest{{Validator: common.BytesToAddress(suite.Address[0]), Token: TestToken, Amount: amount}}
	suite.Require().NoError(suite.Keeper.Lock(suite.Context, req), "the lock request is accepted")

	updates, err := suite.Keeper.EndBlocker(suite.Context)
	suite.Require().NoError(err)
	for _, u := range updates {
		suite.Require().GreaterOrEqual(u.Power, int64(0), "negative voting power reported to CometBFT: %v", u)
	}
}
