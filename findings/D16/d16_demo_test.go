package keeper_test

import (
	"time"

	"cosmossdk.io/collections"
	"cosmossdk.io/math"
	abci "github.com/cometbft/cometbft/abci/types"
	"github.com/cosmos/cosmos-sdk/baseapp"
	sdk "github.com/cosmos/cosmos-sdk/types"
	"github.com/ethereum/go-ethereum/common"
	"github.com/goatnetwork/goat/x/locking/types"
)

// A negative double sign slash fraction must be rejected by the params validation
// and by the genesis validation of the module, since the evidence handler multiplies
// the locked amounts by the fraction without looking at its sign
func (suite *KeeperTestSuite) TestNegativeSlashFractionDoubleSign() {
	negative := math.LegacyNewDecWithPrec(-5, 2) // -0.05

	param := types.DefaultParams()
	suite.Require().NoError(param.Validate(), "the default params are valid")
	param.SlashFractionDoubleSign = negative
	suite.Require().True(param.SlashFractionDoubleSign.IsNegative())

	// the impact, run against the keeper with the params stored as the init genesis does
	suite.Run("impact", func() {
		validator := types.Validator{
			Pubkey:    common.Hex2Bytes("03ac22905ded6095255f498cd5cb217b6ebf0d82c7df2c89bce6e9089dd51e6f50"),
			Power:     10000,
			Reward:    math.ZeroInt(),
			GasReward: math.ZeroInt(),
			Status:    types.Active,
			Locking: sdk.NewCoins(
				sdk.NewCoin(NativeTokenDenom, math.NewIntFromUint64(1e18)),
				sdk.NewCoin(GoatToekenDenom, math.NewIntFromUint64(1e9)),
			),
		}
		address := sdk.ConsAddress(common.Hex2Bytes("f0933654a540830e283b87bba9ff2eb16b5acd1d"))

		suite.Require().NoError(suite.Keeper.Validators.Set(suite.Context, address, validator))
		for _, locking := range validator.Locking {
			suite.Require().NoError(suite.Keeper.Locking.Set(suite.Context,
				collections.Join(locking.Denom, address), locking.Amount))
		}
		suite.Require().NoError(suite.Keeper.PowerRanking.Set(suite.Context,
			collections.Join(validator.Power, address)))
		for denom, token := range suite.Token {
			suite.Require().NoError(suite.Keeper.Tokens.Set(suite.Context, denom, token))
		}
		suite.Require().NoError(suite.Keeper.Threshold.Set(suite.Context, types.Threshold{List: suite.Threshold}))
		suite.Require().NoError(suite.Keeper.Params.Set(suite.Context, param))

		now := time.Now().UTC()
		newctx := suite.Context.
			WithBlockHeight(11).
			WithBlockTime(now).
			WithCometInfo(baseapp.NewBlockInfo([]abci.Misbehavior{
				{
					Type:      abci.MisbehaviorType_DUPLICATE_VOTE,
					Validator: abci.Validator{Address: address, Power: int64(validator.Power)},
					Time:      now.Add(-time.Minute),
					Height:    10,
				},
			}, nil, address, abci.CommitInfo{}))
		suite.Require().NoError(suite.Keeper.HandleEvidences(newctx))

		updated, err := suite.Keeper.Validators.Get(newctx, address)
		suite.Require().NoError(err)
		suite.Require().Equal(types.Tombstoned, updated.Status)

		for _, locking := range validator.Locking {
			held := updated.Locking.AmountOf(locking.Denom)
			slashed, err := suite.Keeper.Slashed.Get(newctx, locking.Denom)
			suite.Require().NoError(err)
			suite.T().Logf("%s: locked %s, held after the double sign slashing %s, slashed total %s",
				locking.Denom, locking.Amount, held, slashed)

			// the accounting identity still holds, but only since a term of it is negative
			suite.Require().True(held.Add(slashed).Equal(locking.Amount))
			suite.Require().True(held.GT(locking.Amount), "the tombstoned validator holds more than it locked")
			suite.Require().True(slashed.IsNegative(), "the slashed total is negative")
		}
	})

	// the decisive assertions
	err := param.Validate()
	suite.Require().Error(err, "Params.Validate accepts SlashFractionDoubleSign %s", negative)
	suite.Require().ErrorContains(err, "SlashFractionDoubleSign too low")

	genesis := types.DefaultGenesis()
	suite.Require().NoError(genesis.Validate(), "the default genesis is valid")
	genesis.Params.SlashFractionDoubleSign = negative
	err = genesis.Validate()
	suite.Require().Error(err, "GenesisState.Validate accepts SlashFractionDoubleSign %s", negative)
	suite.Require().ErrorContains(err, "SlashFractionDoubleSign too low")
}
