package keeper_test

import (
	"cosmossdk.io/collections"
	"cosmossdk.io/math"
	abci "github.com/cometbft/cometbft/abci/types"
	"github.com/cosmos/cosmos-sdk/baseapp"
	"github.com/goatnetwork/goat/x/locking/types"
)

// TestD12BeginBlockerFirstBlockAfterExport replays the begin blocker of the
// first block of a chain which was started from an exported state.
//
// The app export writes initial_height = last height + 1 to the genesis file,
// so the first block of the new chain is not the block 1. That block has no
// last commit (cometbft builds it with an empty commit and the baseapp passes
// the empty DecidedLastCommit on), hence the sdk context has no vote infos.
// The exported state holds an active validator set and a non-empty reward pool.
//
// The begin blocker must be a no-op for the reward distribution in that block,
// an error here is returned by FinalizeBlock and the node can't make any block.
func (suite *KeeperTestSuite) TestD12BeginBlockerFirstBlockAfterExport() {
	const initialHeight = 100

	// the state imported by the InitGenesis: an active validator with the power
	address, validator := suite.Address[1], suite.Validator[1]
	suite.Require().Equal(types.Active, validator.Status)
	suite.Require().NotZero(validator.Power)

	suite.Require().NoError(suite.Keeper.Validators.Set(suite.Context, address, validator))
	for _, locking := range validator.Locking {
		suite.Require().NoError(suite.Keeper.Locking.Set(suite.Context,
			collections.Join(locking.Denom, address), locking.Amount))
	}
	suite.Require().NoError(suite.Keeper.PowerRanking.Set(suite.Context,
		collections.Join(validator.Power, address)))
	suite.Require().NoError(suite.Keeper.ValidatorSet.Set(suite.Context, address, validator.Power))

	// the reward pool was not empty when the state was exported
	pool := types.RewardPool{
		Goat:   math.NewInt(288285324),
		Gas:    math.NewInt(632676834),
		Remain: math.NewInt(300),
	}
	suite.Require().NoError(suite.Keeper.RewardPool.Set(suite.Context, pool))

	// the first block of the restarted chain: height == initial_height > 1 and no last commit
	// cometbft sends the request with an empty DecidedLastCommit and no misbehavior for it
	req := &abci.RequestFinalizeBlock{
		Height:            initialHeight,
		ProposerAddress:   address,
		DecidedLastCommit: abci.CommitInfo{},
	}

	// the same as the baseapp does for the finalize block state
	newctx := suite.Context.
		WithBlockHeight(req.Height).
		WithVoteInfos(req.DecidedLastCommit.Votes).
		WithCometInfo(baseapp.NewBlockInfo(req.Misbehavior, nil, req.ProposerAddress, req.DecidedLastCommit))
	suite.Require().Empty(newctx.VoteInfos(), "the first block has no last commit")
	suite.Require().Zero(newctx.CometInfo().GetEvidence().Len())

	suite.Require().NoError(suite.Keeper.DistributeReward(newctx),
		"the reward distribution should be skipped when the block has no last commit")
	suite.Require().NoError(suite.Keeper.BeginBlocker(newctx),
		"the first begin blocker of a chain started from an exported state should not fail")

	// nothing has been distributed, the pool is kept for the next block
	got, err := suite.Keeper.RewardPool.Get(newctx)
	suite.Require().NoError(err)
	suite.Require().Equal(pool, got)

	updated, err := suite.Keeper.Validators.Get(newctx, address)
	suite.Require().NoError(err)
	suite.Require().Equal(validator.Reward, updated.Reward)
	suite.Require().Equal(validator.GasReward, updated.GasReward)
}
