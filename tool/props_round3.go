package main

// Rules added in the third round (findings D10–D15). Each is stated over all sites of its kind
// and is shared by the properties whose statement it is a necessary condition of.

import (
	"fmt"
	"go/constant"
	"go/token"
	"go/types"
	"regexp"
	"sort"
	"strconv"
	"strings"

	"golang.org/x/tools/go/ssa"
)

// ---- C08/R6: the prepared proposal stays within RequestPrepareProposal.MaxTxBytes ----

// prepareByteBudget: every mempool tx that enters the response of PrepareProposal must pass a guard
// `size <= rpp.MaxTxBytes` (or `<`) whose size expression mentions that tx — and, when the response is
// composed in the handler itself, the block tx — on every path to the instruction that adds it.
// Necessary: the handler prepends its own (large) tx to txs selected from the app-side mempool, which is
// bounded by count only; without a comparison against MaxTxBytes nothing keeps the response within the
// block size and CometBFT refuses to build the proposal block.
func (c *Check) prepareByteBudget(rule string) {
	p := c.p
	outer := p.returnedClosure("x/goat/keeper.Keeper.PrepareProposalHandler")
	pm := p.closureCalling(outer, `^Mempool\.Select\(`)
	c.touch(outer)
	c.touch(pm)
	ro := p.R(outer)
	// the value stored into ResponsePrepareProposal.Txs
	txsVal := ""
	for _, s := range p.renderedStores(outer) {
		if strings.HasSuffix(s.addr, "ResponsePrepareProposal)#0.Txs") {
			txsVal = s.val
		}
	}
	if txsVal == "" {
		c.Violated(rule, "response-txs @ "+FuncKey(outer), p.Pos(outer.Pos()), "assignment of ResponsePrepareProposal.Txs not found reason=not-established")
		return
	}
	budget := func(fn *ssa.Function, maxName string, app ssa.Instruction, elem string, also string, what string) {
		// a guard `small <= big` (or <) in which the larger side is built from MaxTxBytes and the comparison as a
		// whole accounts for the added tx (and the block tx): `size + need <= Max`, `need <= Max - used`, …
		var edges []EdgeFact
		for _, ef := range p.EdgeFacts(fn) {
			m := cmpRe.FindStringSubmatch(ef.Fact)
			if m == nil || (m[2] != "<=" && m[2] != "<") || !balancedTop(m[1]) || !balancedTop(m[3]) {
				continue
			}
			if !strings.Contains(m[3], maxName) || strings.Contains(m[1], maxName) {
				continue
			}
			both := m[1] + " " + m[3]
			if !strings.Contains(both, elem) || (also != "" && !strings.Contains(both, also)) {
				continue
			}
			edges = append(edges, ef)
		}
		cons := "byte-budget " + what + " @ " + FuncKey(fn)
		if len(edges) == 0 {
			c.Violated(rule, cons, p.InstrPos(app), "no guard compares a size that includes the added tx"+map[bool]string{true: " and the block tx", false: ""}[also != ""]+" with "+maxName+": the response can exceed the block's max tx bytes and CometBFT refuses to build the proposal block")
			return
		}
		ps := &PathSearch{Fn: fn, AvoidEdges: edgeSet(edges), IsTarget: func(in ssa.Instruction) bool { return in == app }}
		if t, path := ps.Find(); t != nil {
			c.Violated(rule, cons, p.InstrPos(app), "a mempool tx can be added to the response without passing the guard against "+maxName, p.describePath(path)...)
			return
		}
		c.Held(rule, cons, p.InstrPos(app), "guard "+edges[0].Fact)
	}
	n := 0
	// (a) the response is grown in the handler, one collected tx at a time
	for _, b := range outer.Blocks {
		for _, in := range b.Instrs {
			call, ok := in.(*ssa.Call)
			if !ok {
				continue
			}
			s := ro.E(call)
			if !strings.HasPrefix(s, "append(") {
				continue
			}
			args := topArgs(s[len("append(") : len(s)-1])
			if len(args) != 2 || !regexp.MustCompile(`^\[new\(\[\]\[\]byte\)#\d+\[.*\]\]$`).MatchString(args[1]) || !strings.Contains(txsVal, args[1]) {
				continue
			}
			m := []string{"", args[1][1 : len(args[1])-1]}
			// the block tx: the single element the response starts with
			blockTx := ""
			if strings.HasPrefix(txsVal, "φ{") {
				for _, alt := range splitTop(txsVal[len("φ{") : len(txsVal)-1]) {
					if strings.HasPrefix(alt, "[") && strings.HasSuffix(alt, "]") && !strings.Contains(alt, m[1]) {
						blockTx = alt[1 : len(alt)-1]
					}
					if strings.HasPrefix(alt, "make(") {
						for _, s2 := range p.renderedStores(outer) {
							if s2.addr == alt+"[0]" {
								blockTx = s2.val
							}
						}
					}
				}
			}
			n++
			budget(outer, "$1.MaxTxBytes", in, m[1], blockTx, "response+=collected-tx")
		}
	}
	// (c) the response is a prefix Txs = X[:n] of the collected slice: n grows by one per element that passed
	// the guard, and the first element that fails ends the count (otherwise the prefix would contain it)
	if n == 0 {
		for _, b := range outer.Blocks {
			for _, in := range b.Instrs {
				st, ok := in.(*ssa.Store)
				if !ok || !strings.HasSuffix(ro.E(st.Addr), "ResponsePrepareProposal)#0.Txs") {
					continue
				}
				sl, ok := st.Val.(*ssa.Slice)
				if !ok || sl.Low != nil {
					continue
				}
				ph, ok := sl.High.(*ssa.Phi)
				if !ok {
					continue
				}
				base := ro.E(sl.X)
				blockTx := ""
				for _, s2 := range p.renderedStores(outer) {
					if s2.addr == base+"[0]" {
						blockTx = s2.val
					}
				}
				for _, e := range ph.Edges {
					inc, ok := e.(*ssa.BinOp)
					if !ok || inc.Op != token.ADD || !((inc.X == ssa.Value(ph) && isConstIntVal(inc.Y, 1)) || (inc.Y == ssa.Value(ph) && isConstIntVal(inc.X, 1))) {
						continue
					}
					n++
					budget(outer, "$1.MaxTxBytes", inc, base, blockTx, "response-prefix-length++")
					// the failing side of the guard must end the count
					re := regexp.MustCompile(`^\(\$1\.MaxTxBytes (<|<=) .*` + regexp.QuoteMeta(base) + `.*\)$`)
					for _, ef := range p.EdgeFacts(outer) {
						if !re.MatchString(ef.Fact) {
							continue
						}
						from := ef.Block.Succs[ef.Idx]
						if len(from.Instrs) == 0 {
							continue
						}
						ps := &PathSearch{Fn: outer, From: nil, IsTarget: func(x ssa.Instruction) bool { return x == ssa.Instruction(inc) }}
						_ = ps
						if blockReaches(from, inc.Block()) {
							c.Violated(rule, "byte-budget prefix-ends-at-first-misfit @ "+FuncKey(outer), p.InstrPos(inc), "after a tx that does not fit, the count of the response prefix can still grow: the prefix then contains the tx that did not fit")
						} else {
							c.Held(rule, "byte-budget prefix-ends-at-first-misfit @ "+FuncKey(outer), p.InstrPos(inc), "the first tx over the budget ends the count")
						}
					}
				}
			}
		}
	}
	// (b) the response takes the collected slice as a whole: the budget must be kept while collecting
	if n == 0 {
		rm := p.R(pm)
		for _, b := range pm.Blocks {
			for _, in := range b.Instrs {
				st, ok := in.(*ssa.Store)
				if !ok {
					continue
				}
				a := rm.E(st.Addr)
				v := rm.E(st.Val)
				if strings.HasPrefix(a, "^new([") && strings.HasPrefix(v, "append("+a+", [") {
					elem := strings.TrimSuffix(strings.TrimPrefix(v, "append("+a+", ["), "])")
					n++
					budget(pm, "^$1.MaxTxBytes", in, elem, "", "collected+=mempool-tx")
				}
			}
		}
	}
	if n == 0 {
		c.Violated(rule, "byte-budget @ "+FuncKey(outer), p.Pos(outer.Pos()), "no site adding a mempool tx to the response was recognised (Txs = "+txsVal+") reason=not-established")
	}
}

// ---- C08/R7: begin-of-block code does not change what the proposal was built and verified against ----

// beginBlockKeepsProposalInputs: PrepareProposal/ProcessProposal run on the state committed by the previous
// block; FinalizeBlock runs the begin blockers first and then, as the first tx, MsgNewEthBlock, which re-derives
// the due system txs (VerifyDequeue) and re-checks the head and beacon root. If a begin blocker writes a
// collection these checks read, the honest proposal — accepted by every validator — fails when finalised.
func (c *Check) beginBlockKeepsProposalInputs(rule string) {
	p := c.p
	var inputsFrom []*ssa.Function
	for _, k := range []string{"x/goat/keeper.Keeper.createEthBlockProposal", "x/goat/keeper.Keeper.verifyEthBlockProposal", "x/goat/keeper.Keeper.VerifyDequeue", "x/goat/keeper.Keeper.Dequeue"} {
		inputsFrom = append(inputsFrom, p.MustFn(k))
	}
	reach, _ := p.CG().Reach(inputsFrom, nil)
	inputs := map[string]bool{}
	for f := range reach {
		for _, s := range p.StoreSites(f) {
			inputs[ownerKey(p, s.Field)] = true
		}
	}
	// closures of the verification (errgroup bodies) are separate functions
	for _, f := range p.Funcs {
		if f.Parent() != nil && reach[rootOf(f)] {
			for _, s := range p.StoreSites(f) {
				inputs[ownerKey(p, s.Field)] = true
			}
		}
	}
	var begin []*ssa.Function
	for _, f := range p.ProdFuncs {
		k := FuncKey(f)
		if strings.HasSuffix(k, "/module.AppModule.BeginBlock") || strings.HasSuffix(k, "/module.AppModule.PreBlock") {
			begin = append(begin, f)
		}
	}
	breach, bparent := p.CG().Reach(begin, nil)
	nW, bad := 0, 0
	var fs []*ssa.Function
	for f := range breach {
		fs = append(fs, f)
	}
	sort.Slice(fs, func(i, j int) bool { return FuncKey(fs[i]) < FuncKey(fs[j]) })
	for _, f := range fs {
		for _, s := range p.StoreSites(f) {
			if !s.IsWrite() {
				continue
			}
			nW++
			c.touch(f)
			if inputs[ownerKey(p, s.Field)] {
				bad++
				c.Violated(rule, "begin-block-writes-proposal-input "+ownerKey(p, s.Field)+" @ "+FuncKey(f), p.InstrPos(s.Call), "written at the start of FinalizeBlock ("+p.CG().PathTo(f, bparent)+") but read by the proposal handlers and re-checked by MsgNewEthBlock: the proposal was built and accepted on the state without this write, so the honest execution-block message fails when finalised")
			}
		}
	}
	var in []string
	for k := range inputs {
		in = append(in, k)
	}
	sort.Strings(in)
	c.Extra["proposal_inputs"] = in
	if bad == 0 {
		c.Held(rule, "begin-block-keeps-proposal-inputs", "", fmt.Sprintf("%d collections read while building/verifying the execution block; none of the %d store writes reachable from %d begin blockers touches them", len(inputs), nW, len(begin)))
	}
	c.Floor(rule, "collections read by the proposal-time checks", len(inputs), 4)
	c.Floor(rule, "store writes reachable from begin blockers (positive control)", nW, 1)
}

// topArgs splits an argument list at top-level commas.
func topArgs(s string) []string {
	var out []string
	depth, start := 0, 0
	for i, ch := range s {
		switch ch {
		case '(', '[', '{':
			depth++
		case ')', ']', '}':
			depth--
		case ',':
			if depth == 0 {
				out = append(out, strings.TrimSpace(s[start:i]))
				start = i + 1
			}
		}
	}
	return append(out, strings.TrimSpace(s[start:]))
}

// ---- C13/R5 (C19/R3, C18/R5): the reward distribution cannot fail on a block without a last commit ----

// hookFailureNeedsLastCommit: the begin blocker fails ("invalid zero power") when the voting power summed over
// Context.VoteInfos() is zero. The table of reviewed block-hook failures excludes it by "a committed block has
// signers" — which is true only for blocks that HAVE a last commit: the first block of a chain has none, and a
// chain started from an exported state has an initial height above 1. Every explicit failure exit of
// DistributeReward must therefore be reached only with a non-empty vote list.
func (c *Check) hookFailureNeedsLastCommit(rule string) {
	p := c.p
	dr := p.MustFn("x/locking/keeper.Keeper.DistributeReward")
	c.touch(dr)
	n := 0
	for _, ci := range callsIn(dr) {
		cf := calleeFunc(ci.Common())
		if cf == nil || !errCtor[funcShort(cf)] {
			continue
		}
		n++
		c.RequireFact(dr, rule, fmt.Sprintf("failure-exit#%d-needs-last-commit", n), lit(NE("0", "len(Context.VoteInfos())")), instrSet([]ssa.Instruction{ci}), "explicit failure exit")
	}
	if n == 0 {
		c.Held(rule, "failure-exit-needs-last-commit @ "+FuncKey(dr), p.Pos(dr.Pos()), "no explicit failure exit")
	}
}

// ---- C16/R6: members of the relayer group are distinct ----

// freshVotersAreDistinct: every Voters.Set of a record built in place (a new voter) is reached only after
// (a) the voter address was looked up and found absent, and (b) the existing voters were consulted with the new
// vote key: a branch on the result of a repository function (or collection lookup) that receives the new key
// and reads the Voters collection (or an index). Necessary for "all members are distinct": without (b) one BLS
// key can take two seats, its signature counts twice toward the quorum, and the state cannot be re-imported
// (InitGenesis refuses duplicated vote keys).
func (c *Check) freshVotersAreDistinct(rule string) {
	p := c.p
	vt := p.LookupType("x/relayer/types", "Voter")
	nFresh := 0
	for _, f := range p.ProdFuncs {
		if p.isGenerated(f) || len(f.Blocks) == 0 || !strings.HasPrefix(FuncKey(f), "x/relayer/keeper.") {
			continue
		}
		r := p.R(f)
		for _, s := range p.StoreSites(f) {
			if s.Field.Name() != "Voters" || s.Method != "Set" || len(s.Args) < 2 {
				continue
			}
			// the stored record: built from scratch (a literal, or a constructor of the types package), never loaded
			_ = vt
			fields, built := p.builtRecordFields(f, s.Args[1])
			if !built {
				continue
			}
			K, hasKey := fields["VoteKey"]
			if !hasKey {
				continue
			}
			nFresh++
			c.touch(f)
			cons := "fresh-voter @ " + FuncKey(f)
			// the registration the later proofs are bound to: the record carries the height at which it was created
			// (NewVoter signs over voter.Height) and starts PENDING
			if fields["Height"] == "Context.BlockHeight()" {
				c.Held(rule, "registration-height-recorded "+cons, p.InstrPos(s.Call), "Height = block height of the registration")
			} else {
				c.Violated(rule, "registration-height-recorded "+cons, p.InstrPos(s.Call), "the new voter record stores Height = "+fields["Height"]+", not the height of its registration: the proofs NewVoter checks are no longer bound to this registration")
			}
			if fields["Status"] != "VOTER_STATUS_PENDING" {
				c.Violated(rule, "starts-pending "+cons, p.InstrPos(s.Call), "a new voter record starts with status "+fields["Status"])
			}
			// (a) address absent
			setKey := r.E(s.Args[0])
			c.RequireFact(f, rule, "fresh-voter-address-absent", lit("!Voters.Has("+setKey+")#0"), instrSet([]ssa.Instruction{s.Call}), "new voter record")
			// (b) key consulted
			okB := false
			var seen []string
			var lookups []*ssa.Function
			for _, nf := range p.necessaryFacts(f, s.Call) {
				iff, ok := nf.Block.Instrs[len(nf.Block.Instrs)-1].(*ssa.If)
				if !ok {
					continue
				}
				// a lookup in a set of keys built from the voter records: `if _, used := usedKeys[newKey]; used`
				for _, lk := range condLookups(iff.Cond, 0) {
					if !strings.Contains(r.E(lk.Index), K) {
						continue
					}
					for _, call := range condCalls(lk.X, 0) {
						g := call.Call.StaticCallee()
						if g == nil || !isProdPkgFn(g) {
							continue
						}
						for _, gs := range p.reachSitesWithClosures(g) {
							if !gs.IsWrite() && gs.Field == s.Field {
								okB = true
								seen = append(seen, "set built by "+FuncKey(g)+" → "+gs.Field.Name()+"."+gs.Method)
								lookups = append(lookups, g)
							}
						}
					}
				}
				for _, call := range condCalls(iff.Cond, 0) {
					mentions := false
					for _, a := range call.Call.Args {
						if strings.Contains(r.E(a), K) {
							mentions = true
						}
					}
					if !mentions {
						continue
					}
					if sa := storeAccess(&call.Call); sa != nil {
						if !writeMethods[sa.Method] {
							okB = true
							seen = append(seen, sa.Field.Name()+"."+sa.Method)
						}
						continue
					}
					g := call.Call.StaticCallee()
					if g == nil || !isProdPkgFn(g) {
						continue
					}
					for _, gs := range p.reachSitesWithClosures(g) {
						if !gs.IsWrite() && gs.Field == s.Field {
							okB = true
							seen = append(seen, FuncKey(g)+" → "+gs.Field.Name()+"."+gs.Method)
							lookups = append(lookups, g)
						}
					}
				}
			}
			if okB {
				for _, g := range lookups {
					c.lookupCoversEveryStatus(rule, g, vt)
				}
				c.Held(rule, "vote-key-consulted "+cons, p.InstrPos(s.Call), "the new key "+K+" is checked against the existing voters: "+strings.Join(dedupe(seen), ", "))
			} else {
				c.Violated(rule, "vote-key-consulted "+cons, p.InstrPos(s.Call), "a voter record with vote key "+K+" is stored without any branch on a lookup of that key among the existing voters: one BLS key can take two seats of the relayer group (its signature counts twice; InitGenesis refuses the exported state)")
			}
		}
	}
	c.Floor(rule, "voter records created at run time", nFresh, 1)
}

// condCalls: the call instructions a branch condition is computed from (through !, tuple extraction, loads of
// single-store locals and boolean φ-nodes).
func condCalls(v ssa.Value, depth int) []*ssa.Call {
	if depth > 6 {
		return nil
	}
	switch x := v.(type) {
	case *ssa.Call:
		return []*ssa.Call{x}
	case *ssa.Extract:
		if types.Identical(x.Type(), errorType) {
			return nil // `err != nil` of the lookup is not a branch on its answer
		}
		return condCalls(x.Tuple, depth+1)
	case *ssa.UnOp:
		return condCalls(x.X, depth+1)
	case *ssa.BinOp:
		if types.Identical(x.X.Type(), errorType) || types.Identical(x.Y.Type(), errorType) {
			return nil
		}
		return append(condCalls(x.X, depth+1), condCalls(x.Y, depth+1)...)
	case *ssa.Phi:
		var out []*ssa.Call
		for _, e := range x.Edges {
			out = append(out, condCalls(e, depth+1)...)
		}
		return out
	case *ssa.Alloc:
		var out []*ssa.Call
		for _, ref := range *x.Referrers() {
			if st, ok := ref.(*ssa.Store); ok && st.Addr == ssa.Value(x) {
				out = append(out, condCalls(st.Val, depth+1)...)
			}
		}
		return out
	}
	return nil
}

// condLookups: the map lookups a branch condition is computed from.
func condLookups(v ssa.Value, depth int) []*ssa.Lookup {
	if depth > 6 {
		return nil
	}
	switch x := v.(type) {
	case *ssa.Lookup:
		return []*ssa.Lookup{x}
	case *ssa.Extract:
		return condLookups(x.Tuple, depth+1)
	case *ssa.UnOp:
		return condLookups(x.X, depth+1)
	case *ssa.Phi:
		var out []*ssa.Lookup
		for _, e := range x.Edges {
			out = append(out, condLookups(e, depth+1)...)
		}
		return out
	}
	return nil
}

// reachSitesWithClosures: store sites of g, of the repository functions it reaches, and of their closures.
func (p *Prog) reachSitesWithClosures(g *ssa.Function) []StoreSite {
	reach, _ := p.CG().Reach([]*ssa.Function{g}, nil)
	var out []StoreSite
	for f := range reach {
		out = append(out, p.StoreSites(f)...)
	}
	for _, f := range p.Funcs {
		if f.Parent() != nil && reach[rootOf(f)] && !reach[f] {
			out = append(out, p.StoreSites(f)...)
		}
	}
	return out
}

// ---- C20/R4: an out-of-range request is ignored as a whole ----

// requestsAppliedAtomically: in ProcessBridgeRequest every parameter store whose value is a field of a request
// element E must be reached under the same E-dependent guards as every other store fed from E. Otherwise a
// request that fails its range check is half applied (the unchecked field is stored) instead of ignored.
func (c *Check) requestsAppliedAtomically(rule string) {
	p := c.p
	f := p.MustFn("x/bitcoin/keeper.Keeper.ProcessBridgeRequest")
	c.touch(f)
	elemRe := regexp.MustCompile(`^(\$2\.\w+\[φ\{\(1 \+ @\)\|0\}\])\.(\w+)$`)
	type st struct {
		in     ssa.Instruction
		field  string
		guards map[string]bool
	}
	groups := map[string][]st{}
	pt := p.LookupType("x/bitcoin/types", "Params")
	for _, s := range p.renderedStores(f) {
		fa, ok := s.in.Addr.(*ssa.FieldAddr)
		if !ok || namedOf(fa.X.Type()) == nil || namedOf(fa.X.Type()).Obj() != pt.Obj() {
			continue
		}
		if al, _ := rootAlloc(s.in.Addr); al == nil {
			continue
		}
		m := elemRe.FindStringSubmatch(s.val)
		if m == nil {
			continue
		}
		// what every execution that commits this value has established about the request element
		g := map[string]bool{}
		facts, commits := p.commitFacts(f, s.in)
		if len(commits) == 0 {
			continue
		}
		for _, fact := range facts {
			if strings.Contains(fact, m[1]+".") {
				g[fact] = true
			}
		}
		groups[m[1]] = append(groups[m[1]], st{s.in, fieldName(fa.X.Type(), fa.Field), g})
	}
	var names []string
	for k := range groups {
		names = append(names, k)
	}
	sort.Strings(names)
	n := 0
	for _, e := range names {
		all := map[string]bool{}
		for _, s := range groups[e] {
			for g := range s.guards {
				all[g] = true
			}
		}
		for _, s := range groups[e] {
			n++
			var missing []string
			for g := range all {
				if !s.guards[g] {
					missing = append(missing, g)
				}
			}
			sort.Strings(missing)
			cons := "request-atomic " + s.field + " ← " + e + " @ " + FuncKey(f)
			if len(missing) > 0 {
				c.Violated(rule, cons, p.InstrPos(s.in), "param."+s.field+" is stored from the request without the guard "+strings.Join(missing, ", ")+" that the other fields of the same request are stored under: a request that fails this check is half applied instead of ignored")
			} else {
				c.Held(rule, cons, p.InstrPos(s.in), fmt.Sprintf("%d request guards, the same for every field of the request", len(s.guards)))
			}
		}
	}
	c.Floor(rule, "parameter stores fed from request elements", n, 3)
}

// ---- C18/R5: Validate (run on import) accepts every parameter setting the running chain can store ----

type ival struct {
	lo, hi       int64
	loInf, hiInf bool
}

func (v ival) empty() bool { return !v.loInf && !v.hiInf && v.lo > v.hi }
func (v ival) String() string {
	lo, hi := "-∞", "+∞"
	if !v.loInf {
		lo = strconv.FormatInt(v.lo, 10)
	}
	if !v.hiInf {
		hi = strconv.FormatInt(v.hi, 10)
	}
	return "[" + lo + ", " + hi + "]"
}
func (v ival) meetLo(lo int64) ival {
	if v.loInf || lo > v.lo {
		v.lo, v.loInf = lo, false
	}
	return v
}
func (v ival) meetHi(hi int64) ival {
	if v.hiInf || hi < v.hi {
		v.hi, v.hiInf = hi, false
	}
	return v
}
func (v ival) hull(o ival) ival {
	r := v
	if o.loInf || (!r.loInf && o.lo < r.lo) {
		r.lo, r.loInf = o.lo, o.loInf
	}
	if o.hiInf || (!r.hiInf && o.hi > r.hi) {
		r.hi, r.hiInf = o.hi, o.hiInf
	}
	return r
}

// refineByFact: the interval of X after the canonical comparison fact about X (forms: (X OP c), (c OP X),
// OP ∈ {<, <=, ==, !=}); ok=false when the fact is not a comparison of X with an integer constant.
// `!=` refines only at an end point of the interval.
func refineByFact(v ival, fact, X string) (ival, bool) {
	m := cmpRe.FindStringSubmatch(fact)
	if m == nil {
		return v, false
	}
	a, op, b := m[1], m[2], m[3]
	var c int64
	xLeft := false
	switch {
	case a == X:
		n, err := strconv.ParseInt(b, 10, 64)
		if err != nil {
			return v, false
		}
		c, xLeft = n, true
	case b == X:
		n, err := strconv.ParseInt(a, 10, 64)
		if err != nil {
			return v, false
		}
		c = n
	default:
		return v, false
	}
	switch op {
	case "<":
		if xLeft {
			return v.meetHi(c - 1), true
		}
		return v.meetLo(c + 1), true
	case "<=":
		if xLeft {
			return v.meetHi(c), true
		}
		return v.meetLo(c), true
	case "==":
		return v.meetLo(c).meetHi(c), true
	case "!=":
		if !v.loInf && v.lo == c {
			return v.meetLo(c + 1), true
		}
		if !v.hiInf && v.hi == c {
			return v.meetHi(c - 1), true
		}
		return v, true
	}
	return v, false
}

// importAcceptsRuntimeSettings: for every struct type T with a Validate method that InitGenesis runs, and every
// record of type T the running chain loads from a collection, modifies field by field and stores back: the range
// of each modified integer field is what the guards dominating its store allow (no guard: the whole type).
// T.Validate must not have a failure exit that is entered by a test on such a field which some storable value
// satisfies (together with the other tests on modified fields along the way). Otherwise the chain can store a
// setting that its own exported state is refused with on import.
func (c *Check) importAcceptsRuntimeSettings(rule string) {
	p := c.p
	greach, _ := p.CG().Reach(p.Contexts().Genesis, nil)
	validators := map[*types.TypeName]*ssa.Function{}
	for f := range greach {
		if f.Name() != "Validate" || f.Signature.Recv() == nil || len(f.Blocks) == 0 || p.isGenerated(f) {
			continue
		}
		if nt := namedOf(f.Signature.Recv().Type()); nt != nil {
			if _, isStruct := nt.Underlying().(*types.Struct); isStruct {
				validators[nt.Obj()] = f
			}
		}
	}
	type fieldRange struct {
		iv    ival
		sites []string
	}
	ranges := map[*types.TypeName]map[string]*fieldRange{}
	for _, f := range p.ProdFuncs {
		if p.isGenerated(f) || len(f.Blocks) == 0 || greach[f] {
			continue
		}
		key := FuncKey(f)
		if strings.Contains(key, "/module.") || strings.HasPrefix(key, "cmd/") || strings.Contains(key, "/types.") {
			continue
		}
		r := p.R(f)
		for _, b := range f.Blocks {
			for _, in := range b.Instrs {
				a, ok := in.(*ssa.Alloc)
				if !ok {
					continue
				}
				nt := namedOf(a.Type())
				if nt == nil || validators[nt.Obj()] == nil || len(r.wholeStores[a]) == 0 {
					continue
				}
				// a loaded record (directly or as a copy of one), not one built from scratch
				loaded := false
				for _, o := range p.recordOrigins(f, a) {
					if !strings.HasPrefix(o, "new(") {
						loaded = true
					}
				}
				if !loaded {
					continue
				}
				stt := nt.Underlying().(*types.Struct)
				for _, st := range r.fieldStores[a] {
					fa, ok := st.Addr.(*ssa.FieldAddr)
					if !ok || fa.X != ssa.Value(a) {
						continue
					}
					bt, ok := stt.Field(fa.Field).Type().Underlying().(*types.Basic)
					if !ok || bt.Info()&types.IsInteger == 0 {
						continue
					}
					iv := ival{loInf: true, hiInf: true}
					if bt.Info()&types.IsUnsigned != 0 {
						iv = ival{lo: 0, hiInf: true}
					}
					if k, ok := st.Val.(*ssa.Const); ok && k.Value != nil {
						if len(p.commitPoints(f, st)) == 0 {
							continue
						}
						if n, ok := constant.Int64Val(constant.ToInt(k.Value)); ok {
							iv = ival{lo: n, hi: n}
						}
					} else {
						// what every execution that commits this value (writes the record back) has established
						X := r.E(st.Val)
						facts, commits := p.commitFacts(f, st)
						if len(commits) == 0 {
							continue
						}
						for _, fact := range facts {
							if nv, ok := refineByFact(iv, fact, X); ok {
								iv = nv
							}
						}
					}
					name := stt.Field(fa.Field).Name()
					if ranges[nt.Obj()] == nil {
						ranges[nt.Obj()] = map[string]*fieldRange{}
					}
					fr := ranges[nt.Obj()][name]
					if fr == nil {
						fr = &fieldRange{iv: iv}
						ranges[nt.Obj()][name] = fr
					} else {
						fr.iv = fr.iv.hull(iv)
					}
					fr.sites = append(fr.sites, key+" "+p.InstrPos(st))
					c.touch(f)
				}
			}
		}
	}
	nFields, nBad := 0, 0
	var tns []*types.TypeName
	for tn := range ranges {
		tns = append(tns, tn)
	}
	sort.Slice(tns, func(i, j int) bool { return tns[i].Name() < tns[j].Name() })
	for _, tn := range tns {
		fr := ranges[tn]
		nFields += len(fr)
		// Validate and the repository helpers it hands the record to (their failures are Validate's failures)
		type vfn struct {
			fn  *ssa.Function
			idx int
		}
		family := []vfn{{validators[tn], 0}}
		seenFn := map[*ssa.Function]bool{validators[tn]: true}
		for i := 0; i < len(family) && i < 8; i++ {
			for _, ci := range callsIn(family[i].fn) {
				g := ci.Common().StaticCallee()
				if g == nil || g.Blocks == nil || seenFn[g] || !isProdPkgFn(g) || p.isGenerated(g) {
					continue
				}
				res := g.Signature.Results()
				if res.Len() == 0 || !types.Identical(res.At(res.Len()-1).Type(), errorType) {
					continue
				}
				for k, a := range ci.Common().Args {
					if namedOf(a.Type()) != nil && namedOf(a.Type()).Obj() == tn {
						seenFn[g] = true
						family = append(family, vfn{g, k})
						break
					}
				}
			}
		}
		for _, member := range family {
			vf, recv := member.fn, fmt.Sprintf("$%d.", member.idx)
			c.touch(vf)
			okSucc := map[*ssa.BasicBlock]bool{}
			for _, b := range vf.Blocks {
				okSucc[b] = canReachSuccessFromBlock(vf, b)
			}
			facts := map[edgeKey]string{}
			for _, ef := range p.EdgeFacts(vf) {
				if ef.Pred == nil && ef.Fact != infeasible {
					facts[edgeKey{b: ef.Block, i: ef.Idx}] = ef.Fact
				}
			}
			type state map[string]ival
			show := func(s state) string {
				var parts []string
				for k, v := range s {
					parts = append(parts, k+" ∈ "+v.String())
				}
				sort.Strings(parts)
				return strings.Join(parts, ", ")
			}
			seen := map[string]bool{}
			var dfs func(b *ssa.BasicBlock, s state, path []*ssa.BasicBlock)
			dfs = func(b *ssa.BasicBlock, s state, path []*ssa.BasicBlock) {
				k := fmt.Sprint(b.Index, "|", show(s))
				if seen[k] || len(path) > 200 {
					return
				}
				seen[k] = true
				path = append(path, b)
				for i, succ := range b.Succs {
					ns := s
					runtimeEdge := false
					if fact, ok := facts[edgeKey{b: b, i: i}]; ok && len(b.Succs) == 2 {
						for name := range fr {
							if nv, ok := refineByFact(s[name], fact, recv+name); ok {
								runtimeEdge = true
								ns = state{}
								for kk, vv := range s {
									ns[kk] = vv
								}
								ns[name] = nv
							}
						}
					}
					infeasibleHere := false
					for _, v := range ns {
						if v.empty() {
							infeasibleHere = true
						}
					}
					if infeasibleHere {
						continue
					}
					if !okSucc[succ] {
						// entering the failure-only region
						if runtimeEdge {
							nBad++
							var sites []string
							for name := range fr {
								if strings.Contains(facts[edgeKey{b: b, i: i}], recv+name) {
									sites = append(sites, fr[name].sites...)
								}
							}
							sort.Strings(sites)
							c.Violated(rule, "import-rejects-runtime-setting "+typeShort(tn.Type())+" "+facts[edgeKey{b: b, i: i}]+" @ "+FuncKey(vf), p.InstrPos(b.Instrs[len(b.Instrs)-1]),
								"the running chain can store "+show(ns)+" (stores: "+strings.Join(dedupe(sites), "; ")+"), which "+FuncKey(vf)+" — run by InitGenesis on the exported state — rejects on this branch: a chain in that state cannot be restarted from its own export",
								p.describePath(append(path, succ))...)
						}
						continue
					}
					dfs(succ, ns, path)
				}
			}
			init := state{}
			for name, r := range fr {
				init[name] = r.iv
			}
			before := nBad
			dfs(vf.Blocks[0], init, nil)
			if nBad == before {
				c.Held(rule, "import-accepts-runtime-settings "+typeShort(tn.Type())+" @ "+FuncKey(vf), p.Pos(vf.Pos()), "every failure branch on a field modified at run time is excluded by the guards of its stores: "+show(init))
			}
		}
	}
	c.Floor(rule, "integer record fields modified at run time and validated on import", nFields, 3)
}

// blockReaches: can control reach block `to` starting at block `from` (inclusive)?
func blockReaches(from, to *ssa.BasicBlock) bool {
	seen := map[*ssa.BasicBlock]bool{}
	var walk func(b *ssa.BasicBlock) bool
	walk = func(b *ssa.BasicBlock) bool {
		if b == to {
			return true
		}
		if seen[b] {
			return false
		}
		seen[b] = true
		for _, s := range b.Succs {
			if walk(s) {
				return true
			}
		}
		return false
	}
	return walk(from)
}


// lookupCoversEveryStatus: in the lookup g (and the closures it hands to the store walk) that compares stored vote
// keys with bytes.Equal, a record is compared whatever its status: for every named status value, no path through
// the comparing function returns normally without a bytes.Equal, once the branches that contradict that status are
// removed. (A lookup that skips, say, on-boarding voters lets their key be registered a second time.)
func (c *Check) lookupCoversEveryStatus(rule string, g *ssa.Function, recT *types.Named) {
	p := c.p
	reach, _ := p.CG().Reach([]*ssa.Function{g}, nil)
	var fns []*ssa.Function
	for f := range reach {
		if isProdPkgFn(f) && len(f.Blocks) > 0 {
			fns = append(fns, f)
		}
	}
	for _, f := range p.Funcs {
		if f.Parent() != nil && reach[rootOf(f)] && !reach[f] && len(f.Blocks) > 0 {
			fns = append(fns, f)
		}
	}
	sort.Slice(fns, func(i, j int) bool { return FuncKey(fns[i]) < FuncKey(fns[j]) })
	done := map[*ssa.Function]bool{}
	for _, f := range fns {
		if done[f] {
			continue
		}
		done[f] = true
		var eqs []ssa.Instruction
		for _, ci := range callsIn(f) {
			if cf := calleeFunc(ci.Common()); cf != nil && cf.Pkg() != nil && cf.Pkg().Path() == "bytes" && cf.Name() == "Equal" {
				eqs = append(eqs, ci)
			}
		}
		// … or records every key in a set the caller looks the new key up in
		for _, b := range f.Blocks {
			for _, in := range b.Instrs {
				if mu, ok := in.(*ssa.MapUpdate); ok {
					eqs = append(eqs, mu)
				}
			}
		}
		if len(eqs) == 0 {
			continue
		}
		// comparisons of a status-typed value with constants
		type cmpEdge struct {
			b     *ssa.BasicBlock
			konst int64
			eqIdx int
		}
		var edges []cmpEdge
		var en *Enum
		for _, b := range f.Blocks {
			iff, ok := b.Instrs[len(b.Instrs)-1].(*ssa.If)
			if !ok {
				continue
			}
			cond, neg := iff.Cond, false
			for {
				if u, ok := cond.(*ssa.UnOp); ok && u.Op == token.NOT {
					cond, neg = u.X, !neg
					continue
				}
				break
			}
			bo, ok := cond.(*ssa.BinOp)
			if !ok || (bo.Op != token.EQL && bo.Op != token.NEQ) {
				continue
			}
			v, k := bo.X, bo.Y
			if _, isC := v.(*ssa.Const); isC {
				v, k = k, v
			}
			kc, isC := k.(*ssa.Const)
			nt := namedOf(v.Type())
			if !isC || kc.Value == nil || nt == nil || nt.Obj().Pkg() == nil || !strings.HasPrefix(nt.Obj().Pkg().Path(), modPath) {
				continue
			}
			if bt, isB := nt.Underlying().(*types.Basic); !isB || bt.Info()&types.IsInteger == 0 {
				continue
			}
			e := p.EnumOf(nt)
			if len(e.Values) < 2 {
				continue
			}
			en = e
			kv, _ := constant.Int64Val(constant.ToInt(kc.Value))
			eqIdx := 0
			if (bo.Op == token.NEQ) != neg {
				eqIdx = 1
			}
			edges = append(edges, cmpEdge{b, kv, eqIdx})
		}
		if en == nil {
			continue
		}
		c.touch(f)
		isOKRet := func(in ssa.Instruction) bool {
			ret, ok := in.(*ssa.Return)
			if !ok {
				return false
			}
			if n := len(ret.Results); n > 0 && types.Identical(ret.Results[n-1].Type(), errorType) && !isNilConst(ret.Results[n-1]) {
				if _, isC := ret.Results[n-1].(*ssa.Const); isC {
					return false
				}
			}
			return true
		}
		bad := false
		for _, val := range en.Values {
			if val == 0 {
				continue
			}
			avoid := map[edgeKey]bool{}
			for _, e := range edges {
				if e.konst == val {
					avoid[edgeKey{b: e.b, i: 1 - e.eqIdx}] = true
				} else {
					avoid[edgeKey{b: e.b, i: e.eqIdx}] = true
				}
			}
			if t, path := (&PathSearch{Fn: f, AvoidEdges: avoid, AvoidInstr: instrSet(eqs), IsTarget: isOKRet, KeepFailureEntries: true}).Find(); t != nil {
				bad = true
				c.Violated(rule, "lookup-compares-every-status "+en.Names[val]+" @ "+FuncKey(f), p.InstrPos(t), "a stored record with status "+en.Names[val]+" is passed over without being compared with the new key: its key can be registered a second time", p.describePath(path)...)
			}
		}
		if !bad {
			c.Held(rule, "lookup-compares-every-status @ "+FuncKey(f), p.Pos(f.Pos()), fmt.Sprintf("%d status tests, %d comparisons: every named status reaches a comparison", len(edges), len(eqs)))
		}
	}
}


// freshRecordsNeverOverwrite: a Set on the keeper map `field` whose value is a record built in place (never loaded)
// is reached only when the key was looked up and found absent. Otherwise creating a record again wipes what the
// existing record holds (a validator's locked coins, its rewards, its status).
func (c *Check) freshRecordsNeverOverwrite(rule, pkgRel, field string, floor int) {
	p := c.p
	n := 0
	for _, f := range p.ProdFuncs {
		if p.isGenerated(f) || len(f.Blocks) == 0 || strings.Contains(FuncKey(f), "/module.") {
			continue
		}
		r := p.R(f)
		for _, s := range p.StoreSites(f) {
			if s.Field.Name() != field || s.Method != "Set" || len(s.Args) < 2 || s.Field.Pkg() == nil || relPkg(s.Field.Pkg().Path()) != pkgRel {
				continue
			}
			u, ok := s.Args[1].(*ssa.UnOp)
			if !ok {
				continue
			}
			al, ok := u.X.(*ssa.Alloc)
			if !ok {
				continue
			}
			fresh := true
			for _, o := range p.recordOrigins(f, al) {
				if !strings.HasPrefix(o, "new(") {
					fresh = false
				}
			}
			if !fresh {
				continue
			}
			n++
			k := regexp.QuoteMeta(r.E(s.Args[0]))
			c.RequireFact(f, rule, "fresh-"+field+"-record-key-absent", `^!`+field+`\.Has\(`+k+`\)#0$|^errors\.Is\(`+field+`\.Get\(`+k+`\)#1, collections\.ErrNotFound\)$`, instrSet([]ssa.Instruction{s.Call}), "creation of a "+field+" record")
		}
	}
	c.Floor(rule, field+" records created in place", n, floor)
}


// genesisRefusesProposerAmongVoters: relayer InitGenesis (or the GenesisState.Validate it runs) has a branch on
// `proposer == voters[i]` — both taken from the genesis document, compared as they are — whose true side cannot reach
// a normal return (it panics / fails). Necessary for "the proposer is not listed among the voters" on an imported state.
func (c *Check) genesisRefusesProposerAmongVoters(rule string) {
	p := c.p
	ig := p.MustFn("x/relayer/module.InitGenesis")
	fns := []*ssa.Function{ig}
	for _, ci := range callsIn(ig) {
		if g := ci.Common().StaticCallee(); g != nil && g.Name() == "Validate" && isProdPkgFn(g) && len(g.Blocks) > 0 {
			fns = append(fns, g)
		}
	}
	found := false
	for _, f := range fns {
		c.touch(f)
		recv := "$2"
		if f != ig {
			recv = "$0"
		}
		re := regexp.MustCompile(`^\(` + regexp.QuoteMeta(recv) + `\.Relayer\.Proposer == ` + regexp.QuoteMeta(recv) + `\.Relayer\.Voters\[φ\{\(1 \+ @\)\|0\}\]\)$|^\(` + regexp.QuoteMeta(recv) + `\.Relayer\.Voters\[φ\{\(1 \+ @\)\|0\}\] == ` + regexp.QuoteMeta(recv) + `\.Relayer\.Proposer\)$|^slices\.Contains\(` + regexp.QuoteMeta(recv) + `\.Relayer\.Voters, ` + regexp.QuoteMeta(recv) + `\.Relayer\.Proposer\)$|^any\(` + regexp.QuoteMeta(recv) + `\.Relayer\.Voters, .*Proposer.*\)$`)
		for _, ef := range p.EdgeFacts(f) {
			if ef.Pred != nil || !re.MatchString(ef.Fact) {
				continue
			}
			found = true
			tgt := ef.Block.Succs[ef.Idx]
			if canReachSuccessFromBlock(f, tgt) {
				c.Violated(rule, "genesis-refuses-proposer-among-voters @ "+FuncKey(f), p.InstrPos(ef.Block.Instrs[len(ef.Block.Instrs)-1]), "a genesis whose proposer is also listed among the voters is accepted")
			} else {
				c.Held(rule, "genesis-refuses-proposer-among-voters @ "+FuncKey(f), p.InstrPos(ef.Block.Instrs[len(ef.Block.Instrs)-1]), "proposer == voters[i] → refused")
			}
		}
	}
	if !found {
		c.Violated(rule, "genesis-refuses-proposer-among-voters @ "+FuncKey(ig), p.Pos(ig.Pos()), "no comparison of the genesis proposer with the listed voters (same representation on both sides) found reason=not-established")
	}
}


// slashFractionsValidated: the parameter validation the module offers (Params.Validate, used by ValidateGenesis and
// the genesis tooling) accepts a slash fraction f only with 0 <= f < 1 — for BOTH fractions. With f < 0 a slash
// credits the offender and drives the slashed total negative; with f >= 1 it takes more than is held.
func (c *Check) slashFractionsValidated(rule string) {
	p := c.p
	v := p.MustFn("x/locking/types.Params.Validate")
	c.touch(v)
	for _, f := range []string{"SlashFractionDoubleSign", "SlashFractionDowntime"} {
		x := regexp.QuoteMeta("$0." + f)
		ord := `(‹\d+›)?`
		c.RequireFact(v, rule, f+"-not-negative", `^!LegacyDec\.IsNegative\(`+x+`\)`+ord+`$|^LegacyDec\.IsPositive\(`+x+`\)`+ord+`$|^LegacyDec\.GTE?\(`+x+`, sdkmath\.LegacyZeroDec\(\)\)`+ord+`$`, nil, "")
		c.RequireFact(v, rule, f+"-below-one", `^!LegacyDec\.GTE\(`+x+`, sdkmath\.(LegacyNewDec\(1\)|LegacyOneDec\(\))\)`+ord+`$|^LegacyDec\.LT\(`+x+`, sdkmath\.(LegacyNewDec\(1\)|LegacyOneDec\(\))\)`+ord+`$`, nil, "")
	}
}

// ---- C18/R8: the order of a queue that is not exported does not leak into persistent state ----

// derivedQueueOrder: the relayer voter queue is a derived collection: it is not in the exported genesis, InitGenesis
// rebuilds it by walking the voter records (address order) while the running chain fills it in arrival order. Where
// the running chain copies such a list, as a whole and in its order, into persistent ordered state (the voter list of
// the relayer group), the list must have been put into a canonical order first — otherwise a chain started from an
// export orders its group differently from the chain it was exported from.
func (c *Check) derivedQueueOrder(rule string) {
	p := c.p
	n := 0
	for _, f := range p.ProdFuncs {
		if p.isGenerated(f) || len(f.Blocks) == 0 || !strings.HasPrefix(FuncKey(f), "x/relayer/keeper.") {
			continue
		}
		r := p.R(f)
		for _, b := range f.Blocks {
			for _, in := range b.Instrs {
				st, ok := in.(*ssa.Store)
				if !ok {
					continue
				}
				fa, ok := st.Addr.(*ssa.FieldAddr)
				if !ok || fieldName(fa.X.Type(), fa.Field) != "Voters" || namedOf(fa.X.Type()) == nil || namedOf(fa.X.Type()).Obj().Name() != "Relayer" {
					continue
				}
				app, ok := st.Val.(*ssa.Call)
				if !ok {
					continue
				}
				// append(voters, queue.X...) or slices.Concat(voters, queue.X)
				var tail []ssa.Value
				if bi, isB := app.Call.Value.(*ssa.Builtin); isB && bi.Name() == "append" && len(app.Call.Args) == 2 {
					tail = app.Call.Args[1:]
				} else if cf := calleeFunc(&app.Call); cf != nil && cf.Pkg() != nil && cf.Pkg().Path() == "slices" && cf.Name() == "Concat" && len(app.Call.Args) == 1 {
					if el := r.sliceLiteralElems(app.Call.Args[0]); len(el) >= 2 {
						tail = el[1:]
					}
				}
				// the appended slice: a whole queue list (a load of VoterQueue.OnBoarding / OffBoarding)
				var listV ssa.Value
				var qa *ssa.FieldAddr
				for _, tv := range tail {
					if ld, ok := tv.(*ssa.UnOp); ok {
						if fa2, ok := ld.X.(*ssa.FieldAddr); ok && namedOf(fa2.X.Type()) != nil && namedOf(fa2.X.Type()).Obj().Name() == "VoterQueue" {
							listV, qa = tv, fa2
						}
					}
				}
				if qa == nil {
					continue
				}
				q := fieldName(qa.X.Type(), qa.Field)
				list := r.E(listV)
				n++
				c.touch(f)
				// keyed by what is copied into what, not by the function that happens to do it
				cons := "derived-order Queue." + q + " → Relayer.Voters"
				sorted := regexp.MustCompile(`^(slices\.Sort|sort\.Strings|slices\.SortFunc|slices\.SortStableFunc)\(` + regexp.QuoteMeta(list) + `[,)]`)
				var sorts []ssa.Instruction
				for _, ci := range callsIn(f) {
					if sorted.MatchString(p.CallStr(ci)) {
						sorts = append(sorts, ci)
					}
				}
				if t, _ := (&PathSearch{Fn: f, AvoidInstr: instrSet(sorts), IsTarget: func(x ssa.Instruction) bool { return x == ssa.Instruction(st) }}).Find(); t == nil && len(sorts) > 0 {
					c.Held(rule, cons, p.InstrPos(st), "the list is sorted before its order is copied into the group")
				} else {
					c.Violated(rule, cons, p.InstrPos(st), "the voter list of the relayer group takes over the order of Queue."+q+" (in "+FuncKey(f)+"), which is arrival order on the running chain but voter-record (address) order on a chain initialised from an export (the queue is not exported; InitGenesis rebuilds it from the voter records): the two chains elect differently ordered groups")
				}
			}
		}
	}
	c.Floor(rule, "whole-list copies of a voter queue into the relayer group", n, 1)
}


// exportedHashWindow (C18/R9): the loop that exports the bitcoin block hashes reads BlockHashes.Get(h) for
// h = tip, tip-1, … and can reach h = 0: with the counter at the value that reads height 0 the loop guard still holds.
func (c *Check) exportedHashWindow(rule string) {
	p := c.p
	eg := p.MustFn("x/bitcoin/module.ExportGenesis")
	reach, _ := p.CG().Reach([]*ssa.Function{eg}, nil)
	var site ssa.CallInstruction
	var in *ssa.Function
	n := 0
	for f := range reach {
		if p.isGenerated(f) || !isProdPkgFn(f) {
			continue
		}
		for _, ci := range callsIn(f) {
			if strings.HasPrefix(p.CallStr(ci), "BlockHashes.Get(") {
				site, in = ci, f
				n++
			}
		}
	}
	cons := "exported-hash-window @ " + FuncKey(eg)
	if n != 1 {
		c.Violated(rule, cons, p.Pos(eg.Pos()), fmt.Sprintf("%d reads of BlockHashes reachable from the export (expected one, in a loop) reason=not-established", n))
		return
	}
	c.touch(in)
	r := p.R(in)
	var arg ssa.Value
	for _, a := range site.Common().Args {
		if !isContextType(a.Type()) {
			arg = a
		}
	}
	// the height read: counter + k
	k := int64(0)
	ctr, _ := arg.(*ssa.Phi)
	if bo, ok := arg.(*ssa.BinOp); ok && (bo.Op == token.SUB || bo.Op == token.ADD) {
		if cst, ok := bo.Y.(*ssa.Const); ok && cst.Value != nil {
			if v, exact := constant.Int64Val(constant.ToInt(cst.Value)); exact {
				k = v
				if bo.Op == token.SUB {
					k = -v
				}
				ctr, _ = bo.X.(*ssa.Phi)
			}
		}
	}
	if ctr == nil {
		c.Violated(rule, cons, p.InstrPos(site), "the height read is not a loop counter (plus a constant): "+r.E(arg)+" reason=not-established")
		return
	}
	var init ssa.Value
	down := false
	for _, e := range ctr.Edges {
		if bo, ok := e.(*ssa.BinOp); ok && bo.Op == token.SUB && bo.X == ssa.Value(ctr) && isConstIntVal(bo.Y, 1) {
			down = true
			continue
		}
		if init != nil {
			init = nil
			break
		}
		init = e
	}
	if init == nil || !down {
		c.Violated(rule, cons, p.InstrPos(site), "the counter does not descend by one from a single start value: "+r.E(ctr)+" reason=not-established")
		return
	}
	// first height read = init + k must be the tip
	first := r.E(init)
	tipRe := `(?:BlockTip\.Peek\(\)#0|[^|{}]*\.BlockTip)`
	okFirst := false
	switch k {
	case 0:
		okFirst = regexp.MustCompile(`^` + tipRe + `$`).MatchString(first)
	case -1:
		okFirst = regexp.MustCompile(`^\(1 \+ ` + tipRe + `\)$`).MatchString(first)
	}
	if !okFirst {
		c.Violated(rule, cons, p.InstrPos(site), fmt.Sprintf("the first height read is %s%+d, not the tip", first, k))
		return
	}
	// the loop guard with the counter at the value that reads height 0
	hdr := ctr.Block()
	iff, _ := hdr.Instrs[len(hdr.Instrs)-1].(*ssa.If)
	if iff == nil {
		c.Violated(rule, cons, p.InstrPos(site), "no loop guard on the counter reason=not-established")
		return
	}
	cond, neg := iff.Cond, false
	for {
		if u, ok := cond.(*ssa.UnOp); ok && u.Op == token.NOT {
			cond, neg = u.X, !neg
			continue
		}
		break
	}
	bo, ok := cond.(*ssa.BinOp)
	if !ok {
		c.Violated(rule, cons, p.InstrPos(site), "loop guard is not a comparison of the counter reason=not-established")
		return
	}
	at0 := constant.MakeInt64(-k)
	var lhs, rhs constant.Value
	cv := func(v ssa.Value) constant.Value {
		if v == ssa.Value(ctr) {
			return at0
		}
		if cst, ok := v.(*ssa.Const); ok && cst.Value != nil {
			return constant.ToInt(cst.Value)
		}
		return nil
	}
	lhs, rhs = cv(bo.X), cv(bo.Y)
	if lhs == nil || rhs == nil || lhs.Kind() != constant.Int || rhs.Kind() != constant.Int {
		c.Violated(rule, cons, p.InstrPos(site), "loop guard "+r.E(cond)+" is not a comparison of the counter with a constant reason=not-established")
		return
	}
	holds := constant.Compare(lhs, bo.Op, rhs) != neg
	// the body is the successor taken when the guard holds
	bodyIsTrue := r.blockReach(hdr.Succs[0])[site.Block()] || hdr.Succs[0] == site.Block()
	if holds != bodyIsTrue {
		c.Violated(rule, cons, p.InstrPos(site), fmt.Sprintf("the loop stops before height 0: with the counter at %d (which reads height 0) the guard %s sends control out of the loop", -k, r.E(cond)))
		return
	}
	c.Held(rule, cons, p.InstrPos(site), fmt.Sprintf("reads tip, tip-1, …; the guard %s still holds for the counter value %d that reads height 0", r.E(cond), -k))
}


// voteKeyRepresentation (C16/R6, C18/R6, C01/R6): a voter record holds the HASH of its vote key while it is
// VOTER_STATUS_PENDING and the key itself afterwards. Wherever the relayer module chooses between `v.VoteKey` and
// `SHA256Sum(v.VoteKey)` of one record, the raw field is taken only on the way where the status is Pending and the
// hashed one only where it is not — otherwise the uniqueness lookup (and the proof check) compares unlike things.
func (c *Check) voteKeyRepresentation(rule string) {
	p := c.p
	n := 0
	for _, f := range p.ProdFuncs {
		if p.isGenerated(f) || len(f.Blocks) == 0 || !strings.HasPrefix(FuncKey(rootOf(f)), "x/relayer/") {
			continue
		}
		r := p.R(f)
		for _, b := range f.Blocks {
			for _, in := range b.Instrs {
				ph, ok := in.(*ssa.Phi)
				if !ok {
					break
				}
				var raw, hashed []int
				rec := ""
				for k, e := range ph.Edges {
					s := r.E(e)
					if m := regexp.MustCompile(`^crypto\.SHA256Sum\(\[(.*)\.VoteKey\]\)$`).FindStringSubmatch(s); m != nil {
						hashed = append(hashed, k)
						rec = m[1]
					}
				}
				if rec == "" {
					continue
				}
				for k, e := range ph.Edges {
					if r.E(e) == rec+".VoteKey" {
						raw = append(raw, k)
					}
				}
				if len(raw) == 0 {
					continue
				}
				n++
				c.touch(f)
				pend, notPend := EQ("VOTER_STATUS_PENDING", rec+".Status"), NE("VOTER_STATUS_PENDING", rec+".Status")
				factsInto := func(k int) map[string]bool {
					m := map[string]bool{}
					pred := b.Preds[k]
					for _, ef := range p.EdgeFacts(f) {
						if ef.Pred == nil && ef.Block == pred && pred.Succs[ef.Idx] == b && len(pred.Succs) == 2 && pred.Succs[0] != pred.Succs[1] {
							m[ef.Fact] = true
						}
					}
					if term := pred.Instrs[len(pred.Instrs)-1]; term != nil {
						for _, ft := range p.guardFactsOf(f, term) {
							m[ft] = true
						}
					}
					return m
				}
				cons := "vote-key-representation @ " + FuncKey(f)
				bad := ""
				for _, k := range raw {
					if !factsInto(k)[pend] {
						bad = "the raw VoteKey field is used where the record is not known to be Pending (it then holds the key, not its hash)"
					}
				}
				for _, k := range hashed {
					if !factsInto(k)[notPend] {
						bad = "the hash of the VoteKey field is used where the record is not known to be past Pending (the field then already is a hash)"
					}
				}
				if bad == "" {
					c.Held(rule, cons, p.InstrPos(ph), "raw under "+pend+", hashed under "+notPend)
				} else {
					c.Violated(rule, cons, p.InstrPos(ph), bad)
				}
			}
		}
	}
	c.Floor(rule, "choices between a vote key and its hash", n, 1)
}
