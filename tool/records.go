package main

// Local records: a struct variable that is loaded from a collection, modified and written back. The modification can
// be made in place under guards, or on a copy that is validated and then assigned back ("copy, modify, validate,
// commit"). The helpers here let a rule talk about "the value that ends up in the stored record" in both styles.

import (
	"go/token"
	"go/types"
	"regexp"
	"strings"

	"golang.org/x/tools/go/ssa"
)

// commitPoints: the instructions at which a value stored to a field of the local record (the store st, rooted at
// alloc a) becomes part of a persisted or shared record: a collections write whose argument is rooted at a, or —
// when a is copied as a whole into another local record (`*p = *a`) — the commit points of that record after the
// copy. Only points reachable from st without the field being overwritten are returned.
func (p *Prog) commitPoints(fn *ssa.Function, st *ssa.Store) []ssa.Instruction {
	a, path := rootAlloc(st.Addr)
	if a == nil {
		return nil
	}
	r := p.R(fn)
	// hops(a, from, path): the first instructions after `from` at which the field leaves record a towards a
	// persisted record: a collections write of a, or a whole copy of a into a record that itself has such a hop
	var hops func(a *ssa.Alloc, from ssa.Instruction, seen map[*ssa.Alloc]bool) []ssa.Instruction
	hops = func(a *ssa.Alloc, from ssa.Instruction, seen map[*ssa.Alloc]bool) []ssa.Instruction {
		if seen[a] || len(seen) > 4 {
			return nil
		}
		seen[a] = true
		defer delete(seen, a)
		kill := func(in ssa.Instruction) bool {
			s2, ok := in.(*ssa.Store)
			if !ok || s2 == from {
				return false
			}
			ra, rp := rootAlloc(s2.Addr)
			return ra == a && (rp == "" || rp == path)
		}
		reaches := func(to ssa.Instruction) bool {
			t, _ := (&PathSearch{Fn: fn, From: from, AvoidInstr: kill, IsTarget: func(in ssa.Instruction) bool { return in == to }}).Find()
			return t != nil
		}
		var out []ssa.Instruction
		for _, s := range p.StoreSites(fn) {
			if !s.IsWrite() {
				continue
			}
			for _, arg := range s.Args {
				if rootsAt(arg, a) && reaches(s.Call) {
					out = append(out, s.Call)
				}
			}
		}
		for other, ws := range r.wholeStores {
			for _, w := range ws {
				if structCopySource(w) == a && other != a && reaches(w) && len(hops(other, w, seen)) > 0 {
					out = append(out, w)
				}
			}
		}
		return out
	}
	return hops(a, st, map[*ssa.Alloc]bool{})
}

// recordArgMarker: callee parameter i bound to a whole local record of the caller.
func recordArgMarker(i int) string { return "⟦rec" + itoa(i) + "⟧" }

var recordFieldRe = regexp.MustCompile(`⟦rec(\d+)⟧((?:\.\w+)+)`)

// bindArgs renders the arguments of a call for RBound. An argument that is a whole local struct variable is
// bound to a marker; fixFact then replaces `marker.F` by the value field F has at the call (flow-sensitively,
// through whole-record copies), so that facts the callee establishes about a field of the record it was handed
// are facts about the value the caller put there.
func (p *Prog) bindArgs(fn *ssa.Function, call *ssa.Call) ([]string, func(string) string) {
	return p.bindArgsR(fn, p.R(fn), call)
}

func (p *Prog) bindArgsR(fn *ssa.Function, r *Renderer, call *ssa.Call) ([]string, func(string) string) {
	bind := make([]string, len(call.Call.Args))
	recs := map[int]*ssa.Alloc{}
	for i, a := range call.Call.Args {
		bind[i] = r.E(a)
		if u, ok := a.(*ssa.UnOp); ok && u.Op == token.MUL {
			if al, ok := u.X.(*ssa.Alloc); ok {
				if _, isStruct := al.Type().(*types.Pointer).Elem().Underlying().(*types.Struct); isStruct && len(r.fieldStores[al]) > 0 {
					recs[i] = al
					bind[i] = recordArgMarker(i)
				}
			}
		}
	}
	fix := func(s string) string {
		if len(recs) == 0 || !strings.Contains(s, "⟦rec") {
			return s
		}
		s = recordFieldRe.ReplaceAllStringFunc(s, func(m string) string {
			sm := recordFieldRe.FindStringSubmatch(m)
			idx := 0
			for _, ch := range sm[1] {
				idx = idx*10 + int(ch-'0')
			}
			al := recs[idx]
			if al == nil {
				return m
			}
			return r.fieldAt(al, sm[2], call, r.E(al)+sm[2], 0)
		})
		for i, al := range recs {
			s = strings.ReplaceAll(s, recordArgMarker(i), r.E(al))
		}
		return s
	}
	return bind, fix
}

// impliedFacts: the facts established by taking edge ef when ef is the success edge of a call to a repository
// function g — the edge facts of g that lie on every path to a success exit of g, in the caller's terms.
func (p *Prog) impliedFacts(fn *ssa.Function, ef EdgeFact, depth int) []string {
	if depth <= 0 || ef.Pred != nil {
		return nil
	}
	v := p.successCallOfEdge(ef)
	if v == nil {
		return nil
	}
	var call *ssa.Call
	switch x := v.(type) {
	case *ssa.Call:
		call = x
	case *ssa.Extract:
		call, _ = x.Tuple.(*ssa.Call)
	}
	if call == nil {
		return nil
	}
	g := call.Call.StaticCallee()
	if g == nil || g.Blocks == nil || !isProdPkgFn(g) || g == fn {
		return nil
	}
	bind, fix := p.bindArgs(fn, call)
	gr := p.RBound(g, bind, 1)
	var out []string
	succ := successTargets(g)
	dead := p.infeasibleUnder(p.typeAssumptionsAt(fn, call), g, gr, fix)
	for _, gf := range p.edgeFactsWith(g, gr) {
		if gf.Fact == infeasible || gf.Pred != nil || dead[gf.Key()] {
			continue
		}
		av := map[edgeKey]bool{gf.Key(): true}
		for k := range dead {
			av[k] = true
		}
		if t, _ := (&PathSearch{Fn: g, AvoidEdges: av, IsTarget: succ}).Find(); t == nil {
			out = append(out, fix(gf.Fact))
			// facts implied by a nested helper's success
			out = append(out, p.impliedFactsNested(g, gr, gf, fix, depth-1)...)
		}
	}
	// a single feasible success exit that returns a condition directly: the condition holds
	var feas []*ssa.Return
	for _, e := range Exits(g) {
		if e.Kind == exitFailure {
			continue
		}
		if t, _ := (&PathSearch{Fn: g, AvoidEdges: dead, IsTarget: func(in ssa.Instruction) bool { return in == ssa.Instruction(e.Ret) }}).Find(); t != nil {
			feas = append(feas, e.Ret)
		}
	}
	if len(feas) == 1 && len(feas[0].Results) > 0 {
		op := feas[0].Results[len(feas[0].Results)-1]
		if _, isC := op.(*ssa.Const); !isC {
			if bt, ok := op.Type().Underlying().(*types.Basic); ok && bt.Kind() == types.Bool {
				out = append(out, fix(posFact(gr, op)))
			}
		}
	}
	return out
}

func (p *Prog) impliedFactsNested(g *ssa.Function, gr *Renderer, gf EdgeFact, fix func(string) string, depth int) []string {
	if depth <= 0 {
		return nil
	}
	v := p.successCallOfEdge(gf)
	if v == nil {
		return nil
	}
	var call *ssa.Call
	switch x := v.(type) {
	case *ssa.Call:
		call = x
	case *ssa.Extract:
		call, _ = x.Tuple.(*ssa.Call)
	}
	if call == nil {
		return nil
	}
	h := call.Call.StaticCallee()
	if h == nil || h.Blocks == nil || !isProdPkgFn(h) || h == g {
		return nil
	}
	bind := make([]string, len(call.Call.Args))
	for i, a := range call.Call.Args {
		bind[i] = gr.E(a)
	}
	hr := p.RBound(h, bind, 1)
	succ := successTargets(h)
	var out []string
	for _, hf := range p.edgeFactsWith(h, hr) {
		if hf.Fact == infeasible || hf.Pred != nil {
			continue
		}
		if t, _ := (&PathSearch{Fn: h, AvoidEdges: map[edgeKey]bool{hf.Key(): true}, IsTarget: succ}).Find(); t == nil {
			out = append(out, fix(hf.Fact))
		}
	}
	return out
}

// commitFacts: the facts every execution that commits the value stored by st has passed: the facts necessary to
// reach the store, the facts no path from the store to a commit point avoids, and what the successful calls among
// them imply.
func (p *Prog) commitFacts(fn *ssa.Function, st *ssa.Store) (facts []string, commits []ssa.Instruction) {
	commits = p.commitPoints(fn, st)
	if len(commits) == 0 {
		return nil, nil
	}
	isCommit := instrSet(commits)
	seen := map[string]bool{}
	add := func(ef EdgeFact) {
		for _, f := range append([]string{ef.Fact}, p.impliedFacts(fn, ef, 2)...) {
			if !seen[f] {
				seen[f] = true
				facts = append(facts, f)
			}
		}
	}
	for _, nf := range p.necessaryFacts(fn, st) {
		add(nf)
	}
	for _, ef := range p.EdgeFacts(fn) {
		if ef.Fact == infeasible {
			continue
		}
		ps := &PathSearch{Fn: fn, From: st, AvoidEdges: map[edgeKey]bool{ef.Key(): true}, IsTarget: isCommit}
		if t, _ := ps.Find(); t == nil {
			add(ef)
		}
	}
	return dedupe(facts), commits
}

// requireFactForCommitted: the value stored by st (a field of a local record) reaches a commit point only on
// executions that established a fact matching pattern: either the guard dominates the store (in-place style), or
// no path leads from the store to a commit point without it (copy-validate-commit style; the fact may be implied
// by a successful call that was handed the record).
func (c *Check) requireFactForCommitted(fn *ssa.Function, rule, name, pattern string, st *ssa.Store, what string) bool {
	p := c.p
	c.touch(fn)
	construct := name + " @ " + FuncKey(fn)
	re := regexp.MustCompile(pattern)
	edges := p.MatchEdges(fn, re)
	// edges whose successful call implies the fact about the record it was handed
	for _, ef := range p.EdgeFacts(fn) {
		if ef.Fact == infeasible {
			continue
		}
		for _, f := range p.impliedFacts(fn, ef, 2) {
			if re.MatchString(f) {
				edges = append(edges, ef)
				break
			}
		}
	}
	if len(edges) == 0 {
		c.Violated(rule, construct, p.InstrPos(st), "no branch establishes the fact /"+pattern+"/ reason=not-established")
		return false
	}
	avoid := edgeSet(edges)
	isSt := func(in ssa.Instruction) bool { return in == ssa.Instruction(st) }
	if t, _ := (&PathSearch{Fn: fn, AvoidEdges: avoid, IsTarget: isSt}).Find(); t == nil {
		c.Held(rule, construct, p.InstrPos(st), "fact "+edges[0].Fact+" on every path to the "+what)
		return true
	}
	commits := p.commitPoints(fn, st)
	if len(commits) == 0 {
		c.Held(rule, construct, p.InstrPos(st), "the value stored here never reaches a persisted record")
		return true
	}
	if t, path := (&PathSearch{Fn: fn, From: st, AvoidEdges: avoid, IsTarget: instrSet(commits)}).Find(); t != nil {
		c.Violated(rule, construct, p.InstrPos(st), "the "+what+" is reached without the guard, and the stored value is then committed ("+p.InstrPos(t)+") without establishing /"+pattern+"/ on the way", p.describePath(path)...)
		return false
	}
	c.Held(rule, construct, p.InstrPos(st), "fact on every path from the "+what+" to the point where the record is committed")
	return true
}

// recordOrigins: the renderings of the values a local record can have been (whole-)assigned, following whole copies
// from other local records.
func (p *Prog) recordOrigins(fn *ssa.Function, a *ssa.Alloc) []string {
	r := p.R(fn)
	seen := map[*ssa.Alloc]bool{}
	var out []string
	var walk func(a *ssa.Alloc)
	walk = func(a *ssa.Alloc) {
		if seen[a] {
			return
		}
		seen[a] = true
		if len(r.wholeStores[a]) == 0 {
			out = append(out, r.E(a))
		}
		for _, w := range r.wholeStores[a] {
			if src := structCopySource(w); src != nil {
				walk(src)
			} else {
				out = append(out, r.E(w.Val))
			}
		}
	}
	walk(a)
	return dedupe(out)
}

// returnedClosure: the closure a constructor-style function returns (`func (k Keeper) XHandler(...) sdk.XHandler {
// return func(...) {...} }`) — resolved from the return operand, not from the closure's ordinal name.
func (p *Prog) returnedClosure(key string) *ssa.Function {
	f := p.MustFn(key)
	for _, b := range f.Blocks {
		ret, ok := b.Instrs[len(b.Instrs)-1].(*ssa.Return)
		if !ok || len(ret.Results) == 0 {
			continue
		}
		v := ret.Results[0]
		for i := 0; i < 4; i++ {
			switch x := v.(type) {
			case *ssa.MakeClosure:
				if g, ok := x.Fn.(*ssa.Function); ok {
					return g
				}
			case *ssa.ChangeType:
				v = x.X
				continue
			case *ssa.MakeInterface:
				v = x.X
				continue
			case *ssa.Function:
				return x
			}
			break
		}
	}
	panic(unresolved("closure returned by " + key))
}

// closureCalling: the closure created inside outer whose body (directly) contains a call rendered matching pattern.
func (p *Prog) closureCalling(outer *ssa.Function, pattern string) *ssa.Function {
	if g := p.closureCallingOpt(outer, pattern); g != nil {
		return g
	}
	panic(unresolved("closure of " + FuncKey(outer) + " calling " + pattern))
}

func (p *Prog) closureCallingOpt(outer *ssa.Function, pattern string) *ssa.Function {
	for _, g := range outer.AnonFuncs {
		if len(p.FindCalls(g, pattern)) > 0 {
			return g
		}
	}
	return nil
}


// builtRecordFields: v is a record built from scratch — a local struct variable whose fields are stored one by one
// (a composite literal) or the result of a repository constructor that builds such a record from its parameters.
// Returns field name → rendering of the stored value in fn's terms; ok=false when v is anything else (e.g. loaded).
func (p *Prog) builtRecordFields(fn *ssa.Function, v ssa.Value) (map[string]string, bool) {
	r := p.R(fn)
	for i := 0; i < 3; i++ {
		switch x := v.(type) {
		case *ssa.UnOp:
			if x.Op == token.MUL {
				v = x.X
				continue
			}
		case *ssa.MakeInterface:
			v = x.X
			continue
		}
		break
	}
	switch x := v.(type) {
	case *ssa.Alloc:
		if _, isStruct := x.Type().(*types.Pointer).Elem().Underlying().(*types.Struct); !isStruct {
			return nil, false
		}
		// a literal copied into a named local: follow the copy
		if ws := r.wholeStores[x]; len(ws) == 1 {
			if src := structCopySource(ws[0]); src != nil {
				return p.builtRecordFields(fn, src)
			}
			if call, ok := ws[0].Val.(*ssa.Call); ok {
				return p.builtRecordFields(fn, call)
			}
			return nil, false
		} else if len(ws) > 1 {
			return nil, false
		}
		out := map[string]string{}
		for _, st := range r.fieldStores[x] {
			if fa, ok := st.Addr.(*ssa.FieldAddr); ok && fa.X == ssa.Value(x) {
				out[fieldName(fa.X.Type(), fa.Field)] = r.E(st.Val)
			}
		}
		return out, true
	case *ssa.Call:
		g := x.Call.StaticCallee()
		if g == nil || len(g.Blocks) == 0 || !isProdPkgFn(g) || p.isGenerated(g) {
			return nil, false
		}
		bind := make([]string, len(x.Call.Args))
		for i, a := range x.Call.Args {
			bind[i] = r.E(a)
		}
		gr := p.RBound(g, bind, 1)
		var out map[string]string
		for _, b := range g.Blocks {
			ret, ok := b.Instrs[len(b.Instrs)-1].(*ssa.Return)
			if !ok || len(ret.Results) == 0 {
				continue
			}
			rv := ret.Results[0]
			if u, ok := rv.(*ssa.UnOp); ok && u.Op == token.MUL {
				rv = u.X
			}
			al, ok := rv.(*ssa.Alloc)
			if !ok || len(gr.wholeStores[al]) > 0 || out != nil {
				return nil, false
			}
			out = map[string]string{}
			for _, st := range gr.fieldStores[al] {
				if fa, ok := st.Addr.(*ssa.FieldAddr); ok && fa.X == ssa.Value(al) {
					out[fieldName(fa.X.Type(), fa.Field)] = gr.E(st.Val)
				}
			}
		}
		return out, out != nil
	}
	return nil, false
}


var typeFactRe = regexp.MustCompile(`^(!?)(.+)\.\((\*?[\w/.]+)\)#1$`)

// typeAssumptionsAt: the dynamic types known at instruction `at` of fn: X ↦ T for every necessary fact `X.(T)#1`
// (a comma-ok type assertion or type-switch arm that every path to `at` has taken).
func (p *Prog) typeAssumptionsAt(fn *ssa.Function, at ssa.Instruction) map[string]string {
	// cheap pre-check: any type-assert edge in fn at all?
	any := false
	for _, ef := range p.EdgeFacts(fn) {
		if typeFactRe.MatchString(ef.Fact) {
			any = true
			break
		}
	}
	if !any {
		return nil
	}
	out := map[string]string{}
	for _, nf := range p.necessaryFacts(fn, at) {
		if m := typeFactRe.FindStringSubmatch(nf.Fact); m != nil && m[1] == "" {
			out[m[2]] = m[3]
		}
	}
	return out
}

// infeasibleUnder: the edges of callee g (facts rendered by gr, rewritten by fix into the caller's terms) that
// contradict what the caller knows about dynamic types at the call: another concrete type asserted of the same value,
// or the negation of the known one. A type switch in a helper is thereby correlated with the caller's type guard.
func (p *Prog) infeasibleUnder(assume map[string]string, g *ssa.Function, gr *Renderer, fix func(string) string) map[edgeKey]bool {
	if len(assume) == 0 {
		return nil
	}
	out := map[edgeKey]bool{}
	for _, ef := range p.edgeFactsWith(g, gr) {
		m := typeFactRe.FindStringSubmatch(fix(ef.Fact))
		if m == nil {
			continue
		}
		t, ok := assume[m[2]]
		if !ok {
			continue
		}
		if (m[1] == "" && t != m[3]) || (m[1] == "!" && t == m[3]) {
			out[ef.Key()] = true
		}
	}
	return out
}
