package main

import (
	"fmt"
	"regexp"
	"strings"

	"golang.org/x/tools/go/ssa"
)

func init() {
	register("C11", propC11)
	register("C12", propC12)
}

// storesIn lists rendered (address, value) of the stores of fn.
type rstore struct {
	in        *ssa.Store
	addr, val string
}

func (p *Prog) renderedStores(fn *ssa.Function) []rstore {
	r := p.R(fn)
	var out []rstore
	for _, b := range fn.Blocks {
		for _, in := range b.Instrs {
			if st, ok := in.(*ssa.Store); ok {
				out = append(out, rstore{st, r.E(st.Addr), r.E(st.Val)})
			}
		}
	}
	return out
}

var ordRe = regexp.MustCompile(`‹\d+›`)

// noOrd strips call ordinals (used where distinct reads of an unchanged value are interchangeable).
func noOrd(s string) string { return ordRe.ReplaceAllString(s, "") }

func propC11(c *Check) {
	p := c.p
	c.Rule("R1", "writers: Validator.Locking is stored only in lock, unlock, the two slash functions (and creation); Slashed only in the two slash functions and genesis")
	c.Rule("R2", "paired deltas: unlock subtracts from the holding exactly the amount it queues, clipped to the holding; lock adds exactly the requested coins; each slash adds to Slashed[denom] exactly what it takes from the holding (everything when the truncated fraction is zero) on top of the previous total")
	c.Rule("R3", "the downtime path uses SlashFractionDowntime, the evidence path SlashFractionDoubleSign")
	c.Rule("R4", "validator creation never overwrites: a validator record built from scratch is stored only under a key that was looked up and found absent (re-creating a validator would wipe the coins its record still holds)")
	c.freshRecordsNeverOverwrite("R4", "x/locking/keeper", "Validators", 1)
	c.Rule("R5", "every slash fraction the parameter validation accepts lies in [0, 1): a negative fraction would make a slash credit the offender and drive the slashed total negative, a fraction >= 1 would take more than is held")
	c.Rule("R6", "a queued unlock is delivered once: the locking hand-over consumes exactly the unlocks it emitted (C06/R2 on the Unlocks list)")
	c.DependOn("R6", "C06", propC06, map[string]bool{"R2": true}, regexp.MustCompile(`Unlock.*@ x/locking/keeper\.Keeper\.DequeueLockingModuleTx`), "an unlock delivered twice releases more than was requested and more than was taken from the holding")
	c.slashFractionsValidated("R5")
	vt := p.LookupType("x/locking/types", "Validator")
	allowedL := map[string]bool{"x/locking/keeper.Keeper.lock": true, "x/locking/keeper.Keeper.unlock": true, "x/locking/keeper.Keeper.handleVoteInfo": true,
		"x/locking/keeper.Keeper.handleEvidence": true, "x/locking/keeper.Keeper.createValidator": true}
	c.checkFieldWriters("R1", vt, "Locking", "holding", allowedL, 4)
	c.checkWriters("R1", "x/locking/keeper", "Slashed", map[string]string{
		"x/locking/keeper.Keeper.handleVoteInfo": "Set", "x/locking/keeper.Keeper.handleEvidence": "Set", "x/locking/module.InitGenesis": "Set"}, 3)

	// unlock
	un := p.MustFn("x/locking/keeper.Keeper.unlock")
	c.touch(un)
	{
		V := "Validators.Get(Address.Bytes($2.Validator))#0"
		den := "locking/types.TokenDenom($2.Token)"
		var amt, hold string
		for _, s := range p.renderedStores(un) {
			if s.addr == "new(locking/types.Unlock)#0.Amount" {
				amt = s.val
			}
			if s.addr == V+".Locking" {
				hold = s.val
			}
		}
		wantAmt := "φ{sdkmath.NewIntFromBigInt($2.Amount)|sdkmath.NewIntFromBigIntMut(Int.BigInt(Coins.AmountOf(" + V + ".Locking, " + den + ")))}"
		if noOrd(amt) == wantAmt {
			c.Held("R2", "released=min(requested,held) @ "+FuncKey(un), p.Pos(un.Pos()), amt)
		} else {
			c.Violated("R2", "released=min(requested,held) @ "+FuncKey(un), p.Pos(un.Pos()), "amount queued for release is "+amt+", expected "+wantAmt)
		}
		if hold == "Coins.Sub("+V+".Locking, [cosmos-sdk/types.NewCoin("+den+", "+amt+")])" && amt != "" {
			c.Held("R2", "holding-reduced-by-released @ "+FuncKey(un), p.Pos(un.Pos()), "holding = holding − released (same value)")
		} else {
			c.Violated("R2", "holding-reduced-by-released @ "+FuncKey(un), p.Pos(un.Pos()), "holding becomes "+hold+" while "+amt+" is queued")
		}
		// the held amount is chosen exactly when held < requested
		okClip := false
		for _, b := range un.Blocks {
			for _, in := range b.Instrs {
				ph, ok := in.(*ssa.Phi)
				if !ok || p.R(un).E(ph) != amt {
					continue
				}
				for k, e := range ph.Edges {
					if strings.HasPrefix(p.R(un).E(e), "sdkmath.NewIntFromBigIntMut(") {
						pred := b.Preds[k]
						t := pred.Instrs[len(pred.Instrs)-1]
						okClip = c.RequireFact(un, "R2", "clip-when-held<requested", lit("Int.LT(Coins.AmountOf("+V+".Locking, "+den+"), sdkmath.NewIntFromBigInt($2.Amount))"), instrSet([]ssa.Instruction{t}), "clipping")
					}
				}
			}
		}
		if !okClip {
			c.Violated("R2", "clip-selection @ "+FuncKey(un), p.Pos(un.Pos()), "the clipped amount is not selected by held < requested reason=not-established")
		}
		// unlock record carries the request's id / token / recipient
		want := map[string]string{"Id": "$2.Id", "Token": "Address.Bytes($2.Token)", "Recipient": "Address.Bytes($2.Recipient)"}
		for _, s := range p.renderedStores(un) {
			if strings.HasPrefix(s.addr, "new(locking/types.Unlock)#0.") {
				f := strings.TrimPrefix(s.addr, "new(locking/types.Unlock)#0.")
				if w, ok := want[f]; ok {
					if s.val == w {
						c.Held("R2", "unlock-record."+f+" @ "+FuncKey(un), p.InstrPos(s.in), w)
					} else {
						c.Violated("R2", "unlock-record."+f+" @ "+FuncKey(un), p.InstrPos(s.in), "is "+s.val+", expected "+w)
					}
				}
			}
		}
	}
	// lock
	lk := p.MustFn("x/locking/keeper.Keeper.lock")
	c.touch(lk)
	{
		V := "Validators.Get(Address.Bytes($2))#0"
		ok := false
		for _, s := range p.renderedStores(lk) {
			if s.addr == V+".Locking" {
				ok = s.val == "Coins.Add("+V+".Locking, $3)"
				if !ok {
					c.Violated("R2", "holding-increased-by-request @ "+FuncKey(lk), p.InstrPos(s.in), "holding becomes "+s.val)
				}
			}
		}
		if ok {
			c.Held("R2", "holding-increased-by-request @ "+FuncKey(lk), p.Pos(lk.Pos()), "holding = holding + requested coins")
		}
		c.RequireFact(lk, "R2", "record-stored", `^\(Validators\.Set\(.*\) == nil\)$`, nil, "")
		L := p.MustFn("x/locking/keeper.Keeper.Lock")
		c.touch(L)
		agg := false
		for _, b := range L.Blocks {
			for _, in := range b.Instrs {
				if mu, ok := in.(*ssa.MapUpdate); ok {
					v := p.R(L).E(mu.Value)
					if strings.HasSuffix(v, ", [cosmos-sdk/types.NewCoin(locking/types.TokenDenom($2[φ{(1 + @)|0}].Token), sdkmath.NewIntFromBigInt($2[φ{(1 + @)|0}].Amount))])") && strings.HasPrefix(v, "Coins.Add(") {
						agg = true
					}
				}
			}
		}
		if agg {
			c.Held("R2", "requests-aggregated-exactly @ "+FuncKey(L), p.Pos(L.Pos()), "updates[validator] += coin(token, amount) per request")
		} else {
			c.Violated("R2", "requests-aggregated-exactly @ "+FuncKey(L), p.Pos(L.Pos()), "aggregation of lock requests not established reason=not-established")
		}
	}
	// slashes
	for _, sl := range []struct{ key, param, frac, rec string }{
		{"x/locking/keeper.Keeper.handleVoteInfo", "$4", "SlashFractionDowntime", "Validators.Get($2)#0"},
		{"x/locking/keeper.Keeper.handleEvidence", "$3", "SlashFractionDoubleSign", "Validators.Get(Address.Bytes(Validator.Address(Evidence.Validator($2))))#0"},
	} {
		f := p.MustFn(sl.key)
		c.touch(f)
		// the Slashed.Set may live in a private helper (slash loop extracted): it is rendered in this function's terms
		dsets := p.FindCallsDeep(f, `^Slashed\.Set\(`)
		if len(dsets) != 1 {
			c.Violated("R2", "slash-credited @ "+sl.key, p.Pos(f.Pos()), fmt.Sprintf("%d Slashed.Set sites reason=not-established", len(dsets)))
			continue
		}
		sets := []ssa.Instruction{dsets[0].Site0()}
		setStr := noOrd(dsets[0].Str)
		m := regexp.MustCompile(`^Slashed\.Set\((.*)\.Denom, Int\.Add\(φ\{Slashed\.Get\((.*)\.Denom\)#0\|sdkmath\.ZeroInt\(\)\}, φ\{LegacyDec\.TruncateInt\(LegacyDec\.Mul\(sdkmath\.LegacyNewDecFromInt\((.*)\.Amount\), (\$\d)\.(\w+)\)\)\|(?:sdkmath\.NewIntFromBigIntMut\(Int\.BigInt\((.*)\.Amount\)\)|(.*)\.Amount)\}\)\)$`).FindStringSubmatch(setStr)
		if m == nil {
			c.Violated("R2", "slash-credited @ "+sl.key, p.InstrPos(sets[0]), "Slashed[denom] is not set to previous total + (truncated fraction of the holding, or all of it): "+setStr)
			continue
		}
		L := m[1]
		if m[6] == "" {
			m[6] = m[7] // the whole amount taken as the coin's Amount itself (a copy of the same value)
		}
		if m[2] != L || m[3] != L || m[6] != L || !strings.HasSuffix(L, ".Locking[φ{(1 + @)|0}]") {
			c.Violated("R2", "slash-credited @ "+sl.key, p.InstrPos(sets[0]), "slash amounts refer to different coins: "+setStr)
			continue
		}
		c.Held("R2", "slash-credited @ "+sl.key, p.InstrPos(sets[0]), "Slashed[denom] = previous + slashed amount of that coin")
		if m[5] == sl.frac && m[4] == sl.param {
			c.Held("R3", "slash-fraction @ "+sl.key, p.InstrPos(sets[0]), m[4]+"."+m[5])
		} else {
			c.Violated("R3", "slash-fraction @ "+sl.key, p.InstrPos(sets[0]), "uses "+m[4]+"."+m[5]+", expected "+sl.frac)
		}
		trunc := "LegacyDec.TruncateInt(LegacyDec.Mul(sdkmath.LegacyNewDecFromInt(" + L + ".Amount), " + m[4] + "." + m[5] + "))"
		// holding after the slash: sum over coins of (amount − truncated slash), nothing kept when it truncates to zero
		wantHold := "φ{Coins.Add(@, [cosmos-sdk/types.NewCoin(" + L + ".Denom, Int.Sub(" + L + ".Amount, " + trunc + "))])|[]}"
		okHold := false
		var holdStore []ssa.Instruction
		for _, s := range p.renderedStores(f) {
			if strings.HasSuffix(s.addr, "#0.Locking") && !strings.Contains(s.addr, "new(") {
				holdStore = append(holdStore, s.in)
				okHold = noOrd(s.val) == wantHold
				if !okHold {
					c.Violated("R2", "holding-reduced-by-slash @ "+sl.key, p.InstrPos(s.in), "holding after slash is "+s.val+", expected "+wantHold)
				}
			}
		}
		if okHold {
			c.Held("R2", "holding-reduced-by-slash @ "+sl.key, p.InstrPos(sets[0]), "kept = amount − slashed for every coin")
		}
		// "everything" is taken exactly when the truncated slash is zero, and then nothing is kept
		c.RequireFact(f, "R2", "every-coin-slashed", `^\(len\(.*\.Locking\) <= φ\{\(1 \+ @\)\|0\}\)$`, instrSet(holdStore), "holding replaced")
		if skip, path := p.deepIterationCanSkip(f, dsets[0]); skip {
			c.Violated("R2", "slash-credited-every-coin @ "+sl.key, p.InstrPos(sets[0]), "a coin can be taken from the holding without being credited to Slashed", p.describePath(path)...)
		} else {
			c.Held("R2", "slash-credited-every-coin @ "+sl.key, p.InstrPos(sets[0]), "")
		}
		zeroEdge := p.MatchEdgesDeep(f, regexp.MustCompile(`^Int\.IsZero\(LegacyDec\.TruncateInt\(`))
		if len(zeroEdge) == 1 {
			c.Held("R2", "dust-branch @ "+sl.key, p.InstrPos(zeroEdge[0].Block.Instrs[len(zeroEdge[0].Block.Instrs)-1]), "whole amount slashed iff the truncated fraction is zero")
		} else {
			c.Violated("R2", "dust-branch @ "+sl.key, p.Pos(f.Pos()), "selection between truncated fraction and whole amount not established reason=not-established")
		}
	}
}

func propC12(c *Check) {
	p := c.p
	c.Rule("R1", "UpdateRewardPool: the amount added to the distribution pool is the amount subtracted from the remaining grant and is min(remaining, block reward); the block reward is InitialBlockReward halved once per elapsed HalvingInterval; gas is added only when positive; exactly one gas request")
	c.Rule("R2", "DistributeReward: per pool, each validator's share is floor(pool × fraction), the same value is added to the validator and subtracted from the running remainder, the remainder starts as the pool and is stored back; fraction = previous-block voting power / their sum")
	c.Rule("R3", "Claim queues exactly the accrued Reward/GasReward read before they are reset to zero, stores the record and the queue")
	c.Rule("R4", "writers of RewardPool and of Validator.Reward/GasReward")
	c.Rule("R5", "rounding direction: every division/multiplication on the way from voting power to a share rounds down (QuoTruncate, MulTruncate, TruncateInt), so the shares can never exceed the pool")
	urp := p.MustFn("x/locking/keeper.Keeper.UpdateRewardPool")
	c.touch(urp)
	{
		var goat, remain string
		for _, s := range p.renderedStores(urp) {
			switch s.addr {
			case "RewardPool.Get()#0.Goat":
				goat = noOrd(s.val)
			case "RewardPool.Get()#0.Remain":
				if strings.HasPrefix(s.val, "Int.Sub(") {
					remain = noOrd(s.val)
				}
			}
		}
		mg := regexp.MustCompile(`^Int\.Add\(RewardPool\.Get\(\)#0\.Goat, (.*)\)$`).FindStringSubmatch(goat)
		mr := regexp.MustCompile(`^Int\.Sub\((mix\{.*\}), (sdkmath\.NewIntFromBigInt\(.*\))\)$`).FindStringSubmatch(remain)
		if mg != nil && mr != nil && mg[1] == mr[2] {
			c.Held("R1", "moved-amount-paired @ "+FuncKey(urp), p.Pos(urp.Pos()), "pool.Goat += r; pool.Remain −= r (same r)")
			if regexp.MustCompile(`^sdkmath\.NewIntFromBigInt\(φ\{Int\.BigInt\(` + regexp.QuoteMeta(mr[1]) + `\)\|big\.NewInt\(Params\.Get\(\)#0\.InitialBlockReward\)\}\)$`).MatchString(mg[1]) {
				c.Held("R1", "moved=min(remaining,reward) shape @ "+FuncKey(urp), p.Pos(urp.Pos()), mg[1])
			} else {
				c.Violated("R1", "moved=min(remaining,reward) shape @ "+FuncKey(urp), p.Pos(urp.Pos()), "moved amount is "+mg[1])
			}
		} else {
			c.Violated("R1", "moved-amount-paired @ "+FuncKey(urp), p.Pos(urp.Pos()), "pool.Goat = "+goat+" ; pool.Remain = "+remain)
		}
		// the move happens in every block: a success path may go round the pool.Goat store only over the
		// outcome "the amount to move is zero" (a block that books gas and grants but emits nothing although a
		// grant remains shifts the whole schedule)
		if mg != nil {
			var goatSt []ssa.Instruction
			for _, s := range p.renderedStores(urp) {
				if s.addr == "RewardPool.Get()#0.Goat" {
					goatSt = append(goatSt, s.in)
				}
			}
			moved := strings.TrimSuffix(strings.TrimPrefix(mg[1], "sdkmath.NewIntFromBigInt("), ")")
			zero := map[edgeKey]bool{}
			for _, ef := range p.EdgeFacts(urp) {
				f := noOrd(ef.Fact)
				if f == "(0 == Int.Sign("+moved+"))" || f == "(Int.Sign("+moved+") <= 0)" || f == "!Int.IsPositive("+mg[1]+")" || f == "Int.IsZero("+mg[1]+")" {
					zero[ef.Key()] = true
				}
				// nothing remains of the grant after this block's grants were added: min(remaining, …) is zero
				if mr != nil && (f == "!Int.IsPositive("+mr[1]+")" || f == "Int.IsZero("+mr[1]+")" || f == "(0 == Int.Sign(Int.BigInt("+mr[1]+")))") {
					zero[ef.Key()] = true
				}
			}
			if t, path := (&PathSearch{Fn: urp, AvoidInstr: instrSet(goatSt), AvoidEdges: zero, IsTarget: successTargets(urp)}).Find(); t != nil {
				c.Violated("R1", "emission-every-block @ "+FuncKey(urp), p.InstrPos(t), "a success path skips the move into the distribution pool without the moved amount being zero", p.describePath(path)...)
			} else {
				c.Held("R1", "emission-every-block @ "+FuncKey(urp), p.Pos(urp.Pos()), "the pool.Goat store is bypassed only when the amount to move is zero")
			}
		}
		// min selection: remaining replaces the reward only when reward > remaining
		facts := p.EdgeFacts(urp)
		okMin, okHalv, okGas := false, false, false
		for _, ef := range facts {
			f := noOrd(ef.Fact)
			if regexp.MustCompile(`^\(Int\.BigInt\(mix\{.*Remain.*\}\) < big\.NewInt\(Params\.Get\(\)#0\.InitialBlockReward\)\)$`).MatchString(f) {
				okMin = true
			}
			if f == "(0 < (Context.BlockHeight() / Params.Get()#0.HalvingInterval))" || f == "(0 != (Context.BlockHeight() / Params.Get()#0.HalvingInterval))" {
				okHalv = true
			}
			if f == "(0 < Int.Sign($2[φ{(1 + @)|0}].Amount))" {
				okGas = true
			}
		}
		exp := p.FindCalls(urp, `^Int\.Exp\(big\.NewInt\(2\), big\.NewInt\(2\), big\.NewInt\(\(Context\.BlockHeight\(\) / Params\.Get\(\)#0\.HalvingInterval\)\), nil\)`)
		div := p.FindCalls(urp, `^Int\.Div\(big\.NewInt\(Params\.Get\(\)#0\.InitialBlockReward\), big\.NewInt\(Params\.Get\(\)#0\.InitialBlockReward\), `)
		// reward / 2^n written as a right shift of the reward by n (floor division by a power of two, like Exp + Div)
		rsh := p.FindCalls(urp, `^Int\.Rsh\(big\.NewInt\(Params\.Get\(\)#0\.InitialBlockReward\), big\.NewInt\(Params\.Get\(\)#0\.InitialBlockReward\), \(Context\.BlockHeight\(\) / Params\.Get\(\)#0\.HalvingInterval\)\)`)
		halved := len(exp) == 1 && len(div) == 1 && len(rsh) == 0 || len(exp) == 0 && len(div) == 0 && len(rsh) == 1
		for name, ok := range map[string]bool{"min-selected-when-reward>remaining": okMin, "halving-when-interval-elapsed": okHalv && halved, "gas-added-only-when-positive": okGas} {
			if ok {
				c.Held("R1", name+" @ "+FuncKey(urp), p.Pos(urp.Pos()), "")
			} else {
				c.Violated("R1", name+" @ "+FuncKey(urp), p.Pos(urp.Pos()), "not established reason=not-established")
			}
		}
		for _, s := range p.renderedStores(urp) {
			if s.addr == "RewardPool.Get()#0.Gas" {
				if regexp.MustCompile(`^Int\.Add\(mix\{Int\.Add\(@, sdkmath\.NewIntFromBigIntMut\(\$2\[φ\{\(1 \+ @\)\|0\}\]\.Amount\)\)\|RewardPool\.Get\(\)#0\.Gas\}, sdkmath\.NewIntFromBigIntMut\(\$2\[φ\{\(1 \+ @\)\|0\}\]\.Amount\)\)$`).MatchString(s.val) {
					c.RequireFact(urp, "R1", "gas-store-guarded", lit("(0 < Int.Sign($2[φ{(1 + @)|0}].Amount))"), instrSet([]ssa.Instruction{s.in}), "gas intake")
				} else {
					c.Violated("R1", "gas-intake @ "+FuncKey(urp), p.InstrPos(s.in), "pool.Gas = "+s.val)
				}
			}
		}
		c.RequireFact(urp, "R1", "one-gas-request", lit(EQ("1", "len($2)")), nil, "")
		c.RequireFact(urp, "R1", "pool-stored", lit("(RewardPool.Set(RewardPool.Get()#0) == nil)"), nil, "")
	}
	// DistributeReward
	dr := p.MustFn("x/locking/keeper.Keeper.DistributeReward")
	c.HookRuns("R2", "x/locking/module.AppModule.BeginBlock", "x/locking/keeper.Keeper.BeginBlocker", "x/locking/keeper.Keeper.DistributeReward")
	c.touch(dr)
	{
		i := "φ{(1 + @)|0}"
		vi := "Context.VoteInfos()[" + i + "].Validator"
		frac := `LegacyDec\.(\w+)\(sdkmath\.LegacyNewDec\(` + regexp.QuoteMeta(vi+".Power") + `\), sdkmath\.LegacyNewDec\(φ\{\(@ \+ ` + regexp.QuoteMeta(vi+".Power") + `\)\|0\}\)\)`
		V := "Validators.Get(" + vi + ".Address)#0"
		stores := p.renderedStores(dr)
		for _, pool := range []struct{ pool, field string }{{"Gas", "GasReward"}, {"Goat", "Reward"}} {
			P := "RewardPool.Get()#0." + pool.pool
			var share string
			for _, s := range stores {
				if s.addr == V+"."+pool.field {
					m := regexp.MustCompile(`^Int\.Add\(` + regexp.QuoteMeta(V+"."+pool.field) + `, (.*)\)$`).FindStringSubmatch(s.val)
					if m != nil {
						share = m[1]
					}
				}
			}
			shareRe := regexp.MustCompile(`^LegacyDec\.(\w+)\(LegacyDec\.(\w+)\(sdkmath\.LegacyNewDecFromBigInt\(Int\.BigInt\(` + regexp.QuoteMeta(P) + `\)\), ` + frac + `\)\)$`)
			m := shareRe.FindStringSubmatch(noOrd(share))
			if m == nil {
				c.Violated("R2", "share("+pool.pool+") @ "+FuncKey(dr), p.Pos(dr.Pos()), "validator."+pool.field+" is increased by "+share+", not by floor(pool × previous-block power / total power)")
				continue
			}
			c.Held("R2", "share("+pool.pool+") @ "+FuncKey(dr), p.Pos(dr.Pos()), "share = "+noOrd(share))
			for _, mm := range []struct{ what, got, want string }{{"convert", m[1], "TruncateInt"}, {"multiply", m[2], "MulTruncate"}, {"divide", m[3], "QuoTruncate"}} {
				if mm.got == mm.want {
					c.Held("R5", "round-down "+mm.what+"("+pool.pool+") @ "+FuncKey(dr), p.Pos(dr.Pos()), "LegacyDec."+mm.got)
				} else {
					c.Violated("R5", "round-down "+mm.what+"("+pool.pool+") @ "+FuncKey(dr), p.Pos(dr.Pos()), "LegacyDec."+mm.got+" does not round down: the shares of all validators can sum to more than the pool (negative pool); use "+mm.want)
				}
			}
			// remainder: starts as the pool, decreased by the same share, stored back
			rem := ""
			for _, ci := range p.FindCalls(dr, `^Int\.Sub\(Int\.BigInt\(`+regexp.QuoteMeta(P)+`\)`) {
				s := p.CallStr(ci)
				mm := regexp.MustCompile(`^Int\.Sub\((Int\.BigInt\(` + regexp.QuoteMeta(P) + `\)(‹\d+›)?), (Int\.BigInt\(` + regexp.QuoteMeta(P) + `\)(‹\d+›)?), Int\.BigIntMut\((.*)\)\)$`).FindStringSubmatch(s)
				if mm != nil && mm[1] == mm[3] && mm[5] == share {
					rem = mm[1]
				}
			}
			if rem == "" {
				c.Violated("R2", "remainder−=share("+pool.pool+") @ "+FuncKey(dr), p.Pos(dr.Pos()), "the share credited to the validator is not subtracted from the pool's running remainder")
				continue
			}
			c.Held("R2", "remainder−=share("+pool.pool+") @ "+FuncKey(dr), p.Pos(dr.Pos()), "remain.Sub(remain, share) with the credited share")
			okBack := false
			for _, s := range stores {
				if s.addr == P && s.val == "sdkmath.NewIntFromBigIntMut("+rem+")" {
					okBack = true
				}
			}
			if okBack {
				c.Held("R2", "remainder-stored-back("+pool.pool+") @ "+FuncKey(dr), p.Pos(dr.Pos()), "pool."+pool.pool+" = remainder")
			} else {
				c.Violated("R2", "remainder-stored-back("+pool.pool+") @ "+FuncKey(dr), p.Pos(dr.Pos()), "the pool is not replaced by the running remainder")
			}
		}
		// once a share was credited (the validator record stored), the reduced pool is stored on every path to success
		for i, vset := range p.FindCalls(dr, `^Validators\.Set\(`) {
			c.requireFactFrom(dr, "R2", fmt.Sprintf("pool-stored-after-share#%d", i), lit("(RewardPool.Set(RewardPool.Get()#0) == nil)"), vset, nil, "success exit")
		}
		c.RequireFact(dr, "R2", "total-power-nonzero", lit(NE("0", "φ{(@ + "+vi+".Power)|0}")), instrSet(callInstrs(p.FindCalls(dr, `^Validators\.Get\(`))), "distribution")
		vs := p.FindCalls(dr, `^Validators\.Set\(`)
		if len(vs) == 1 {
			if skip, path := loopIterationCanSkip(dr, vs[0]); skip {
				c.Violated("R2", "validator-stored-each-iteration @ "+FuncKey(dr), p.InstrPos(vs[0]), "a share can be subtracted from the pool without the validator record being stored", p.describePath(path)...)
			} else {
				c.Held("R2", "validator-stored-each-iteration @ "+FuncKey(dr), p.InstrPos(vs[0]), "")
			}
		}
	}
	// Claim
	cl := p.MustFn("x/locking/keeper.Keeper.Claim")
	c.touch(cl)
	{
		V := "Validators.Get(Address.Bytes($2[φ{(1 + @)|0}].Validator))#0"
		want := map[string]string{
			"new(locking/types.Reward)#0.Goat":      V + ".Reward",
			"new(locking/types.Reward)#0.Gas":       V + ".GasReward",
			"new(locking/types.Reward)#0.Id":        "$2[φ{(1 + @)|0}].Id",
			"new(locking/types.Reward)#0.Recipient": "Address.Bytes($2[φ{(1 + @)|0}].Recipient)",
			V + ".Reward":                           "sdkmath.ZeroInt()",
			V + ".GasReward":                        "sdkmath.ZeroInt()",
			"EthTxQueue.Get()#0.Rewards":            "append(mix{EthTxQueue.Get()#0.Rewards|append(@, [new(locking/types.Reward)#0])}, [new(locking/types.Reward)#0])",
		}
		for _, s := range p.renderedStores(cl) {
			if s.val == s.addr {
				continue // stored back unchanged (e.g. capacity reserved with slices.Grow)
			}
			if w, ok := want[s.addr]; ok {
				delete(want, s.addr)
				if noOrd(s.val) == w {
					c.Held("R3", "claim "+s.addr+" @ "+FuncKey(cl), p.InstrPos(s.in), w)
				} else {
					c.Violated("R3", "claim "+s.addr+" @ "+FuncKey(cl), p.InstrPos(s.in), "is "+s.val+", expected "+w)
				}
			}
		}
		for a := range want {
			c.Violated("R3", "claim "+a+" @ "+FuncKey(cl), p.Pos(cl.Pos()), "store not found reason=not-established")
		}
		vs := p.FindCalls(cl, `^Validators\.Set\(`)
		if len(vs) == 1 {
			if skip, _ := loopIterationCanSkip(cl, vs[0]); skip {
				c.Violated("R3", "claim-record-stored @ "+FuncKey(cl), p.InstrPos(vs[0]), "a payout can be queued without the accrued rewards being reset in the stored record (double claim)")
			} else {
				c.Held("R3", "claim-record-stored @ "+FuncKey(cl), p.InstrPos(vs[0]), "")
			}
		} else {
			c.Violated("R3", "claim-record-stored @ "+FuncKey(cl), p.Pos(cl.Pos()), "Validators.Set not found reason=not-established")
		}
		c.RequireFact(cl, "R3", "queue-stored", lit("(EthTxQueue.Set(EthTxQueue.Get()#0) == nil)")+"|"+lit(EQ("0", "len($2)")), nil, "")
	}
	// R4 writers
	c.checkWriters("R4", "x/locking/keeper", "RewardPool", map[string]string{
		"x/locking/keeper.Keeper.UpdateRewardPool": "Set", "x/locking/keeper.Keeper.DistributeReward": "Set", "x/locking/module.InitGenesis": "Set"}, 3)
	vt := p.LookupType("x/locking/types", "Validator")
	for _, fld := range []string{"Reward", "GasReward"} {
		c.checkFieldWriters("R4", vt, fld, fld, map[string]bool{"x/locking/keeper.Keeper.DistributeReward": true, "x/locking/keeper.Keeper.Claim": true, "x/locking/keeper.Keeper.createValidator": true}, 2)
	}
}
