package main

import (
	"fmt"
	"go/types"
	"regexp"
	"strings"

	"golang.org/x/tools/go/ssa"
)

type instrPred func(ssa.Instruction) bool

// CallStr renders a call instruction (value or not) canonically.
func (p *Prog) CallStr(ci ssa.CallInstruction) string {
	if c, ok := ci.(*ssa.Call); ok {
		return p.R(ci.Parent()).E(c)
	}
	return p.R(ci.Parent()).call(ci.Common())
}

// successTargets: predicate for the success exits of fn.
func successTargets(fn *ssa.Function) instrPred { return instrSet(SuccessExits(fn)) }

// RequireFact: every path from fn's entry to a target instruction takes an edge
// whose canonical fact matches pattern. Decided by deleting the matching edges
// from the CFG and searching for a remaining path (the witness).
func (c *Check) RequireFact(fn *ssa.Function, rule, name, pattern string, target instrPred, targetDesc string) bool {
	c.touch(fn)
	construct := name + " @ " + FuncKey(fn)
	re, err := regexp.Compile(pattern)
	if err != nil {
		infraFail("bad pattern %q: %v", pattern, err)
	}
	edges := c.p.MatchEdges(fn, re)
	if target == nil {
		target = successTargets(fn)
		targetDesc = "success exit"
	}
	if len(edges) == 0 {
		c.Violated(rule, construct, c.p.Pos(fn.Pos()), "no branch establishes the fact /"+pattern+"/ reason=not-established")
		return false
	}
	avoid := map[edgeKey]bool{}
	for _, e := range edges {
		avoid[e.Key()] = true
	}
	ps := &PathSearch{Fn: fn, AvoidEdges: avoid, IsTarget: target}
	if t, path := ps.Find(); t != nil {
		c.Violated(rule, construct, c.p.InstrPos(t), fmt.Sprintf("a path reaches %s without establishing /%s/", targetDesc, pattern), c.p.describePath(path)...)
		return false
	}
	c.Held(rule, construct, c.p.InstrPos(edges[0].Block.Instrs[len(edges[0].Block.Instrs)-1]), fmt.Sprintf("fact %q on every path to %s (%d edge(s))", edges[0].Fact, targetDesc, len(edges)))
	return true
}

// RequireCall: every path from entry to a target passes a call whose rendering matches pattern.
func (c *Check) RequireCall(fn *ssa.Function, rule, name, pattern string, target instrPred, targetDesc string) bool {
	c.touch(fn)
	construct := name + " @ " + FuncKey(fn)
	re := regexp.MustCompile(pattern)
	var matched []ssa.Instruction
	for _, ci := range callsIn(fn) {
		if _, isDefer := ci.(*ssa.Defer); isDefer {
			continue
		}
		if re.MatchString(c.p.CallStr(ci)) {
			matched = append(matched, ci)
		}
	}
	if target == nil {
		target = successTargets(fn)
		targetDesc = "success exit"
	}
	if len(matched) == 0 {
		c.Violated(rule, construct, c.p.Pos(fn.Pos()), "no call matches /"+pattern+"/ reason=not-established")
		return false
	}
	isM := instrSet(matched)
	ps := &PathSearch{Fn: fn, AvoidInstr: isM, IsTarget: target}
	if t, path := ps.Find(); t != nil {
		c.Violated(rule, construct, c.p.InstrPos(t), fmt.Sprintf("a path reaches %s without the call /%s/", targetDesc, pattern), c.p.describePath(path)...)
		return false
	}
	c.Held(rule, construct, c.p.InstrPos(matched[0]), fmt.Sprintf("call %q on every path to %s", c.p.CallStr(matched[0].(ssa.CallInstruction)), targetDesc))
	return true
}

// FindCalls returns call instructions whose rendering matches.
func (p *Prog) FindCalls(fn *ssa.Function, pattern string) []ssa.CallInstruction {
	re := regexp.MustCompile(pattern)
	var out []ssa.CallInstruction
	for _, ci := range callsIn(fn) {
		if re.MatchString(p.CallStr(ci)) {
			out = append(out, ci)
		}
	}
	return out
}

// StoreSite is one collections access in a function.
type StoreSite struct {
	Fn     *ssa.Function
	Call   ssa.CallInstruction
	Field  *types.Var
	Method string
	Args   []ssa.Value
}

var writeMethods = map[string]bool{"Set": true, "Remove": true, "Clear": true, "Next": true}

func (s StoreSite) IsWrite() bool { return writeMethods[s.Method] }

func (p *Prog) StoreSites(fn *ssa.Function) []StoreSite {
	var out []StoreSite
	for _, ci := range callsIn(fn) {
		if sa := storeAccess(ci.Common()); sa != nil {
			out = append(out, StoreSite{fn, ci, sa.Field, sa.Method, sa.Args})
		}
	}
	return out
}

// ownerOfField names the struct type a field belongs to, e.g. x/relayer/keeper.Keeper.
func ownerKey(p *Prog, fv *types.Var) string {
	if fv.Pkg() == nil {
		return fv.Name()
	}
	return relPkg(fv.Pkg().Path()) + "." + fv.Name()
}

// rootOf returns the outermost enclosing function of a closure.
func rootOf(f *ssa.Function) *ssa.Function {
	for f.Parent() != nil {
		f = f.Parent()
	}
	return f
}

func hasPrefixAny(s string, ps ...string) bool {
	for _, p := range ps {
		if strings.HasPrefix(s, p) {
			return true
		}
	}
	return false
}

// argIs: does the rendered argument i of a call instruction match?
func (p *Prog) argStr(ci ssa.CallInstruction, i int) string {
	args := ci.Common().Args
	if ci.Common().IsInvoke() {
		// args exclude the receiver
	}
	if i >= len(args) {
		return ""
	}
	return p.R(ci.Parent()).E(args[i])
}

// isGenerated: protobuf/gateway generated sources (decoders write every field; not hand-written logic).
func (p *Prog) isGenerated(fn *ssa.Function) bool {
	f := p.Fset.Position(rootOf(fn).Pos()).Filename
	return strings.HasSuffix(f, ".pb.go") || strings.HasSuffix(f, ".pb.gw.go") || strings.HasSuffix(f, ".pulsar.go")
}

// EQ / NE build canonical (operand-sorted) equality facts.
func EQ(a, b string) string {
	if b < a {
		a, b = b, a
	}
	return "(" + a + " == " + b + ")"
}

func NE(a, b string) string {
	if b < a {
		a, b = b, a
	}
	return "(" + a + " != " + b + ")"
}

// patLE: the fact a <= b, or the stronger a < b.
func patLE(a, b string) string {
	return `^\(` + regexp.QuoteMeta(a) + ` <=? ` + regexp.QuoteMeta(b) + `\)$`
}

// patLT: the fact a < b (also written a+1 <= b).
func patLT(a, b string) string {
	return `^\(` + regexp.QuoteMeta(a) + ` < ` + regexp.QuoteMeta(b) + `\)$|^\(\(1 \+ ` + regexp.QuoteMeta(a) + `\) <= ` + regexp.QuoteMeta(b) + `\)$`
}

// patPositive: the fact v > 0 in any of its spellings.
func patPositive(v string) string {
	q := regexp.QuoteMeta(v)
	return `^\(0 < ` + q + `\)$|^\(1 <= ` + q + `\)$|^\(0 != ` + q + `\)$|^\(` + q + ` != 0\)$`
}

// necessaryFacts: the edge facts that every path from entry to target must take
// (deleting that single edge disconnects the target).
func (p *Prog) necessaryFacts(fn *ssa.Function, target ssa.Instruction) []EdgeFact {
	var out []EdgeFact
	isT := func(in ssa.Instruction) bool { return in == target }
	for _, ef := range p.EdgeFacts(fn) {
		ps := &PathSearch{Fn: fn, AvoidEdges: map[edgeKey]bool{ef.Key(): true}, IsTarget: isT}
		if t, _ := ps.Find(); t == nil {
			out = append(out, ef)
		}
	}
	return out
}
