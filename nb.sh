#!/bin/bash
# nb.sh <patch> : run all props on the overlay with normaliser debug; keep normalised files in /tmp/norm
d=$(mktemp -d /tmp/bt-XXXX); python3 /verif/mkoverlay.py "$1" $d/ov; rm -rf /tmp/norm; mkdir -p /tmp/norm
GOATVERIF_NORMALISE_DEBUG=1 GOATVERIF_KEEP_NORMALISED=/tmp/norm TMPDIR=$d /verif/bin/goatverif -repo /repo -overlay $d/ov -prop ${2:-all} -no-evidence 2>&1 | grep "^VIOLATION\|normalise\|INFRA\|panic\|^\s.*\.go:[0-9]" | cut -c1-${COLS:-330}; rm -rf $d
