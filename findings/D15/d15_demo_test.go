package keeper_test

import (
	"math/big"
	"testing"

	abci "github.com/cometbft/cometbft/abci/types"
	cmttypes "github.com/cometbft/cometbft/types"
	"github.com/cosmos/cosmos-sdk/client"
	"github.com/cosmos/cosmos-sdk/codec"
	addresscodec "github.com/cosmos/cosmos-sdk/codec/address"
	codectypes "github.com/cosmos/cosmos-sdk/codec/types"
	cryptocodec "github.com/cosmos/cosmos-sdk/crypto/codec"
	"github.com/cosmos/cosmos-sdk/crypto/keys/secp256k1"
	sdk "github.com/cosmos/cosmos-sdk/types"
	"github.com/cosmos/cosmos-sdk/types/mempool"
	"github.com/cosmos/cosmos-sdk/types/tx/signing"
	authtx "github.com/cosmos/cosmos-sdk/x/auth/tx"
	authtypes "github.com/cosmos/cosmos-sdk/x/auth/types"
	"github.com/cosmos/gogoproto/proto"
	"github.com/ethereum/go-ethereum/beacon/engine"
	"github.com/ethereum/go-ethereum/common"
	ethtypes "github.com/ethereum/go-ethereum/core/types"
	"github.com/stretchr/testify/require"
	"go.uber.org/mock/gomock"

	txsigning "cosmossdk.io/x/tx/signing"
	keepertest "github.com/goatnetwork/goat/testutil/keeper"
	"github.com/goatnetwork/goat/testutil/mock"
	bitcointypes "github.com/goatnetwork/goat/x/bitcoin/types"
	goattypes "github.com/goatnetwork/goat/x/goat/types"
	relayertypes "github.com/goatnetwork/goat/x/relayer/types"
)

// d15Verifier stands for the BaseApp as the baseapp.ProposalTxVerifier: it only
// encodes and decodes, the ante handler of the app is not run here
type d15Verifier struct{ cfg client.TxConfig }

func (v d15Verifier) PrepareProposalVerifyTx(tx sdk.Tx) ([]byte, error) {
	return v.cfg.TxEncoder()(tx)
}

func (v d15Verifier) ProcessProposalVerifyTx(raw []byte) (sdk.Tx, error) {
	return v.cfg.TxDecoder()(raw)
}
func (v d15Verifier) TxDecode(raw []byte) (sdk.Tx, error) { return v.cfg.TxDecoder()(raw) }
func (v d15Verifier) TxEncode(tx sdk.Tx) ([]byte, error)  { return v.cfg.TxEncoder()(tx) }

// The block an honest proposer builds must be accepted by cometbft: the txs of
// ResponsePrepareProposal must pass Txs.Validate(RequestPrepareProposal.MaxTxBytes),
// the check cometbft does in BlockExecutor.CreateProposalBlock
//
// The real PrepareProposalHandler closure is driven with
//   - the mempool type of the app (SenderNonceMempool with 10 txs, the default of goatd)
//     filled by the relayer proposer with 10 txs of ~1MiB (the mempool max_tx_bytes of cometbft)
//   - the block max bytes of goat mainnet (6348800) with 4 validators and no evidence
//   - mocked engine client, account keeper and module keepers
func TestD15PreparedProposalFitsMaxTxBytes(t *testing.T) {
	const (
		mainnetBlockMaxBytes = 6348800 // cmd/goatd/cmd/genesis/goat-mainnet.json
		validators           = 4
		mempoolMaxTxs        = 10      // cmd/goatd/cmd/config.go srvCfg.Mempool.MaxTxs
		mempoolMaxTxBytes    = 1 << 20 // cometbft config.DefaultMempoolConfig().MaxTxBytes
		chainID              = "d15"
		height               = 100
	)

	ctl := gomock.NewController(t)
	defer ctl.Finish()

	accountKeeper := mock.NewMockAccountKeeper(ctl)
	bitcoinKeeper := mock.NewMockBitcoinKeeper(ctl)
	lockingKeeper := mock.NewMockLockingKeeper(ctl)
	relayerKeeper := mock.NewMockRelayerKeeper(ctl)
	ethClient := mock.NewMockEngineClient(ctl)

	k, ctx, addressCodec := keepertest.GoatKeeper(t, bitcoinKeeper, lockingKeeper, relayerKeeper, accountKeeper, ethClient)
	ctx = ctx.WithChainID(chainID).WithBlockHeight(height)

	// tx config with the goat and the relayer messages
	prefix := sdk.GetConfig().GetBech32AccountAddrPrefix()
	registry, err := codectypes.NewInterfaceRegistryWithOptions(codectypes.InterfaceRegistryOptions{
		ProtoFiles: proto.HybridResolver,
		SigningOptions: txsigning.Options{
			AddressCodec:          addresscodec.NewBech32Codec(prefix),
			ValidatorAddressCodec: addresscodec.NewBech32Codec(prefix + "valoper"),
		},
	})
	require.NoError(t, err)
	cryptocodec.RegisterInterfaces(registry)
	goattypes.RegisterInterfaces(registry)
	bitcointypes.RegisterInterfaces(registry)
	txConfig := authtx.NewTxConfig(codec.NewProtoCodec(registry), authtx.DefaultSignModes)

	// the committed state: the parent eth block and the beacon root
	parentHash := common.HexToHash("0x01")
	beaconRoot := common.HexToHash("0x02")
	require.NoError(t, k.Block.Set(ctx, goattypes.ExecutionPayload{BlockNumber: 99, BlockHash: parentHash.Bytes()}))
	require.NoError(t, k.BeaconRoot.Set(ctx, beaconRoot.Bytes()))

	// the proposer
	proposerKey := secp256k1.GenPrivKey()
	proposerAddr := sdk.AccAddress(proposerKey.PubKey().Address())
	proposerAcc := authtypes.NewBaseAccount(proposerAddr, proposerKey.PubKey(), 1, 7)
	accountKeeper.EXPECT().GetAccount(gomock.Any(), proposerAddr).Return(proposerAcc).AnyTimes()
	bitcoinKeeper.EXPECT().DequeueBitcoinModuleTx(gomock.Any()).Return([]*ethtypes.Transaction{}, nil).AnyTimes()
	lockingKeeper.EXPECT().DequeueLockingModuleTx(gomock.Any()).Return([]*ethtypes.Transaction{}, nil).AnyTimes()

	// a well-behaved execution layer with a quite small payload (~64KiB of txs)
	payloadID := engine.PayloadID{1}
	ethClient.EXPECT().ForkchoiceUpdatedV3(gomock.Any(), gomock.Any(), gomock.Any()).DoAndReturn(
		func(_ any, fc *engine.ForkchoiceStateV1, _ *engine.PayloadAttributes) (engine.ForkChoiceResponse, error) {
			require.Equal(t, parentHash, fc.HeadBlockHash)
			return engine.ForkChoiceResponse{
				PayloadStatus: engine.PayloadStatusV1{Status: engine.VALID},
				PayloadID:     &payloadID,
			}, nil
		}).AnyTimes()
	ethClient.EXPECT().GetPayloadV4(gomock.Any(), payloadID).Return(&engine.ExecutionPayloadEnvelope{
		ExecutionPayload: &engine.ExecutableData{
			ParentHash:    parentHash,
			FeeRecipient:  common.BytesToAddress(proposerAddr),
			LogsBloom:     make([]byte, 256),
			Number:        100,
			GasLimit:      30_000_000,
			Timestamp:     1,
			ExtraData:     []byte{0},
			BaseFeePerGas: big.NewInt(7),
			BlockHash:     common.HexToHash("0x03"),
			Transactions:  [][]byte{make([]byte, 64<<10)},
		},
		Requests: [][]byte{},
	}, nil).AnyTimes()

	// the relayer proposer sends in deposits: 16 + 15 deposits with a 32KiB btc tx each in a tx,
	// it is a bit less than the max tx bytes of the cometbft mempool
	relayerKey := secp256k1.GenPrivKey()
	relayerAddr, err := addressCodec.BytesToString(relayerKey.PubKey().Address())
	require.NoError(t, err)

	newDeposits := func(t *testing.T, seq uint64, count int) *bitcointypes.MsgNewDeposits {
		msg := &bitcointypes.MsgNewDeposits{
			Proposer:     relayerAddr,
			BlockHeaders: []*bitcointypes.BlockHeader{{Height: seq, Raw: make([]byte, bitcointypes.RawBtcHeaderSize)}},
		}
		for i := 0; i < count; i++ {
			msg.Deposits = append(msg.Deposits, &bitcointypes.Deposit{
				Version:           1,
				BlockNumber:       seq,
				TxIndex:           uint32(i),
				NoWitnessTx:       make([]byte, bitcointypes.MaxAllowedBtcTxSize),
				IntermediateProof: make([]byte, 32*12),
				EvmAddress:        make([]byte, common.AddressLength),
				RelayerPubkey: &relayertypes.PublicKey{
					Key: &relayertypes.PublicKey_Secp256K1{Secp256K1: relayerKey.PubKey().Bytes()},
				},
			})
		}
		require.NoError(t, msg.Validate())
		for _, deposit := range msg.Deposits {
			require.NoError(t, deposit.Validate())
		}
		return msg
	}

	newPool := func(t *testing.T) (mempool.Mempool, [][]byte) {
		pool := mempool.NewSenderNonceMempool(mempool.SenderNonceMaxTxOpt(mempoolMaxTxs)) // server.DefaultBaseappOptions
		var raws [][]byte
		for seq := uint64(0); seq < mempoolMaxTxs; seq++ {
			builder := txConfig.NewTxBuilder()
			builder.SetGasLimit(1e8)
			require.NoError(t, builder.SetMsgs(newDeposits(t, seq, 16), newDeposits(t, seq, 15)))
			require.NoError(t, builder.SetSignatures(signing.SignatureV2{
				PubKey:   relayerKey.PubKey(),
				Data:     &signing.SingleSignatureData{SignMode: signing.SignMode_SIGN_MODE_DIRECT, Signature: make([]byte, 64)},
				Sequence: seq,
			}))
			raw, err := txConfig.TxEncoder()(builder.GetTx())
			require.NoError(t, err)
			require.Less(t, len(raw), mempoolMaxTxBytes, "cometbft mempool would not take the tx")
			require.Greater(t, len(raw), mempoolMaxTxBytes*9/10)
			require.NoError(t, pool.Insert(ctx, builder.GetTx()))
			raws = append(raws, raw)
		}
		require.Equal(t, mempoolMaxTxs, pool.CountTx())
		return pool, raws
	}

	prepare := func(t *testing.T, maxTxBytes int64) (*abci.RequestPrepareProposal, *abci.ResponsePrepareProposal, [][]byte) {
		pool, raws := newPool(t)
		handler := k.PrepareProposalHandler(pool, d15Verifier{txConfig}, proposerKey, txConfig)
		// cometbft reaps its own mempool up to MaxTxBytes into Txs, the SenderNonceMempool ignores them
		req := &abci.RequestPrepareProposal{
			MaxTxBytes:      maxTxBytes,
			Height:          height,
			ProposerAddress: proposerAddr,
		}
		resp, err := handler(ctx, req)
		require.NoError(t, err)
		require.NotEmpty(t, resp.Txs)

		// the first tx is the eth block and the rest is the mempool txs in the nonce order
		first, err := txConfig.TxDecoder()(resp.Txs[0])
		require.NoError(t, err)
		require.Len(t, first.GetMsgs(), 1)
		require.IsType(t, &goattypes.MsgNewEthBlock{}, first.GetMsgs()[0])
		require.LessOrEqual(t, len(resp.Txs)-1, len(raws))
		require.Equal(t, raws[:len(resp.Txs)-1], resp.Txs[1:])
		return req, resp, raws
	}

	t.Run("mainnet block max bytes", func(t *testing.T) {
		// BlockExecutor.CreateProposalBlock of cometbft:
		//   maxDataBytes := types.MaxDataBytes(maxBytes, evSize, state.Validators.Size())
		//   ... RequestPrepareProposal{MaxTxBytes: maxDataBytes ...
		//   txl := types.ToTxs(rpp.Txs)
		//   if err := txl.Validate(maxDataBytes); err != nil { return nil, err }
		maxDataBytes := cmttypes.MaxDataBytes(mainnetBlockMaxBytes, 0, validators)
		req, resp, raws := prepare(t, maxDataBytes)

		size := cmttypes.ComputeProtoSizeForTxs(cmttypes.ToTxs(resp.Txs))
		t.Logf("MaxTxBytes=%d response: %d txs, %d bytes (eth block tx %d bytes, mempool %d txs)",
			req.MaxTxBytes, len(resp.Txs), size, len(resp.Txs[0]), len(raws))
		require.NoError(t, cmttypes.ToTxs(resp.Txs).Validate(req.MaxTxBytes),
			"cometbft refuses to create the proposal block: %d txs of %d bytes for MaxTxBytes %d", len(resp.Txs), size, req.MaxTxBytes)
		require.LessOrEqual(t, size, req.MaxTxBytes)

		// the block is filled as far as possible: the next mempool tx does not fit
		require.Less(t, len(resp.Txs)-1, len(raws))
		next := cmttypes.ComputeProtoSizeForTxs([]cmttypes.Tx{raws[len(resp.Txs)-1]})
		require.Greater(t, size+next, req.MaxTxBytes)
	})

	t.Run("roomy block takes the whole mempool", func(t *testing.T) {
		req, resp, raws := prepare(t, 21<<20)
		require.NoError(t, cmttypes.ToTxs(resp.Txs).Validate(req.MaxTxBytes))
		require.Len(t, resp.Txs, len(raws)+1)
	})
}
