package main

import (
	"fmt"
	"go/token"
	"go/types"
	"regexp"
	"sort"
	"strings"

	"golang.org/x/tools/go/ssa"
)

func init() {
	register("C13", propC13)
	register("C14", propC14)
	register("C15", propC15)
}

// valFn bundles the typestate results for one function handling validator records.
type valFn struct {
	fn     *ssa.Function
	ts     *Typestate // current status
	loaded *Typestate // status as loaded (guards only)
}

func (p *Prog) validatorFns() ([]valFn, *Enum) {
	vt := p.LookupType("x/locking/types", "Validator")
	en := p.EnumOf(p.LookupType("x/locking/types", "ValidatorStatus"))
	var out []valFn
	for _, f := range p.ProdFuncs {
		if p.isGenerated(f) {
			continue
		}
		k := FuncKey(rootOf(f))
		if !strings.HasPrefix(k, "x/locking/keeper.") && !strings.HasPrefix(k, "x/locking/module.") {
			continue
		}
		ts := p.AnalyzeTypestate(f, vt, "Status", en)
		if len(ts.Allocs) == 0 {
			continue
		}
		out = append(out, valFn{f, ts, p.AnalyzeLoadedState(f, vt, "Status", en)})
	}
	sort.Slice(out, func(i, j int) bool { return FuncKey(out[i].fn) < FuncKey(out[j].fn) })
	return out, en
}

// allocOfArg: the tracked record an SSA value (or a Join(record.Power, addr) key) refers to.
func recordOfPowerKey(v ssa.Value) (*ssa.Alloc, bool) {
	call, ok := v.(*ssa.Call)
	if !ok {
		return nil, false
	}
	f := calleeFunc(&call.Call)
	if f == nil || funcShort(f) != "collections.Join" || len(call.Call.Args) < 1 {
		return nil, false
	}
	a, fld := loadOfField(call.Call.Args[0])
	if a == nil || fld != "Power" {
		return nil, false
	}
	return a, true
}

// wholeStoresOf: stores that (re)load the record variable.
func wholeStoresOf(a *ssa.Alloc) []ssa.Instruction {
	var out []ssa.Instruction
	for _, ref := range *a.Referrers() {
		if st, ok := ref.(*ssa.Store); ok && st.Addr == ssa.Value(a) {
			out = append(out, st)
		}
	}
	return out
}

func fieldStoresOn(fn *ssa.Function, a *ssa.Alloc, field string) []*ssa.Store {
	var out []*ssa.Store
	for _, b := range fn.Blocks {
		for _, in := range b.Instrs {
			if st, ok := in.(*ssa.Store); ok {
				if ra, path := rootAlloc(st.Addr); ra == a && path == "."+field {
					out = append(out, st)
				}
			}
		}
	}
	return out
}

func propC13(c *Check) {
	p := c.p
	c.Rule("R1", "ranking pairing: every PowerRanking.Set uses the record's current power and happens only for Pending/Active records; every change of Power of a record that was ranked when loaded is preceded by PowerRanking.Remove of the loaded power")
	c.Rule("R2", "positive power: every PowerRanking.Set is dominated by a `power > 0` guard on the value inserted (a zero-power entry would be reported to CometBFT as a zero-power addition)")
	c.Rule("R3", "a status write that leaves {Pending, Active} is preceded by PowerRanking.Remove and followed by no PowerRanking.Set; the locking index is written only for Pending/Active records and cleared when a record leaves them")
	c.Rule("R5", "the begin blocker cannot fail on a block without a last commit (the first block of a chain; its height is above 1 when the chain starts from an exported state): every explicit failure exit of the reward distribution is reached only with a non-empty vote list")
	c.hookFailureNeedsLastCommit("R5")
	c.Rule("R6", "a power reported to the consensus engine fits what it accepts: wherever the locking module converts a validator's uint64 power to the int64 of a ValidatorUpdate, an upper bound on that power has been established — at the conversion, or where the power is increased (a power of 2^63 is reported as a negative number, and the engine refuses a set whose total exceeds MaxInt64/8)")
	c.reportedPowerFits("R6")
	c.Rule("R4", "EndBlocker emission: each update carries the power and key of the record just loaded, additions are mirrored in ValidatorSet, removals delete from it, the walk is bounded by MaxValidators, unranked records abort")
	vfs, en := p.validatorFns()
	ranked := en.Set("Pending", "Active")
	nSet, nRemove := 0, 0
	for _, vf := range vfs {
		f := vf.fn
		c.touch(f)
		key := FuncKey(f)
		r := p.R(f)
		var sets, removes []StoreSite
		for _, s := range p.StoreSites(f) {
			if s.Field.Name() != "PowerRanking" {
				continue
			}
			switch s.Method {
			case "Set":
				sets = append(sets, s)
			case "Remove":
				removes = append(removes, s)
			}
		}
		nSet += len(sets)
		nRemove += len(removes)
		isGenesis := strings.HasPrefix(key, "x/locking/module.")
		for i, s := range removes {
			if _, ok := recordOfPowerKey(s.Args[0]); !ok && !isGenesis {
				c.Violated("R1", fmt.Sprintf("PowerRanking.Remove-key#%d @ %s", i, key), p.InstrPos(s.Call), "the removed ranking key is not Join(record.Power, address) of a validator record held here: "+r.E(s.Args[0])+" reason=not-established")
			}
		}
		for i, s := range sets {
			cons := fmt.Sprintf("PowerRanking.Set#%d @ %s", i, key)
			a, ok := recordOfPowerKey(s.Args[0])
			var st EnumSet
			if ok {
				st, _ = vf.ts.At(s.Call, a)
			} else if isGenesis {
				// genesis iterates values of genState.Validators: key is Join(validator.Power, address) of the range variable
				ok = strings.HasPrefix(r.E(s.Args[0]), "collections.Join(") && strings.Contains(r.E(s.Args[0]), ".Power, ")
				st = 0
			}
			if !ok {
				c.Violated("R1", cons, p.InstrPos(s.Call), "ranking key is not Join(record.Power, address) of a tracked validator record: "+r.E(s.Args[0])+" reason=not-established")
				continue
			}
			// status at insert
			switch {
			case key == "x/locking/keeper.Keeper.onWeightChanged":
				c.Held("R1", cons, p.InstrPos(s.Call), "record comes from the Locking index, which holds only Pending/Active validators (R3)")
			case isGenesis:
				c.RequireFact(f, "R1", cons+" status∈{Pending,Active}", `^\((Active == .*\.Status|.*\.Status == Active)\)$|^\((Pending == .*\.Status|.*\.Status == Pending)\)$`, instrSet([]ssa.Instruction{s.Call}), "ranking insert")
			case st&^ranked != 0 || st == 0:
				c.Violated("R1", cons, p.InstrPos(s.Call), "ranking insert reachable with status "+en.Str(st)+" (only Pending/Active validators may be ranked)")
			default:
				c.Held("R1", cons, p.InstrPos(s.Call), "status at insert "+en.Str(st))
			}
			// R2 positive power guard on the inserted value
			pw := ""
			if call, ok := s.Args[0].(*ssa.Call); ok && len(call.Call.Args) > 0 {
				pw = r.E(call.Call.Args[0])
			}
			c.RequireFact(f, "R2", fmt.Sprintf("positive-power PowerRanking.Set#%d", i), patPositive(pw), instrSet([]ssa.Instruction{s.Call}), "ranking insert")
		}
		// power changes of ranked records need a prior Remove of the loaded power
		for _, a := range vf.ts.Allocs {
			ws := wholeStoresOf(a)
			if len(ws) == 0 {
				continue // fresh record
			}
			var rmCalls []ssa.Instruction
			// a record and the record it was copied from (`next := current`) name the same validator: the entry removed
			// under the (unchanged) power of one is the old entry of the other
			sameRecord := func(x, y *ssa.Alloc) bool {
				if x == y {
					return true
				}
				for _, pr := range [][2]*ssa.Alloc{{x, y}, {y, x}} {
					for _, w := range wholeStoresOf(pr[0]) {
						if st, ok := w.(*ssa.Store); ok && structCopySource(st) == pr[1] {
							return true
						}
					}
				}
				return false
			}
			for _, s := range removes {
				if ra, ok := recordOfPowerKey(s.Args[0]); ok && sameRecord(ra, a) {
					// the removed key must be the loaded power: no Power store reaches this load
					if strings.Contains(r.E(s.Args[0]), "mix{") || !strings.Contains(r.E(s.Args[0]), ".Power, ") {
						c.Violated("R1", "PowerRanking.Remove-key @ "+key, p.InstrPos(s.Call), "ranking entry removed with a power that may already have been changed: "+r.E(s.Args[0]))
						continue
					}
					rmCalls = append(rmCalls, s.Call)
				}
			}
			// the entry may be removed by a helper that is handed the record: on each of its success paths it
			// calls PowerRanking.Remove with the record's (unchanged) power
			rmRe := regexp.MustCompile(`^PowerRanking\.Remove\(collections\.Join\(` + regexp.QuoteMeta(r.E(a)) + `\.Power, `)
			for _, ci := range callsIn(f) {
				if p.helperAlwaysCalls(f, ci, rmRe) {
					rmCalls = append(rmCalls, ci)
				}
			}
			check := func(rule, what string, target ssa.Instruction) {
				ld, _ := vf.loaded.At(target, a)
				if ld&ranked == 0 {
					c.Held(rule, what+" @ "+key, p.InstrPos(target), "record was not ranked when loaded ("+en.Str(ld)+"): no entry to remove")
					return
				}
				// a path along which the record is known not to have been ranked when loaded (an arm of the switch over
				// its status) owes no removal
				unranked := map[edgeKey]bool{}
				for _, b := range f.Blocks {
					for i := range b.Succs {
						if st, ok := vf.loaded.EdgeOut(b, i, a); ok && st != 0 && st&ranked == 0 {
							unranked[edgeKey{b: b, i: i}] = true
						}
					}
				}
				for _, w := range ws {
					ps := &PathSearch{Fn: f, From: w, AvoidInstr: instrSet(rmCalls), AvoidEdges: unranked, IsTarget: func(in ssa.Instruction) bool { return in == target }}
					if t, path := ps.Find(); t != nil {
						c.Violated(rule, what+" @ "+key, p.InstrPos(target), "reachable for a record that may be ranked ("+en.Str(ld)+") without removing its old ranking entry first (stale (power, address) entry stays in the index)", p.describePath(path)...)
						return
					}
				}
				c.Held(rule, what+" @ "+key, p.InstrPos(target), "old ranking entry removed first (loaded status "+en.Str(ld)+")")
			}
			for i, st := range fieldStoresOn(f, a, "Power") {
				if key == "x/locking/keeper.Keeper.EndBlocker" {
					continue
				}
				// what matters is that the old entry is gone when the changed record is stored: with the removal
				// before the field store (in-place style) or between the field store and the record store
				// the removal may also come between the field store and the store of the record: then every path from
				// the field store to the commit passes it
				if cps := p.commitPoints(f, st); len(cps) > 0 && len(rmCalls) > 0 {
					if t, _ := (&PathSearch{Fn: f, From: st, AvoidInstr: instrSet(rmCalls), IsTarget: instrSet(cps)}).Find(); t == nil {
						ld, _ := vf.loaded.At(st, a)
						c.Held("R1", fmt.Sprintf("power-change#%d @ %s", i, key), p.InstrPos(st), "old ranking entry removed before the changed record is stored (loaded status "+en.Str(ld)+")")
						continue
					}
				}
				check("R1", fmt.Sprintf("power-change#%d", i), st)
			}
			for _, w := range vf.ts.Writes() {
				if w.Alloc != a || w.To&ranked != 0 {
					continue
				}
				check("R3", "status→"+strings.Trim(en.Str(w.To), "{}"), w.Store)
				// no re-insert afterwards
				var setCalls []ssa.Instruction
				for _, s := range sets {
					setCalls = append(setCalls, s.Call)
				}
				if len(setCalls) > 0 {
					ps := &PathSearch{Fn: f, From: w.Store, IsTarget: instrSet(setCalls), AvoidInstr: instrSet(ws)}
					if t, path := ps.Find(); t != nil {
						c.Violated("R3", "no-rank-after status→"+strings.Trim(en.Str(w.To), "{}")+" @ "+key, p.InstrPos(t), "a record that left {Pending,Active} can be inserted into the ranking", p.describePath(path)...)
					} else {
						c.Held("R3", "no-rank-after status→"+strings.Trim(en.Str(w.To), "{}")+" @ "+key, p.InstrPos(w.Store), "")
					}
				}
				// locking index cleared: every coin's entry is removed on the way to the write, none is (re)written
				lr := p.FindCallsDeep(f, `^Locking\.Remove\(collections\.Join\(.*\.Locking\[.*\]\.Denom, `)
				to := strings.Trim(en.Str(w.To), "{}")
				if len(lr) == 0 {
					c.Violated("R3", "locking-index-cleared status→"+to+" @ "+key, p.InstrPos(w.Store), "the record leaves {Pending,Active} but its Locking index entries are not removed (token weight changes would re-rank it)")
				} else {
					bad := false
					for _, rmv := range lr {
						if skip, path := p.deepIterationCanSkip(f, rmv); skip {
							bad = true
							c.Violated("R3", "locking-index-cleared status→"+to+" @ "+key, p.InstrPos(rmv.Call), "an iteration over the record's coins can skip Locking.Remove: the entry survives although the record leaves {Pending,Active}", p.describePath(path)...)
						}
					}
					for _, s2 := range p.FindCallsDeep(f, `^Locking\.Set\(`) {
						if t, path := (&PathSearch{Fn: f, From: s2.Site0(), AvoidInstr: instrSet(ws), IsTarget: func(in ssa.Instruction) bool { return in == ssa.Instruction(w.Store) }}).Find(); t != nil {
							bad = true
							c.Violated("R3", "locking-index-cleared status→"+to+" @ "+key, p.InstrPos(s2.Call), "a Locking index entry is written for a record that then leaves {Pending,Active}", p.describePath(path)...)
						}
					}
					if !bad {
						c.Held("R3", "locking-index-cleared status→"+to+" @ "+key, p.InstrPos(lr[0].Call), "Locking.Remove in every iteration over the record's coins, no Locking.Set on the way")
					}
				}
			}
		}
		// completeness: a record whose ranking entry was removed gets a new one before the function moves on (next
		// record / success exit), unless it leaves {Pending,Active} or its power is zero on that path — otherwise an
		// eligible validator with positive power drops out of the ranking and a weaker one keeps its seat
		if !isGenesis && key != "x/locking/keeper.Keeper.EndBlocker" {
			zeroPower := regexp.MustCompile(`^\(0 == [^()]*Power[^()]*\)$|^\(0 == (mix|φ)\{.*Power.*\}\)$|^\([^()]*Power[^()]* <= 0\)$`)
			for i, rm := range removes {
				var avoidI []ssa.Instruction
				for _, s := range sets {
					avoidI = append(avoidI, s.Call)
				}
				for _, w := range vf.ts.Writes() {
					if w.To&ranked == 0 {
						avoidI = append(avoidI, w.Store)
					}
				}
				avoidE := edgeSet(p.MatchEdges(f, zeroPower))
				if ra, ok := recordOfPowerKey(rm.Args[0]); ok {
					// edges on which the record is known not to be Pending/Active: no entry is owed
					for _, b := range f.Blocks {
						for i := range b.Succs {
							if st, ok := vf.ts.EdgeOut(b, i, ra); ok && st&ranked == 0 {
								avoidE[edgeKey{b: b, i: i}] = true
							}
						}
						// a branch on a boolean flag that was computed from the status (isCandidate := s == Active || s == Pending)
						if iff, ok := b.Instrs[len(b.Instrs)-1].(*ssa.If); ok && len(b.Succs) == 2 {
							cnd, neg := iff.Cond, false
							for {
								if u, ok := cnd.(*ssa.UnOp); ok && u.Op == token.NOT {
									cnd, neg = u.X, !neg
									continue
								}
								break
							}
							if ph, ok := cnd.(*ssa.Phi); ok {
								for i := 0; i < 2; i++ {
									val := (i == 0) != neg
									if st, ok := vf.loaded.FlagStatus(ph, val, ra); ok && st&ranked == 0 {
										avoidE[edgeKey{b: b, i: i}] = true
									}
								}
							}
						}
					}
				}
				rmCall := rm.Call
				exits := successTargets(f)
				tgt := func(in ssa.Instruction) bool { return exits(in) || in == ssa.Instruction(rmCall) }
				ps := &PathSearch{Fn: f, From: rmCall, AvoidInstr: instrSet(avoidI), AvoidEdges: avoidE, IsTarget: tgt}
				if t, path := ps.Find(); t != nil {
					c.Violated("R2", fmt.Sprintf("reinserted-after PowerRanking.Remove#%d @ %s", i, key), p.InstrPos(rmCall), "the ranking entry is removed and a path continues without a new entry although the record stays Pending/Active and its power is not known to be zero", p.describePath(path)...)
				} else {
					c.Held("R2", fmt.Sprintf("reinserted-after PowerRanking.Remove#%d @ %s", i, key), p.InstrPos(rmCall), "re-inserted, or the record leaves {Pending,Active}, or its power is zero")
				}
			}
		}
		// Locking.Set only for Pending/Active
		for i, s := range p.StoreSites(f) {
			if s.Field.Name() != "Locking" || s.Method != "Set" {
				continue
			}
			cons := fmt.Sprintf("Locking.Set#%d @ %s", i, key)
			if isGenesis {
				c.RequireFact(f, "R3", cons+" status∈{Pending,Active}", `^\((Active == .*\.Status|.*\.Status == Active)\)$|^\((Pending == .*\.Status|.*\.Status == Pending)\)$`, instrSet([]ssa.Instruction{s.Call}), "locking index insert")
				continue
			}
			okAll := len(vf.ts.Allocs) > 0
			// a record that is not (yet) ranked here is fine when every path from this insert to the store of the
			// record first writes a ranked status (the record is committed as Pending/Active)
			var rankedWrites, commits []ssa.Instruction
			for _, w := range vf.ts.Writes() {
				if w.To != 0 && w.To&^ranked == 0 {
					rankedWrites = append(rankedWrites, w.Store)
				}
			}
			for _, s2 := range p.StoreSites(f) {
				if s2.Field.Name() == "Validators" && s2.Method == "Set" {
					commits = append(commits, s2.Call)
				}
			}
			becomesRanked := false
			if len(rankedWrites) > 0 && len(commits) > 0 {
				t, _ := (&PathSearch{Fn: f, From: s.Call, AvoidInstr: instrSet(rankedWrites), IsTarget: instrSet(commits)}).Find()
				becomesRanked = t == nil
			}
			for _, a := range vf.ts.Allocs {
				st, _ := vf.ts.At(s.Call, a)
				if (st&^ranked != 0 || st == 0) && !becomesRanked {
					okAll = false
					c.Violated("R3", cons, p.InstrPos(s.Call), "locking index written with status "+en.Str(st))
				}
			}
			if okAll {
				c.Held("R3", cons, p.InstrPos(s.Call), "only for Pending/Active")
			}
		}
	}
	c.Floor("R1", "PowerRanking.Set sites", nSet, 2)
	c.Floor("R1", "PowerRanking.Remove sites", nRemove, 2)
	// completeness: every write of the ranking anywhere in production code is one of the sites examined above (a
	// function that moves ranking entries without holding a validator record of its own is not covered by R1–R3)
	{
		examined := map[*ssa.Function]bool{}
		for _, vf := range vfs {
			examined[vf.fn] = true
		}
		stray := 0
		for _, f := range p.ProdFuncs {
			if p.isGenerated(f) || examined[f] {
				continue
			}
			for _, s := range p.StoreSites(f) {
				if s.Field.Name() == "PowerRanking" && (s.Method == "Set" || s.Method == "Remove") {
					stray++
					c.Violated("R1", "ranking-write-outside-record-functions PowerRanking."+s.Method+" @ "+FuncKey(f), p.InstrPos(s.Call), "the power ranking is written by a function that holds no validator record: the pairing of entry and record power cannot be established reason=not-established")
				}
			}
		}
		if stray == 0 {
			c.Held("R1", "ranking-writes-all-examined", "", fmt.Sprintf("%d Set and %d Remove sites, all in functions that hold the record", nSet, nRemove))
		}
	}

	// R4 EndBlocker
	eb := p.MustFn("x/locking/keeper.Keeper.EndBlocker")
	c.touch(eb)
	{
		r := p.R(eb)
		V := "Validators.Get(PowerRanking.Iterate(Pair.Descending(new(collections.PairRange[uint64,github.com/cosmos/cosmos-sdk/types.ConsAddress])#0))#0"
		_ = V
		nUpd := 0
		for _, b := range eb.Blocks {
			for _, in := range b.Instrs {
				st, ok := in.(*ssa.Store)
				if !ok {
					continue
				}
				a := r.E(st.Addr)
				if m := regexp.MustCompile(`^new\(abci/types\.ValidatorUpdate\)#(\d+)\.Power$`).FindStringSubmatch(a); m != nil {
					nUpd++
					v := r.E(st.Val)
					if regexp.MustCompile(`^Validators\.Get\(.*\)#0\.Power$`).MatchString(v) {
						c.Held("R4", "update-power#"+m[1]+" @ "+FuncKey(eb), p.InstrPos(in), "power of the record just loaded")
					} else {
						c.Violated("R4", "update-power#"+m[1]+" @ "+FuncKey(eb), p.InstrPos(in), "reported power is "+v+", not the current power of the loaded record")
					}
				}
			}
		}
		c.Floor("R4", "validator updates with power", nUpd, 2)
		// every ValidatorSet.Set stores the loaded record's power under its address; each is followed by an append
		for i, s := range p.StoreSites(eb) {
			if s.Field.Name() == "ValidatorSet" && s.Method == "Set" {
				k, v := r.E(s.Args[0]), r.E(s.Args[1])
				if regexp.MustCompile(`^Validators\.Get\(` + regexp.QuoteMeta(k) + `\)#0\.Power$`).MatchString(v) {
					c.Held("R4", fmt.Sprintf("ValidatorSet.Set#%d @ %s", i, FuncKey(eb)), p.InstrPos(s.Call), "records the reported power under the validator's address")
				} else {
					c.Violated("R4", fmt.Sprintf("ValidatorSet.Set#%d @ %s", i, FuncKey(eb)), p.InstrPos(s.Call), "ValidatorSet["+k+"] = "+v+" is not the power of that validator's record")
				}
			}
		}
		// every reported change is mirrored in the module's own record of the set before the next one / the end:
		// a removal (update with power 0) by ValidatorSet.Remove, an addition or power change by ValidatorSet.Set
		{
			nMirror := 0
			// the marker of a reported update: the store of its Power, or — for an update literal that leaves the power
			// at its zero value (a removal) — the store of its PubKey
			type upd struct {
				st      *ssa.Store
				removal bool
			}
			var upds []upd
			reb := p.R(eb)
			for _, b := range eb.Blocks {
				for _, in := range b.Instrs {
					al, ok := in.(*ssa.Alloc)
					if !ok || namedOf(al.Type()) == nil || namedOf(al.Type()).Obj().Name() != "ValidatorUpdate" {
						continue
					}
					var pw, pk *ssa.Store
					for _, fs := range reb.fieldStores[al] {
						if fa, ok := fs.Addr.(*ssa.FieldAddr); ok && fa.X == ssa.Value(al) {
							switch fieldName(fa.X.Type(), fa.Field) {
							case "Power":
								pw = fs
							case "PubKey":
								pk = fs
							}
						}
					}
					switch {
					case pw != nil:
						upds = append(upds, upd{pw, isConstIntVal(pw.Val, 0)})
					case pk != nil:
						upds = append(upds, upd{pk, true})
					}
				}
			}
			{
				for _, u := range upds {
					st := u.st
					want, what := `^ValidatorSet\.Set\(`, "addition/power change"
					if u.removal {
						want, what = `^ValidatorSet\.Remove\(`, "removal"
					}
					re := regexp.MustCompile(want)
					var mirror []ssa.Instruction
					for _, ci := range callsIn(eb) {
						if re.MatchString(p.CallStr(ci)) || p.helperAlwaysCalls(eb, ci, re) {
							mirror = append(mirror, ci)
						}
					}
					nMirror++
					succ := successTargets(eb)
					cons := fmt.Sprintf("update-mirrored#%d (%s) @ %s", nMirror, what, FuncKey(eb))
					isM := instrSet(mirror)
					isU := func(x ssa.Instruction) bool { return x == ssa.Instruction(st) }
					// the report and its mirror come in pairs, in either order, before the next report / the end:
					// (report … mirror) or (mirror … report)
					after, _ := (&PathSearch{Fn: eb, From: st, AvoidInstr: isM, IsTarget: func(x ssa.Instruction) bool { return succ(x) || isU(x) }}).Find()
					before, _ := (&PathSearch{Fn: eb, AvoidInstr: isM, IsTarget: isU}).Find()
					var again ssa.Instruction
					if before == nil {
						// mirror-then-report: after a report, the next report needs a new mirror
						again, _ = (&PathSearch{Fn: eb, From: st, AvoidInstr: isM, IsTarget: isU}).Find()
					}
					switch {
					case after == nil:
						c.Held("R4", cons, p.InstrPos(st), "followed by "+strings.Trim(want, `^\\(`)+" before the next update / the end")
					case before == nil && again == nil:
						c.Held("R4", cons, p.InstrPos(st), "preceded by "+strings.Trim(want, `^\\(`)+", once per reported update")
					default:
						_, path := (&PathSearch{Fn: eb, From: st, AvoidInstr: isM, IsTarget: func(x ssa.Instruction) bool { return succ(x) || isU(x) }}).Find()
						c.Violated("R4", cons, p.InstrPos(st), "a "+what+" is reported to the consensus engine but the module's own record of the validator set is not updated on some path: the next block reports it again (removal of a non-member / duplicate)", p.describePath(path)...)
					}
				}
			}
			c.Floor("R4", "validator updates mirrored in ValidatorSet", nMirror, 2)
		}
		c.RequireFact(eb, "R4", "walk-bounded-by-MaxValidators", `^\(φ\{.*\} < Params\.Get\(\)#0\.MaxValidators\)$`, instrSet(callInstrs(p.FindCalls(eb, `^KeySetIterator\.Key\(|^Iterator\.Key\(`))), "ranking walk step")
		// unranked status in the walk aborts; removal loop demotes Active→Pending (typestate relation in C14)
	}
}

func callInstrs(cs []ssa.CallInstruction) []ssa.Instruction {
	var out []ssa.Instruction
	for _, c := range cs {
		out = append(out, c)
	}
	return out
}

func propC14(c *Check) {
	p := c.p
	c.Rule("R1", "validator status typestate over every function of the locking module: new→Pending (Inactive when the account exists); Downgrade→Pending only after the jail time and with all thresholds met; Active→Downgrade only under the missed-blocks guard; {Active,Pending,Downgrade}→Inactive; anything but Tombstoned→Tombstoned; Pending↔Active in the end blocker; no write from Tombstoned, from Inactive only →Tombstoned")
	c.Rule("R2", "downtime path: only Active validators are counted; the →Downgrade write comes with Power=0, JailedUntil = BlockTime + DowntimeJailDuration and the downtime slash; the signing window is reset when a validator (re)joins the active set or is jailed, so one offence is punished once")
	c.Rule("R3", "evidence filter: evidence is ignored only when BOTH age limits are exceeded, and evidence of any kind that exceeds both IS ignored (the accused validator is loaded only on a path that passed a not-older edge of one of the two age tests); a tombstoned validator is never written again")
	c.Rule("R4", "locks aimed at Tombstoned/Inactive validators change neither power nor ranking")
	vfs, en := p.validatorFns()
	allowed := map[[2]string]bool{
		{"Downgrade", "Pending"}: true, {"Active", "Downgrade"}: true,
		{"Active", "Inactive"}: true, {"Pending", "Inactive"}: true, {"Downgrade", "Inactive"}: true,
		{"Unspecified", "Tombstoned"}: true, {"Pending", "Tombstoned"}: true, {"Active", "Tombstoned"}: true, {"Downgrade", "Tombstoned"}: true, {"Inactive", "Tombstoned"}: true,
		{"Pending", "Active"}: true, {"Active", "Pending"}: true,
	}
	nW := 0
	var relation []string
	for _, vf := range vfs {
		f := vf.fn
		c.touch(f)
		key := FuncKey(f)
		for _, w := range vf.ts.Writes() {
			nW++
			desc := en.Str(w.From) + "→" + en.Str(w.To)
			cons := "transition →" + strings.Trim(en.Str(w.To), "{}") + " @ " + key
			if w.Fresh {
				// creation: Pending, optionally replaced by Inactive
				relation = append(relation, key+": new"+desc)
				if w.To&^en.Set("Pending", "Inactive") != 0 || (w.To == en.Set("Inactive") && w.From&^en.Set("Pending") != 0) {
					c.Violated("R1", cons, p.InstrPos(w.Store), "a new validator starts as "+en.Str(w.To)+" (from "+en.Str(w.From)+")")
				} else {
					c.Held("R1", cons, p.InstrPos(w.Store), "new record: "+desc)
				}
				continue
			}
			relation = append(relation, key+": "+desc)
			var bad []string
			for _, fv := range en.Values {
				if w.From&(1<<uint(fv)) == 0 {
					continue
				}
				for _, tv := range en.Values {
					if w.To&(1<<uint(tv)) != 0 && !allowed[[2]string{en.Names[fv], en.Names[tv]}] {
						bad = append(bad, en.Names[fv]+"→"+en.Names[tv])
					}
				}
			}
			if len(bad) > 0 {
				c.Violated("R1", cons, p.InstrPos(w.Store), "status write "+desc+" admits forbidden transitions: "+strings.Join(bad, ", "))
			} else {
				c.Held("R1", cons, p.InstrPos(w.Store), desc)
			}
			tgt := instrSet([]ssa.Instruction{w.Store})
			switch {
			case w.To == en.Set("Pending") && w.From&en.Set("Downgrade") != 0:
				c.RequireFact(f, "R1", "unjail-after-jail-time", `^Time\.After\(Context\.BlockTime\(\), .*\.JailedUntil\)$`, tgt, "unjail")
				allGTE := `^Coins\.IsAllGTE\(.*, Threshold\.Get\(\)#0\.List\)$`
				if len(p.MatchEdges(f, regexp.MustCompile(allGTE))) > 0 {
					c.RequireFact(f, "R1", "unjail-meets-thresholds", allGTE, tgt, "unjail")
				} else {
					// the same test spelled as a loop: every threshold entry is examined (the loop runs to its end) and
					// each iteration passes `locked(denom) >= required` before the next one
					li := "Threshold.Get()#0.List[φ{(1 + @)|0}]"
					exit := "(len(Threshold.Get()#0.List) <= φ{(1 + @)|0})"
					c.RequireFact(f, "R1", "unjail-meets-thresholds", lit(exit), tgt, "unjail")
					held := `Coins\.AmountOf\(.*Locking.*, ` + regexp.QuoteMeta(li) + `\.Denom\)`
					req := regexp.QuoteMeta(li) + `\.Amount`
					c.eachIterationEstablishes(f, "R1", "unjail-meets-each-threshold", exit, `^!Int\.LT\(`+held+`, `+req+`\)$|^Int\.GTE\(`+held+`, `+req+`\)$|^!Int\.GT\(`+req+`, `+held+`\)$|^Int\.LTE\(`+req+`, `+held+`\)$`)
				}
			case w.To == en.Set("Downgrade"):
				// the counter compared is the stored counter, incremented or not by this block — never a value that
				// can come from the window roll-over reset (comparing after the reset forgives a full window of misses)
				x := `[^|{}]*SigningInfo\.Missed`
				alt := `(?:\(1 \+ ` + x + `\)|` + x + `)`
				c.RequireFact(f, "R1", "jail-needs-missed-blocks", `^\(\$\d\.MaxMissedPerWindow <= (?:`+alt+`|(?:mix|φ)\{`+alt+`(?:\|`+alt+`)*\})\)$`, tgt, "jail")
			}
		}
		// a record that may be Tombstoned is never written back
		for _, s := range p.StoreSites(f) {
			if s.Field.Name() != "Validators" || s.Method != "Set" || len(s.Args) < 2 {
				continue
			}
			var a *ssa.Alloc
			if u, ok := s.Args[1].(*ssa.UnOp); ok {
				a, _ = u.X.(*ssa.Alloc)
			}
			if a == nil || len(wholeStoresOf(a)) == 0 {
				continue
			}
			ld, _ := vf.loaded.At(s.Call, a)
			cur, _ := vf.ts.At(s.Call, a)
			// allowed rewrites of tombstoned records: lock/unlock/claim/reward keep status but change funds; they must not change status/power
			if ld&en.Set("Tombstoned") != 0 && cur&^en.Set("Tombstoned") != 0 && cur != ld {
				// status may have been changed from a possibly-tombstoned record: covered by the relation check above
			}
			_ = cur
		}
	}
	sort.Strings(relation)
	c.Extra["status_relation"] = relation
	c.Floor("R1", "validator status writes", nW, 4)

	// R2 downtime path
	hv := p.MustFn("x/locking/keeper.Keeper.handleVoteInfo")
	for _, vf := range vfs {
		if vf.fn != hv {
			continue
		}
		r := p.R(hv)
		for _, a := range vf.ts.Allocs {
			n := 0
			for _, b := range hv.Blocks {
				for _, in := range b.Instrs {
					st, ok := in.(*ssa.Store)
					if !ok {
						continue
					}
					if ra, path := rootAlloc(st.Addr); ra == a && strings.HasPrefix(path, ".SigningInfo") {
						n++
						s, _ := vf.loaded.At(st, a)
						if s&^en.Set("Active") != 0 {
							c.Violated("R2", "only-active-counted @ "+FuncKey(hv), p.InstrPos(st), "signing info updated for a validator whose status may be "+en.Str(s))
						}
					}
				}
			}
			if n > 0 {
				c.Held("R2", "only-active-counted @ "+FuncKey(hv), p.Pos(hv.Pos()), fmt.Sprintf("%d signing-info writes, all under status == Active", n))
			} else {
				c.Violated("R2", "only-active-counted @ "+FuncKey(hv), p.Pos(hv.Pos()), "no signing-info update found reason=not-established")
			}
			for _, w := range vf.ts.Writes() {
				if w.To != en.Set("Downgrade") {
					continue
				}
				// the jailed record as it is committed: the value the fields hold at the store of the record that follows
				// the status write (wherever in between they were assigned)
				want := map[string]string{".Power": "0", ".JailedUntil": "Time.Add(Context.BlockTime(), $4.DowntimeJailDuration)"}
				var commits []ssa.Instruction
				for _, ci := range callsIn(hv) {
					if strings.HasPrefix(p.CallStr(ci), "Validators.Set(") && r.instrReaches(w.Store, ci) {
						commits = append(commits, ci)
					}
				}
				for _, path := range []string{".Power", ".JailedUntil"} {
					if len(commits) == 0 {
						c.Violated("R2", "jail"+path+" @ "+FuncKey(hv), p.InstrPos(w.Store), "not set together with the Downgrade status reason=not-established")
						continue
					}
					var good, bad []ssa.Instruction
					for _, b := range hv.Blocks {
						for _, in := range b.Instrs {
							if st, ok := in.(*ssa.Store); ok {
								if ra, sp := rootAlloc(st.Addr); ra == a && sp == path {
									if r.E(st.Val) == want[path] {
										good = append(good, st)
									} else {
										bad = append(bad, st)
									}
								}
							}
						}
					}
					isGood, isCommit := instrSet(good), instrSet(commits)
					// (a) some assignment of the expected value lies on every way through the status write to the store
					_, before := (&PathSearch{Fn: hv, AvoidInstr: isGood, IsTarget: instrSet([]ssa.Instruction{w.Store})}).Find()
					_, after := (&PathSearch{Fn: hv, From: w.Store, AvoidInstr: isGood, IsTarget: isCommit}).Find()
					problem := ""
					if len(good) == 0 || (before != nil && after != nil) {
						problem = "not assigned " + want[path] + " on a path through the Downgrade status write to the store of the record"
					}
					// (b) … and no other assignment of the field can come after it
					for _, bs := range bad {
						if !(r.instrReaches(w.Store, bs) || r.instrReaches(bs, w.Store)) {
							continue
						}
						if t, _ := (&PathSearch{Fn: hv, From: bs, AvoidInstr: isGood, IsTarget: isCommit}).Find(); t != nil {
							problem = "assigned " + r.E(bs.(*ssa.Store).Val) + " before the jailed record is stored"
						}
					}
					if problem == "" {
						c.Held("R2", "jail"+path+" @ "+FuncKey(hv), p.InstrPos(good[0]), want[path])
					} else {
						c.Violated("R2", "jail"+path+" @ "+FuncKey(hv), p.InstrPos(w.Store), problem+", expected "+want[path])
					}
				}
				// slashed with the downtime fraction before being jailed
				sl := p.FindCallsDeep(hv, `^Slashed\.Set\(`)
				if len(sl) == 1 && strings.Contains(sl[0].Str, "$4.SlashFractionDowntime") {
					c.RequireCall(hv, "R2", "slash-before-jail", `^PowerRanking\.Remove\(`, instrSet([]ssa.Instruction{w.Store}), "jail")
				} else {
					c.Violated("R2", "downtime-slash @ "+FuncKey(hv), p.InstrPos(w.Store), "no Slashed.Set with the downtime fraction on the jail path reason=not-established")
				}
			}
		}
	}
	// signing window reset on (re)activation or at jail time
	eb := p.MustFn("x/locking/keeper.Keeper.EndBlocker")
	resetOK := false
	for _, vf := range vfs {
		if vf.fn != eb {
			continue
		}
		r := p.R(eb)
		for _, w := range vf.ts.Writes() {
			if w.To != en.Set("Active") {
				continue
			}
			// a zero SigningInfo is stored between the →Active write and the record being stored
			for _, b := range eb.Blocks {
				for _, in := range b.Instrs {
					st, ok := in.(*ssa.Store)
					if !ok {
						continue
					}
					if ra, path := rootAlloc(st.Addr); ra == w.Alloc && path == ".SigningInfo" {
						if v := r.E(st.Val); (strings.HasPrefix(v, "new(locking/types.SigningInfo)") || v == "nil" || strings.Contains(v, "SigningInfo)#")) && (instrDominates(w.Store, st) || instrDominates(st, w.Store)) && st.Block() == w.Store.Block() {
							resetOK = true
							c.Held("R2", "signing-window-reset-on-activation @ "+FuncKey(eb), p.InstrPos(st), "SigningInfo zeroed when a Pending validator becomes Active")
						}
					}
				}
			}
		}
	}
	if !resetOK {
		// alternative: zeroed when jailed
		r := p.R(hv)
		z := 0
		for _, b := range hv.Blocks {
			for _, in := range b.Instrs {
				if st, ok := in.(*ssa.Store); ok {
					if _, path := rootAlloc(st.Addr); (path == ".SigningInfo.Missed" || path == ".SigningInfo.Offset") && r.E(st.Val) == "0" {
						for _, e := range p.MatchEdges(hv, regexp.MustCompile(`MaxMissedPerWindow <= `)) {
							if e.Block.Succs[e.Idx].Dominates(st.Block()) {
								z++
							}
						}
					}
				}
			}
		}
		if z >= 2 {
			c.Held("R2", "signing-window-reset-on-jail @ "+FuncKey(hv), p.Pos(hv.Pos()), "missed counter and offset zeroed when jailed")
		} else {
			c.Violated("R2", "signing-window-reset @ "+FuncKey(eb), p.Pos(eb.Pos()), "the signing window is reset neither when a validator becomes Active nor when it is jailed: a stale missed counter jails (and slashes) it again for the same offence")
		}
	}

	// window roll-over: misses are counted per signing window, so wherever the window offset restarts at 0 the
	// missed counter restarts with it (a counter carried over would sum absences of different windows)
	{
		r := p.R(hv)
		var offs, miss []*ssa.Store
		for _, b := range hv.Blocks {
			for _, in := range b.Instrs {
				if st, ok := in.(*ssa.Store); ok && r.E(st.Val) == "0" {
					switch _, path := rootAlloc(st.Addr); path {
					case ".SigningInfo.Offset":
						offs = append(offs, st)
					case ".SigningInfo.Missed":
						miss = append(miss, st)
					}
				}
			}
		}
		for i, o := range offs {
			cons := fmt.Sprintf("missed-counter-restarts-with-the-window#%d @ %s", i+1, FuncKey(hv))
			ok := false
			for _, m := range miss {
				if instrDominates(m, o) && !r.blockReach(m.Block())[m.Block()] || m.Block() == o.Block() {
					ok = true
				}
			}
			if !ok && len(miss) > 0 {
				var avoid []ssa.Instruction
				for _, m := range miss {
					avoid = append(avoid, m)
				}
				if t, _ := (&PathSearch{Fn: hv, From: o, AvoidInstr: instrSet(avoid), IsTarget: successTargets(hv)}).Find(); t == nil {
					ok = true
				}
			}
			if ok {
				c.Held("R2", cons, p.InstrPos(o), "Missed = 0 accompanies Offset = 0")
			} else {
				c.Violated("R2", cons, p.InstrPos(o), "the window offset restarts at 0 but the missed counter is kept: absences of different windows add up")
			}
		}
		if len(offs) == 0 {
			c.Held("R2", "missed-counter-restarts-with-the-window @ "+FuncKey(hv), p.Pos(hv.Pos()), "no literal `Offset = 0` in this function (the window is restarted through a whole-record assignment or a helper, which zeroes both)")
		}
	}
	c.HookRuns("R2", "x/locking/module.AppModule.BeginBlock", "x/locking/keeper.Keeper.BeginBlocker", "x/locking/keeper.Keeper.HandleVoteInfos")
	c.HookRuns("R3", "x/locking/module.AppModule.BeginBlock", "x/locking/keeper.Keeper.BeginBlocker", "x/locking/keeper.Keeper.HandleEvidences")

	// every piece of double-sign / light-client-attack evidence is looked at: once an evidence item has been fetched,
	// the next item or a success exit is reached without handleEvidence only over the outcome "not of that kind" —
	// for both kinds (whether a piece counts is decided inside handleEvidence, per piece: an expired piece must not
	// stand in for a fresh one)
	{
		hes := p.MustFn("x/locking/keeper.Keeper.HandleEvidences")
		c.touch(hes)
		items := p.FindCalls(hes, `^EvidenceList\.Get\(`)
		var handled []ssa.Instruction
		for _, ci := range callsIn(hes) {
			if g := ci.Common().StaticCallee(); g != nil && FuncKey(g) == "x/locking/keeper.Keeper.handleEvidence" {
				handled = append(handled, ci)
			}
		}
		if len(items) != 1 || len(handled) == 0 {
			c.Violated("R3", "every-piece-of-evidence-handled @ "+FuncKey(hes), p.Pos(hes.Pos()), fmt.Sprintf("%d evidence fetches, %d handleEvidence calls reason=not-established", len(items), len(handled)))
		} else {
			item := ssa.Instruction(items[0])
			succ := successTargets(hes)
			rr := p.R(hes)
			inLoopOfItem := rr.blockReach(item.Block())
			cons := "every-piece-of-evidence-handled @ " + FuncKey(hes)
			isNext := func(in ssa.Instruction) bool { return in == item || succ(in) }
			bad := false
			nDecisions := 0
			for _, b := range hes.Blocks {
				if len(b.Instrs) == 0 {
					continue
				}
				iff, ok := b.Instrs[len(b.Instrs)-1].(*ssa.If)
				if !ok || len(b.Succs) != 2 {
					continue
				}
				// a decision inside one iteration (not the loop control, which dominates the fetch) …
				if b != item.Block() && !inLoopOfItem[b] {
					continue
				}
				// … about this piece (the loop control never mentions it), other than a test of its kind
				cond := rr.E(iff.Cond)
				if !strings.Contains(cond, "EvidenceList.Get(") || strings.Contains(cond, "Evidence.Type(") {
					continue
				}
				nDecisions++
				if t, _ := (&PathSearch{Fn: hes, From: item, AvoidInstr: instrSet(handled), IsTarget: func(in ssa.Instruction) bool { return in == ssa.Instruction(iff) }}).Find(); t == nil {
					continue // reached only after handleEvidence
				}
				for i := range b.Succs {
					if t, path := (&PathSearch{Fn: hes, From: iff, AvoidInstr: instrSet(handled), AvoidEdges: map[edgeKey]bool{{b, 1 - i, nil}: true}, IsTarget: isNext}).Find(); t != nil {
						bad = true
						c.Violated("R3", cons, p.InstrPos(iff), "a piece of evidence is passed over without handleEvidence on an outcome of "+rr.E(iff.Cond)+", which is not a test of its kind", p.describePath(path)...)
						break
					}
				}
				if bad {
					break
				}
			}
			if !bad {
				c.Held("R3", cons, p.InstrPos(handled[0]), fmt.Sprintf("between two pieces, handleEvidence is bypassed only by tests of the evidence type (%d other decisions about the piece come after the call)", nDecisions))
			}
		}
	}

	// R3 evidence filter
	he := p.MustFn("x/locking/keeper.Keeper.handleEvidence")
	c.touch(he)
	gets := p.FindCalls(he, `^Validators\.Get\(`)
	if len(gets) != 1 {
		c.Violated("R3", "record-load @ "+FuncKey(he), p.Pos(he.Pos()), "Validators.Get not found reason=not-established")
	} else {
		var early []ssa.Instruction
		for _, e := range Exits(he) {
			if e.Kind == exitFailure {
				continue
			}
			if !instrDominates(gets[0], e.Ret) {
				early = append(early, e.Ret)
			}
		}
		if len(early) == 0 {
			c.Held("R3", "no-early-ignore @ "+FuncKey(he), p.Pos(he.Pos()), "evidence is never ignored before the record is loaded (stricter than required)")
		} else {
			c.RequireFact(he, "R3", "ignored-only-if-older-than-duration", `^\(.*Evidence\.MaxAgeDuration < Time\.Sub\(Context\.BlockTime\(\), Evidence\.Time\(\$2\)\)\)$`, instrSet(early), "ignoring evidence")
			c.RequireFact(he, "R3", "ignored-only-if-older-than-blocks", `^\(.*Evidence\.MaxAgeNumBlocks < \(Context\.BlockHeight\(\) - Evidence\.Height\(\$2\)\)\)$`, instrSet(early), "ignoring evidence")
		}
	}
	// the converse: evidence older than both limits IS ignored, whatever its kind — every path to the record load
	// (everything that slashes and tombstones comes after it) passes a "not older" edge of one of the two age tests
	if len(gets) == 1 {
		notOld := `^\(Time\.Sub\(Context\.BlockTime\(\), Evidence\.Time\(\$2\)\) <= .*Evidence\.MaxAgeDuration\)$|^\(\(Context\.BlockHeight\(\) - Evidence\.Height\(\$2\)\) <= .*Evidence\.MaxAgeNumBlocks\)$`
		if len(p.MatchEdges(he, regexp.MustCompile(notOld))) == 0 {
			// no age test at all before the load: evidence is never ignored for its age — older evidence is punished too
			c.Violated("R3", "expired-evidence-ignored @ "+FuncKey(he), p.Pos(he.Pos()), "no comparison of the evidence age with MaxAgeDuration / MaxAgeNumBlocks found reason=not-established")
		} else {
			// (no age limits configured: nothing can be older than them)
			c.RequireFact(he, "R3", "expired-evidence-ignored", notOld+`|^\(Context\.ConsensusParams\(\)\.Evidence == nil\)$`, instrSet([]ssa.Instruction{gets[0]}), "loading the accused validator (then slashing and tombstoning it)")
		}
	}
	// … and unexpired evidence always ends in the tombstone: from the load of the accused record, every way to a
	// success exit either writes the Tombstoned status or goes over an edge on which the record is known to have been
	// Tombstoned already when it was loaded (no other status, jailed included, is forgiven)
	if len(gets) == 1 {
		for _, vf := range vfs {
			if vf.fn != he {
				continue
			}
			var tomb []ssa.Instruction
			for _, w := range vf.ts.Writes() {
				if w.To == en.Set("Tombstoned") {
					tomb = append(tomb, w.Store)
				}
			}
			cons := "evidence-always-tombstones @ " + FuncKey(he)
			if len(tomb) == 0 || len(vf.ts.Allocs) == 0 {
				c.Violated("R3", cons, p.Pos(he.Pos()), "no write of the Tombstoned status to the accused record found reason=not-established")
				break
			}
			already := map[edgeKey]bool{}
			for _, a := range vf.ts.Allocs {
				for _, b := range he.Blocks {
					for i := range b.Succs {
						if st, ok := vf.loaded.EdgeOut(b, i, a); ok && st != 0 && st&^en.Set("Tombstoned") == 0 {
							already[edgeKey{b: b, i: i}] = true
						}
					}
				}
			}
			ps := &PathSearch{Fn: he, From: gets[0], AvoidInstr: instrSet(tomb), AvoidEdges: already, IsTarget: successTargets(he)}
			if t, path := ps.Find(); t != nil {
				c.Violated("R3", cons, p.InstrPos(t), "unexpired evidence against a validator that is not tombstoned yet can be passed over without tombstoning it", p.describePath(path)...)
			} else {
				c.Held("R3", cons, p.InstrPos(tomb[0]), "every way from the record load to a success exit writes Tombstoned, or the record was Tombstoned when loaded")
			}
		}
	}
	// R4 lock on Tombstoned/Inactive
	for _, vf := range vfs {
		if FuncKey(vf.fn) != "x/locking/keeper.Keeper.lock" {
			continue
		}
		f := vf.fn
		okAll := true
		for _, a := range vf.ts.Allocs {
			for _, st := range fieldStoresOn(f, a, "Power") {
				ld, _ := vf.loaded.At(st, a)
				if ld&en.Set("Tombstoned", "Inactive") != 0 {
					okAll = false
					c.Violated("R4", "power-change-for-dead-validator @ "+FuncKey(f), p.InstrPos(st), "lock changes the power of a validator whose status may be "+en.Str(ld&en.Set("Tombstoned", "Inactive")))
				}
			}
			for _, s := range p.StoreSites(f) {
				if s.Field.Name() == "PowerRanking" || s.Field.Name() == "Locking" {
					ld, _ := vf.loaded.At(s.Call, a)
					if ld&en.Set("Tombstoned", "Inactive") != 0 {
						okAll = false
						c.Violated("R4", s.Field.Name()+"-for-dead-validator @ "+FuncKey(f), p.InstrPos(s.Call), "lock touches the "+s.Field.Name()+" index of a validator whose status may be "+en.Str(ld&en.Set("Tombstoned", "Inactive")))
					}
				}
			}
		}
		if okAll {
			c.Held("R4", "dead-validators-untouched @ "+FuncKey(f), p.Pos(f.Pos()), "power, ranking and locking index are touched only when the loaded status is Pending/Active/Downgrade")
		}
	}
}

func propC15(c *Check) {
	p := c.p
	c.Rule("R4", "no lost update: two read-modify-write sequences on one keeper map whose keys may coincide (the unlock queue entries for the unlock and the exit delay, …) are never interleaved — each entry is written back before the next one is read")
	if n, bad := c.lostUpdates("R4", nil); bad == 0 {
		c.Held("R4", "no-interleaved-read-modify-write", "", fmt.Sprintf("%d pairs of sequences with different key expressions examined in all production functions", n))
	}
	c.Rule("R1", "unlock: maturity = BlockTime + ExitingDuration when exiting (status Inactive/Tombstoned or remaining < token threshold), BlockTime + UnlockDuration otherwise; the exiting branch zeroes power, moves Active/Pending/Downgrade to Inactive, clears the locking index and never re-ranks")
	c.Rule("R2", "DequeueMatureUnlocks: walks entries with time <= BlockTime, removes every visited key, appends every visited unlock once to the execution queue in walk order and stores the queue")
	c.Rule("R3", "writers: UnlockQueue is written only by unlock (Set), DequeueMatureUnlocks (Remove) and genesis; locking Params have no runtime writer")
	c.Rule("R5", "an exiting validator leaves the set at once: the end blocker reports every member of the last set that is not re-elected with power 0 and removes it from ValidatorSet, whatever its status (C13/R4)")
	c.Depend("R5", "C13", propC13, map[string]bool{"R4": true}, "a member that is neither re-elected nor evicted keeps its seat and its old power")
	un := p.MustFn("x/locking/keeper.Keeper.unlock")
	c.touch(un)
	r := p.R(un)
	exitAdd := p.FindCalls(un, `^Time\.Add\(Context\.BlockTime\(\), (?:\$\d|Params\.Get\(\)#0)\.ExitingDuration\)`)
	normAdd := p.FindCalls(un, `^Time\.Add\(Context\.BlockTime\(\), (?:\$\d|Params\.Get\(\)#0)\.UnlockDuration\)`)
	var qset *StoreSite
	for _, s := range p.StoreSites(un) {
		if s.Field.Name() == "UnlockQueue" && s.Method == "Set" {
			ss := s
			qset = &ss
		}
	}
	// the normal delay may be computed at several places (e.g. one per branch of a switch): all render alike
	if len(exitAdd) != 1 || len(normAdd) < 1 || qset == nil {
		c.Violated("R1", "maturity-computation @ "+FuncKey(un), p.Pos(un.Pos()), "BlockTime+ExitingDuration / BlockTime+UnlockDuration / UnlockQueue.Set not found reason=not-established")
		return
	}
	keyWant := "φ{" + joinSorted([]string{p.CallStr(exitAdd[0]), p.CallStr(normAdd[0])}) + "}"
	if k := r.E(qset.Args[0]); k == keyWant {
		c.Held("R1", "maturity-key @ "+FuncKey(un), p.InstrPos(qset.Call), k)
	} else {
		c.Violated("R1", "maturity-key @ "+FuncKey(un), p.InstrPos(qset.Call), "the unlock is queued under "+k+", expected "+keyWant)
	}
	// the same key is read and written
	for _, s := range p.StoreSites(un) {
		if s.Field.Name() == "UnlockQueue" && s.Method == "Get" && r.E(s.Args[0]) != keyWant {
			c.Violated("R1", "maturity-key-read @ "+FuncKey(un), p.InstrPos(s.Call), "queue read under a different key: "+r.E(s.Args[0]))
		}
	}
	// exiting condition: φ{LT(remaining, threshold) | true | true} with the true edges coming from status == Inactive / Tombstoned
	var exitCond *ssa.Phi
	var exitIf *ssa.If
	for _, b := range un.Blocks {
		if iff, ok := b.Instrs[len(b.Instrs)-1].(*ssa.If); ok {
			domNorm := false
			for _, na := range normAdd {
				if b.Succs[0].Dominates(na.Block()) {
					domNorm = true
				}
			}
			if b.Succs[0].Dominates(exitAdd[0].Block()) && !domNorm {
				if ph, ok := iff.Cond.(*ssa.Phi); ok && (exitIf == nil || b.Dominates(exitIf.Block()) == false) {
					exitCond, exitIf = ph, iff
				}
			}
		}
	}
	if exitCond == nil {
		c.Violated("R1", "exiting-condition @ "+FuncKey(un), p.Pos(un.Pos()), "the branch selecting the exit delay is not `status==Inactive || status==Tombstoned || remaining < threshold` reason=not-established")
	} else {
		s := r.E(exitCond)
		okShape := regexp.MustCompile(`^φ\{Int\.LT\(Int\.Sub\(Coins\.AmountOf\(Validators\.Get\(.*\)#0\.Locking, locking/types\.TokenDenom\(\$2\.Token\)\), .*\), Tokens\.Get\(locking/types\.TokenDenom\(\$2\.Token\)\)#0\.Threshold\)\|true\}$`).MatchString(s)
		have := map[string]bool{}
		for k, e := range exitCond.Edges {
			if cst, ok := e.(*ssa.Const); ok && cst.Value != nil && cst.Value.String() == "true" {
				pred := exitCond.Block().Preds[k]
				if iff, ok := pred.Instrs[len(pred.Instrs)-1].(*ssa.If); ok && pred.Succs[0] == exitCond.Block() {
					f := posFact(r, iff.Cond)
					if m := regexp.MustCompile(`^\((Inactive|Tombstoned) == Validators\.Get\(.*\)#0\.Status\)$`).FindStringSubmatch(f); m != nil {
						have[m[1]] = true
					}
				}
			}
		}
		if okShape && have["Inactive"] && have["Tombstoned"] {
			c.Held("R1", "exiting-condition @ "+FuncKey(un), p.InstrPos(exitIf), "status==Inactive || status==Tombstoned || remaining < threshold")
		} else {
			c.Violated("R1", "exiting-condition @ "+FuncKey(un), p.InstrPos(exitIf), fmt.Sprintf("exit delay selected by %s (Inactive:%v Tombstoned:%v)", s, have["Inactive"], have["Tombstoned"]))
		}
	}
	// exiting branch effects
	vfs, en := p.validatorFns()
	for _, vf := range vfs {
		if vf.fn != un {
			continue
		}
		for _, a := range vf.ts.Allocs {
			zero := false
			for _, st := range fieldStoresOn(un, a, "Power") {
				if exitAdd[0].Block().Dominates(st.Block()) || st.Block() == exitAdd[0].Block() {
					if r.E(st.Val) == "0" {
						zero = true
					}
				}
			}
			if zero {
				c.Held("R1", "exiting-zeroes-power @ "+FuncKey(un), p.InstrPos(exitAdd[0]), "")
			} else {
				c.Violated("R1", "exiting-zeroes-power @ "+FuncKey(un), p.InstrPos(exitAdd[0]), "an exiting validator keeps its voting power")
			}
			// status at the record write on the exiting branch is Inactive or Tombstoned
			for _, s := range p.StoreSites(un) {
				if s.Field.Name() == "Validators" && s.Method == "Set" {
					ps := &PathSearch{Fn: un, From: exitAdd[0], IsTarget: func(in ssa.Instruction) bool { return in == ssa.Instruction(s.Call) }}
					if t, _ := ps.Find(); t == nil {
						c.Violated("R1", "exiting-record-stored @ "+FuncKey(un), p.InstrPos(exitAdd[0]), "record not stored on the exiting branch")
					}
				}
			}
			for _, w := range vf.ts.Writes() {
				if w.To == en.Set("Inactive") {
					if exitAdd[0].Block().Dominates(w.Store.Block()) || w.Store.Block() == exitAdd[0].Block() {
						c.Held("R1", "exiting-status→Inactive @ "+FuncKey(un), p.InstrPos(w.Store), en.Str(w.From)+"→Inactive on the exiting branch")
					} else {
						c.Violated("R1", "exiting-status→Inactive @ "+FuncKey(un), p.InstrPos(w.Store), "→Inactive outside the exiting branch")
					}
				}
			}
		}
	}
	var sets []ssa.Instruction
	for _, s := range p.StoreSites(un) {
		if s.Field.Name() == "PowerRanking" && s.Method == "Set" || s.Field.Name() == "Locking" && s.Method == "Set" {
			sets = append(sets, s.Call)
		}
	}
	if t, path := (&PathSearch{Fn: un, From: exitAdd[0], IsTarget: instrSet(sets)}).Find(); t != nil {
		c.Violated("R1", "exiting-never-re-ranks @ "+FuncKey(un), p.InstrPos(t), "an exiting validator is put back into the ranking / locking index", p.describePath(path)...)
	} else {
		c.Held("R1", "exiting-never-re-ranks @ "+FuncKey(un), p.InstrPos(exitAdd[0]), "")
	}
	if lr := p.FindCalls(un, `^Locking\.Remove\(collections\.Join\(.*\.Locking\[.*\]\.Denom, `); len(lr) > 0 && (exitAdd[0].Block().Dominates(lr[0].Block()) || r.blockReach(exitAdd[0].Block())[lr[0].Block()]) {
		c.Held("R1", "exiting-clears-locking-index @ "+FuncKey(un), p.InstrPos(lr[0]), "")
	} else {
		c.Violated("R1", "exiting-clears-locking-index @ "+FuncKey(un), p.InstrPos(exitAdd[0]), "locking index entries are kept for an exiting validator")
	}
	c.RequireFact(un, "R1", "unlock-queued", `^\(UnlockQueue\.Set\(.*\) == nil\)$`, nil, "")
	// the entry written is the entry already stored under that maturity plus this unlock (earlier unlocks are kept)
	entry := "UnlockQueue.Get(" + keyWant + ")#0"
	if v := r.E(qset.Args[1]); v == entry {
		c.Held("R1", "entry-extends-stored-entry @ "+FuncKey(un), p.InstrPos(qset.Call), "UnlockQueue.Set(t, UnlockQueue.Get(t) + this unlock)")
	} else {
		c.Violated("R1", "entry-extends-stored-entry @ "+FuncKey(un), p.InstrPos(qset.Call), "the queue entry written is "+v+", not the entry stored under the same maturity: unlocks queued earlier for that instant are overwritten")
	}
	appOK := false
	for _, b := range un.Blocks {
		for _, in := range b.Instrs {
			if st, ok := in.(*ssa.Store); ok && r.E(st.Addr) == entry+".Unlocks" {
				appOK = r.E(st.Val) == "append("+entry+".Unlocks, [new(locking/types.Unlock)#0])"
				if !appOK {
					c.Violated("R1", "entry-append @ "+FuncKey(un), p.InstrPos(st), "entry.Unlocks = "+r.E(st.Val))
				}
			}
		}
	}
	if appOK {
		c.Held("R1", "entry-append @ "+FuncKey(un), p.Pos(un.Pos()), "entry.Unlocks = append(entry.Unlocks, &Unlock{...})")
	} else {
		c.Violated("R1", "entry-append-found @ "+FuncKey(un), p.Pos(un.Pos()), "append of the new unlock to the loaded entry not found reason=not-established")
	}
	// a read error other than not-found aborts
	c.RequireFact(un, "R1", "entry-read-error-handled", `^\(UnlockQueue\.Get\(.*\)#1 == nil\)$|^errors\.Is\(UnlockQueue\.Get\(.*\)#1, collections\.ErrNotFound\)$`, instrSet([]ssa.Instruction{qset.Call}), "entry write")

	// R2
	dm := p.MustFn("x/locking/keeper.Keeper.DequeueMatureUnlocks")
	c.HookRuns("R2", "x/locking/module.AppModule.EndBlock", "x/locking/keeper.Keeper.EndBlocker", "x/locking/keeper.Keeper.DequeueMatureUnlocks")
	c.touch(dm)
	{
		rd := p.R(dm)
		walk := p.FindCalls(dm, `^UnlockQueue\.Walk\(`)
		if len(walk) == 1 && strings.Contains(p.CallStr(walk[0]), "Range.EndInclusive(new(collections.Range)#0, Context.BlockTime())") {
			c.Held("R2", "mature-range @ "+FuncKey(dm), p.InstrPos(walk[0]), "entries with time <= BlockTime")
		} else {
			s := ""
			if len(walk) > 0 {
				s = p.CallStr(walk[0])
			}
			c.Violated("R2", "mature-range @ "+FuncKey(dm), p.Pos(dm.Pos()), "the sweep is not over (−∞, BlockTime]: "+s+" reason=not-established")
		}
		var cl *ssa.Function
		if len(dm.AnonFuncs) > 0 {
			cl = dm.AnonFuncs[0]
			for _, g := range dm.AnonFuncs {
				if g.Signature.Results().Len() == 2 && g.Signature.Params().Len() == 2 {
					cl = g // the (key, value) → (stop, error) callback of the walk
				}
			}
		}
		if cl == nil {
			c.Violated("R2", "walk-callback @ "+FuncKey(dm), p.Pos(dm.Pos()), "walk callback not found reason=not-established")
		} else {
			c.touch(cl)
			rc := p.R(cl)
			var ks, vs bool
			stop := false
			var kStores, vStores []ssa.Instruction
			for _, b := range cl.Blocks {
				for _, in := range b.Instrs {
					switch x := in.(type) {
					case *ssa.Store:
						v := rc.E(x.Val)
						if strings.HasPrefix(v, "append(") && strings.HasSuffix(v, ", [$0])") {
							ks = true
							kStores = append(kStores, in)
						}
						if strings.HasPrefix(v, "append(") && strings.HasSuffix(v, ", $1.Unlocks)") {
							vs = true
							vStores = append(vStores, in)
						}
					case *ssa.Return:
						if rc.E(x.Results[0]) != "false" {
							stop = true
						}
					}
				}
			}
			// every visited entry is collected: no path through the callback returns without both appends
			// (an entry that is skipped while the walk goes on is overtaken by later ones — or stranded)
			isRet := func(in ssa.Instruction) bool { _, ok := in.(*ssa.Return); return ok }
			for _, set := range [][]ssa.Instruction{kStores, vStores} {
				if len(set) == 0 {
					continue
				}
				if t, path := (&PathSearch{Fn: cl, AvoidInstr: instrSet(set), IsTarget: isRet, KeepFailureEntries: true}).Find(); t != nil {
					if r0 := t.(*ssa.Return); len(r0.Results) == 2 && isNilConst(r0.Results[1]) {
						ks, vs = false, false
						c.Violated("R2", "walk-collects-every-visited-entry @ "+FuncKey(cl), p.InstrPos(t), "the walk callback can return (walk continues or ends normally) without collecting the visited entry: matured unlocks are overtaken by later ones or left behind", p.describePath(path)...)
					}
				}
			}
			if ks && vs && !stop {
				c.Held("R2", "walk-collects-all @ "+FuncKey(cl), p.Pos(cl.Pos()), "every visited key and all its unlocks are collected, the walk never stops early")
			} else {
				c.Violated("R2", "walk-collects-all @ "+FuncKey(cl), p.Pos(cl.Pos()), fmt.Sprintf("keys:%v values:%v stops-early:%v", ks, vs, stop))
			}
		}
		rm := p.FindCalls(dm, `^UnlockQueue\.Remove\(`)
		if len(rm) == 1 && regexp.MustCompile(`^UnlockQueue\.Remove\(new\(\[\]time\.Time\)#0\[φ\{\(1 \+ @\)\|0\}\]\)$`).MatchString(p.CallStr(rm[0])) {
			c.Held("R2", "every-visited-key-removed @ "+FuncKey(dm), p.InstrPos(rm[0]), "")
			c.RequireFact(dm, "R2", "all-keys-removed", `^\(len\(new\(\[\]time\.Time\)#0\) <= φ\{\(1 \+ @\)\|0\}\)$|^\(0 == len\(new\(\[\]time\.Time\)#0\)\)$`, nil, "")
		} else {
			c.Violated("R2", "every-visited-key-removed @ "+FuncKey(dm), p.Pos(dm.Pos()), "visited keys are not all removed reason=not-established")
		}
		okApp := false
		for _, b := range dm.Blocks {
			for _, in := range b.Instrs {
				if st, ok := in.(*ssa.Store); ok && rd.E(st.Addr) == "EthTxQueue.Get()#0.Unlocks" {
					okApp = rd.E(st.Val) == "append(EthTxQueue.Get()#0.Unlocks, new([]*locking/types.Unlock)#0)"
					if !okApp {
						c.Violated("R2", "released-once-in-order @ "+FuncKey(dm), p.InstrPos(st), "execution queue is not extended by exactly the collected unlocks: "+rd.E(st.Val))
					}
				}
			}
		}
		if okApp {
			c.Held("R2", "released-once-in-order @ "+FuncKey(dm), p.Pos(dm.Pos()), "queue.Unlocks = append(queue.Unlocks, collected...)")
		}
		c.RequireFact(dm, "R2", "queue-stored", lit("(EthTxQueue.Set(EthTxQueue.Get()#0) == nil)")+`|^\(0 == len\(new\(\[\]time\.Time\)#0\)\)$`, nil, "")
	}
	// R3
	c.checkWriters("R3", "x/locking/keeper", "UnlockQueue", map[string]string{
		"x/locking/keeper.Keeper.unlock": "Set", "x/locking/keeper.Keeper.DequeueMatureUnlocks": "Remove", "x/locking/module.InitGenesis": "Set"}, 3)
	c.checkWriters("R3", "x/locking/keeper", "Params", map[string]string{"x/locking/module.InitGenesis": "Set"}, 1)
}

// loopIterationCanSkip: the call sits in a loop; can control go from the loop
// header around the back edge to the header again without executing it?
func loopIterationCanSkip(fn *ssa.Function, call ssa.Instruction) (bool, []*ssa.BasicBlock) {
	cb := call.Block()
	// the innermost loop containing cb: blocks that reach cb and are reached from cb
	reachFrom := func(b *ssa.BasicBlock) map[*ssa.BasicBlock]bool {
		m := map[*ssa.BasicBlock]bool{}
		var walk func(x *ssa.BasicBlock)
		walk = func(x *ssa.BasicBlock) {
			for _, s := range x.Succs {
				if !m[s] {
					m[s] = true
					walk(s)
				}
			}
		}
		walk(b)
		return m
	}
	fromC := reachFrom(cb)
	if !fromC[cb] {
		return false, nil // not in a loop
	}
	scc := map[*ssa.BasicBlock]bool{cb: true}
	for _, b := range fn.Blocks {
		if fromC[b] && reachFrom(b)[cb] {
			scc[b] = true
		}
	}
	// header: block of the SCC with a predecessor outside
	var header *ssa.BasicBlock
	for b := range scc {
		for _, p := range b.Preds {
			if !scc[p] && (header == nil || b.Index < header.Index) {
				header = b
			}
		}
	}
	if header == nil {
		return false, nil
	}
	// BFS inside the SCC from header's successors back to header avoiding the call
	type st struct {
		b    *ssa.BasicBlock
		prev *st
	}
	seen := map[*ssa.BasicBlock]bool{}
	var q []*st
	blocked := func(b *ssa.BasicBlock) bool {
		for _, in := range b.Instrs {
			if in == call {
				return true
			}
		}
		return false
	}
	if blocked(header) {
		return false, nil
	}
	for _, s := range header.Succs {
		if scc[s] && !seen[s] {
			seen[s] = true
			q = append(q, &st{s, &st{header, nil}})
		}
	}
	for len(q) > 0 {
		cur := q[0]
		q = q[1:]
		if cur.b == header {
			var path []*ssa.BasicBlock
			for x := cur; x != nil; x = x.prev {
				path = append([]*ssa.BasicBlock{x.b}, path...)
			}
			return true, path
		}
		if blocked(cur.b) {
			continue
		}
		for _, s := range cur.b.Succs {
			if s == header {
				var path []*ssa.BasicBlock
				for x := (&st{s, cur}); x != nil; x = x.prev {
					path = append([]*ssa.BasicBlock{x.b}, path...)
				}
				return true, path
			}
			if scc[s] && !seen[s] {
				seen[s] = true
				q = append(q, &st{s, cur})
			}
		}
	}
	return false, nil
}

// reportedPowerFits (C13/R6): every uint64→int64 conversion of a validator power that feeds a ValidatorUpdate in the
// locking module needs an upper bound on the converted value: (a) an edge fact `X <= c` / `X < c` on every path to the
// conversion, or (b) every additive store to Validator.Power in the module is followed, on every path to a success
// exit of its function, by an edge that bounds a value rendered with ".Power" from above.
func (c *Check) reportedPowerFits(rule string) {
	p := c.p
	boundRe := regexp.MustCompile(`^\((.*) (<|<=) (.*)\)$`)
	// (b) additive power stores and whether each is bounded afterwards
	vt := p.LookupType("x/locking/types", "Validator")
	allBounded, nAdd := true, 0
	var unbounded []string
	for _, f := range p.ProdFuncs {
		if !strings.HasPrefix(FuncKey(f), "x/locking/") {
			continue
		}
		for _, b := range f.Blocks {
			for _, in := range b.Instrs {
				st, ok := in.(*ssa.Store)
				if !ok {
					continue
				}
				fa, ok := st.Addr.(*ssa.FieldAddr)
				if !ok || fieldName(fa.X.Type(), fa.Field) != "Power" {
					continue
				}
				if pt, isP := fa.X.Type().Underlying().(*types.Pointer); !isP || !types.Identical(pt.Elem(), vt.Obj().Type()) {
					continue
				}
				bo, ok := st.Val.(*ssa.BinOp)
				if !ok || bo.Op != token.ADD {
					continue
				}
				nAdd++
				avoid := map[edgeKey]bool{}
				for _, ef := range p.EdgeFacts(f) {
					if m := boundRe.FindStringSubmatch(ef.Fact); m != nil && strings.Contains(m[1], "Power") && !strings.Contains(m[3], ".Power") {
						avoid[ef.Key()] = true
					}
				}
				if t, _ := (&PathSearch{Fn: f, From: st, AvoidEdges: avoid, IsTarget: successTargets(f)}).Find(); t != nil || len(avoid) == 0 {
					allBounded = false
					unbounded = append(unbounded, p.InstrPos(st))
				}
			}
		}
	}
	// (a) the conversions of the end blocker (what the running chain reports)
	f := p.MustFn("x/locking/keeper.Keeper.EndBlocker")
	c.touch(f)
	r := p.R(f)
	n, unguarded := 0, []string{}
	for _, b := range f.Blocks {
		for _, in := range b.Instrs {
			cv, ok := in.(*ssa.Convert)
			if !ok {
				continue
			}
			from, okF := cv.X.Type().Underlying().(*types.Basic)
			to, okT := cv.Type().Underlying().(*types.Basic)
			if !okF || !okT || from.Kind() != types.Uint64 || to.Kind() != types.Int64 {
				continue
			}
			x := r.E(cv.X)
			if !strings.Contains(x, "Power") {
				continue
			}
			n++
			avoid := map[edgeKey]bool{}
			for _, ef := range p.EdgeFacts(f) {
				if m := boundRe.FindStringSubmatch(ef.Fact); m != nil && m[1] == x {
					avoid[ef.Key()] = true
				}
			}
			guarded := len(avoid) > 0
			if guarded {
				if t, _ := (&PathSearch{Fn: f, AvoidEdges: avoid, IsTarget: func(i ssa.Instruction) bool { return i == ssa.Instruction(cv) }}).Find(); t != nil {
					guarded = false
				}
			}
			if !guarded {
				unguarded = append(unguarded, p.InstrPos(cv))
			}
		}
	}
	cons := "reported-power-fits-int64 @ " + FuncKey(f)
	switch {
	case n == 0:
		c.Violated(rule, cons, p.Pos(f.Pos()), "no uint64→int64 conversion of a power found in the end blocker reason=not-established")
	case len(unguarded) == 0:
		c.Held(rule, cons, p.Pos(f.Pos()), fmt.Sprintf("%d conversions, each under an upper bound on the converted power", n))
	case allBounded && nAdd > 0:
		c.Held(rule, cons, p.Pos(f.Pos()), fmt.Sprintf("%d conversions; all %d increases of Validator.Power are bounded where they are made", n, nAdd))
	default:
		c.Violated(rule, cons, unguarded[0], fmt.Sprintf("int64(validator power) at %s with no upper bound on the power, neither there nor at the increases of Validator.Power (%s): a power of 2^63 or more is reported to the consensus engine as a negative number", strings.Join(unguarded, ", "), strings.Join(unbounded, ", ")))
	}
	c.Floor(rule, "power conversions for the consensus engine", n, 2)
}
