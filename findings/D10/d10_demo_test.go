package keeper_test

import (
	"fmt"

	"github.com/cosmos/cosmos-sdk/codec"
	codectypes "github.com/cosmos/cosmos-sdk/codec/types"
	"github.com/ethereum/go-ethereum/core/types/goattypes"
	keepertest "github.com/goatnetwork/goat/testutil/keeper"
	"github.com/goatnetwork/goat/testutil/mock"
	bitcoin "github.com/goatnetwork/goat/x/bitcoin/module"
	"github.com/goatnetwork/goat/x/bitcoin/types"
	"go.uber.org/mock/gomock"
)

// TestD10DepositTaxExportImport drives the real keeper with a DepositTax
// request from the execution layer and then restarts the module from its own
// exported genesis, the same way the app does it:
//
//	AppModule.ExportGenesis -> AppModuleBasic.ValidateGenesis -> AppModule.InitGenesis
//
// Every request below has a rate under MaxTaxBP, so ProcessBridgeRequest
// stores it. The exported state has to be accepted again.
func (suite *KeeperTestSuite) TestD10DepositTaxExportImport() {
	cdc := codec.NewProtoCodec(codectypes.NewInterfaceRegistry())

	cases := []struct {
		name string
		req  goattypes.DepositTaxRequest
	}{
		// accepted by the params validation before and after the fix
		{"control rate 2 cap 1e5", goattypes.DepositTaxRequest{Rate: 2, Max: 1e5}},
		{"control rate 0 cap 0", goattypes.DepositTaxRequest{Rate: 0, Max: 0}},
		// stored by ProcessBridgeRequest, rejected by the old params validation
		{"rate 5 cap 0 (no cap)", goattypes.DepositTaxRequest{Rate: 5, Max: 0}},
		{"rate 5 cap 2e8", goattypes.DepositTaxRequest{Rate: 5, Max: 2e8}},
		{"rate 0 cap 100", goattypes.DepositTaxRequest{Rate: 0, Max: 100}},
	}

	for _, tc := range cases {
		suite.Run(tc.name, func() {
			// the running chain
			relayerKeeper := mock.NewMockRelayerKeeper(suite.Ctrl)
			relayerKeeper.EXPECT().HasPubkey(gomock.Any(), gomock.Any()).Return(true, nil).AnyTimes()

			k, ctx, _ := keepertest.BitcoinKeeper(suite.T(), relayerKeeper)
			am := bitcoin.NewAppModule(cdc, k)

			// start from a valid genesis
			genesis := types.DefaultGenesis()
			genesis.Pubkey = &suite.TestKey
			suite.Require().NoError(genesis.Validate())
			am.InitGenesis(ctx, cdc, cdc.MustMarshalJSON(genesis))

			// the deposit tax update coming from the execution layer
			suite.Require().NoError(k.ProcessBridgeRequest(ctx, goattypes.BridgeRequests{
				DepositTax: []*goattypes.DepositTaxRequest{{Rate: tc.req.Rate, Max: tc.req.Max}},
			}))

			// the request has been applied
			param, err := k.Params.Get(ctx)
			suite.Require().NoError(err)
			suite.Require().EqualValues(tc.req.Rate, param.DepositTaxRate)
			suite.Require().EqualValues(tc.req.Max, param.MaxDepositTax)

			// export the state of the running chain
			exported := am.ExportGenesis(ctx, cdc)

			// the exported genesis file has to be valid
			suite.NoError(am.ValidateGenesis(cdc, nil, exported),
				fmt.Sprintf("exported genesis is rejected: params %s", param.String()))

			// restart a fresh chain from the exported state
			relayerKeeper2 := mock.NewMockRelayerKeeper(suite.Ctrl)
			relayerKeeper2.EXPECT().HasPubkey(gomock.Any(), gomock.Any()).Return(true, nil).AnyTimes()
			k2, ctx2, _ := keepertest.BitcoinKeeper(suite.T(), relayerKeeper2)
			am2 := bitcoin.NewAppModule(cdc, k2)

			suite.Require().NotPanics(func() { am2.InitGenesis(ctx2, cdc, exported) },
				"InitGenesis panics on the state exported by the module itself")

			param2, err := k2.Params.Get(ctx2)
			suite.Require().NoError(err)
			suite.Require().Equal(param, param2)
			suite.Require().Equal(*bitcoin.ExportGenesis(ctx, k), *bitcoin.ExportGenesis(ctx2, k2))
		})
	}
}
