#!/bin/bash
# benigncheck.sh <dir-with-*.diff|*.patch>...: analyse /repo with each behaviour-preserving patch overlaid
# (never modifies /repo), run all 20 checks, report alarms (= false alarms)
for d in "$@"; do
for f in $d/*.diff $d/*.silent.patch; do
  [ -f "$f" ] || continue
  t=$(mktemp -d /tmp/bc-XXXXXX)
  python3 /verif/mkoverlay.py "$f" $t/ov 2>/dev/null || { echo "SKIP (does not apply) $f"; rm -rf $t; continue; }
  out=$(TMPDIR=$t /verif/bin/goatverif -repo /repo -overlay $t/ov -verif /verif -prop all -no-evidence 2>&1)
  rc=$?
  rm -rf $t
  n=$(echo "$out" | grep -c "^VIOLATION")
  if [ $rc -ne 0 ] || [ $n -gt 0 ]; then echo "ALARM rc=$rc n=$n $f"; echo "$out" | grep "^VIOLATION\|INFRA" | cut -c1-260; else echo "silent $f"; fi
done
done
