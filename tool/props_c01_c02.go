package main

import (
	"fmt"
	"go/types"
	"regexp"
	"sort"
	"strings"

	"golang.org/x/tools/go/ssa"
)

// lit builds an anchored pattern from a canonical expression; "§" is a wildcard.
func lit(s string) string {
	return "^" + strings.ReplaceAll(regexp.QuoteMeta(s), "§", ".*") + "$"
}

const bmpExpr = "bitmap.FromBytes(IVoteMsg.GetVote($2).Voters)"

// votedHandlers: tx handlers whose request type implements relayer/types.IVoteMsg.
func (p *Prog) votedHandlers() (voted, nonVoted []*ssa.Function) {
	iv := p.LookupType("x/relayer/types", "IVoteMsg").Underlying().(*types.Interface)
	for _, f := range p.Contexts().Tx {
		if len(f.Params) < 3 {
			continue
		}
		if types.Implements(f.Params[2].Type(), iv) {
			voted = append(voted, f)
		} else {
			nonVoted = append(nonVoted, f)
		}
	}
	sort.Slice(voted, func(i, j int) bool { return FuncKey(voted[i]) < FuncKey(voted[j]) })
	return
}

// mayWrite: functions of the repository that (transitively) write a collection.
func (p *Prog) mayWrite() map[*ssa.Function]bool {
	cg := p.CG()
	w := map[*ssa.Function]bool{}
	var work []*ssa.Function
	for _, f := range p.ProdFuncs {
		for _, s := range p.StoreSites(f) {
			if s.IsWrite() {
				if !w[f] {
					w[f] = true
					work = append(work, f)
				}
			}
		}
	}
	for len(work) > 0 {
		f := work[0]
		work = work[1:]
		for _, e := range cg.In[f] {
			if !w[e.From] {
				w[e.From] = true
				work = append(work, e.From)
			}
		}
	}
	return w
}

// writeSites: instructions of fn that write state: direct collection writes and
// calls (static or through a keeper interface) to repository functions that may write.
func (p *Prog) writeSites(fn *ssa.Function) []ssa.Instruction {
	mw := p.mayWrite()
	cg := p.CG()
	var out []ssa.Instruction
	seen := map[ssa.Instruction]bool{}
	for _, s := range p.StoreSites(fn) {
		if s.IsWrite() && !seen[s.Call] {
			seen[s.Call] = true
			out = append(out, s.Call)
		}
	}
	for _, e := range cg.Out[fn] {
		if _, isCall := e.Site.(ssa.CallInstruction); !isCall {
			continue
		}
		if mw[e.To] && !seen[e.Site] {
			seen[e.Site] = true
			out = append(out, e.Site)
		}
	}
	return out
}

var thresholdForms = map[string]bool{
	"int(math.Ceil(((2 * float((1 + len($0.Voters)))) / 3)))": true,
	"((2 + (2 * (1 + len($0.Voters)))) / 3)":                  true, // (2m+2)/3
	"((((1 + len($0.Voters)) * 2) + 2) / 3)":                  true, // (2m+2)/3 as rendered (operands sorted)
	"((4 + (2 * len($0.Voters))) / 3)":                        true, // (2n+4)/3
}

const verifyProposalOK = `^\(RelayerKeeper\.VerifyProposal\(\$2[,)].*#1 == nil\)$`

func init() {
	register("C01", propC01)
	register("C02", propC02)
}

func propC01(c *Check) {
	p := c.p
	c.Rule("R1", "gate: in every voted handler the success edge of RelayerKeeper.VerifyProposal(ctx, req) lies on every path to a success exit, and no state write precedes it on a path that can still succeed")
	c.Rule("R2", "VerifyProposal: proposer, sequence, epoch, threshold (marks+1 >= Threshold, marks <= len(voters)) and aggregate-signature facts lie on every path to its success exit; Threshold() is ceil(2(n+1)/3)")
	c.Rule("R3", "quorum-count provenance: the keys verified are proposer.VoteKey plus voters[i].VoteKey appended under bitmap.Contains(i), and the count compared with the threshold is tied to that key slice")
	c.Rule("R4", "sign-doc binding: the verified message is VoteSignDoc(method, chainID, proposer, sequence, epoch, payload) with all six reaching the hash, and each VoteSigDoc reads every payload field of its message")
	c.Rule("R5", "key ownership: vote keys reach AggregateVerify only from the relayer keeper's own Voters store")
	c.Rule("R6", "distinct signers: seats are counted per voter record, so two records must never carry the same vote key — voter records are created only after the new key was compared with every existing record, whatever its status (C16/R6)")
	c.Depend("R6", "C16", propC16, map[string]bool{"R6": true}, "a vote key held by two members lets one signature count twice toward the quorum")

	voted, _ := p.votedHandlers()
	c.Floor("R1", "voted handlers", len(voted), 5)
	for _, h := range voted {
		c.RequireFact(h, "R1", "gate", verifyProposalOK, nil, "")
		// no write before the gate on a path that can still succeed
		edges := p.MatchEdges(h, regexp.MustCompile(verifyProposalOK))
		avoid := map[edgeKey]bool{}
		for _, e := range edges {
			avoid[e.Key()] = true
		}
		ws := p.writeSites(h)
		bad := 0
		for _, w := range ws {
			ci := w.(ssa.CallInstruction)
			if strings.HasPrefix(p.CallStr(ci), "RelayerKeeper.VerifyProposal(") {
				continue
			}
			ps := &PathSearch{Fn: h, AvoidEdges: avoid, IsTarget: instrSet([]ssa.Instruction{w})}
			if t, path := ps.Find(); t != nil {
				// can the write still reach a success exit?
				ps2 := &PathSearch{Fn: h, From: w, IsTarget: successTargets(h)}
				if s, _ := ps2.Find(); s != nil {
					bad++
					c.Violated("R1", "write-before-gate "+p.CallStr(ci)+" @ "+FuncKey(h), p.InstrPos(w), "state write reachable before the quorum check succeeded", p.describePath(path)...)
				}
			}
		}
		if bad == 0 {
			c.Held("R1", "writes-after-gate @ "+FuncKey(h), p.Pos(h.Pos()), fmt.Sprintf("%d write sites all dominated by the gate", len(ws)))
		}
		c.Counters["call_sites"] += len(ws)
	}

	vp := p.MustFn("x/relayer/keeper.Keeper.VerifyProposal")
	c.RequireFact(vp, "R2", "proposer", lit("(IVoteMsg.GetProposer($2) == Relayer.Get()#0.Proposer)"), nil, "")
	c.RequireFact(vp, "R2", "sequence", lit(EQ("Sequence.Peek()#0", "IVoteMsg.GetVote($2).Sequence")), nil, "")
	c.RequireFact(vp, "R2", "epoch", lit(EQ("Relayer.Get()#0.Epoch", "IVoteMsg.GetVote($2).Epoch")), nil, "")
	// threshold: Threshold <= 1 + marks, where marks is Bitmap.Count(bmp) or len(keys)-style count
	c.RequireFact(vp, "R2", "threshold", `^\(Relayer\.Threshold\(Relayer\.Get\(\)#0\) <= (\(1 \+ Bitmap\.Count\(`+regexp.QuoteMeta(bmpExpr)+`\)\)|len\(φ\{append.*\}\))\)$`, nil, "")
	c.RequireFact(vp, "R2", "marks<=voters", `^\((Bitmap\.Count\(`+regexp.QuoteMeta(bmpExpr)+`\)|\(-1 \+ len\(φ\{append.*\}\)\)) <= len\(Relayer\.Get\(\)#0\.Voters\)\)$`, nil, "")
	c.RequireFact(vp, "R2", "aggregate-verify", `^crypto\.AggregateVerify\(`, nil, "")
	// Threshold arithmetic shape
	th := p.MustFn("x/relayer/types.Relayer.Threshold")
	c.touch(th)
	thOK := false
	for _, e := range Exits(th) {
		s := p.R(th).E(e.Ret.Results[0])
		// ceil(2m/3) for m = n+1 members, in floating point or in one of the exact integer forms
		// (2m+2)/3 (m is small: no overflow, and float64 is exact far beyond any group size)
		if thresholdForms[s] {
			thOK = true
		} else {
			thOK = false
			c.Violated("R2", "threshold-formula @ "+FuncKey(th), p.InstrPos(e.Ret), "Threshold() is not ceil(2(n+1)/3): "+s+" reason=not-established")
		}
	}
	if thOK {
		c.Held("R2", "threshold-formula @ "+FuncKey(th), p.Pos(th.Pos()), "ceil(float(1+len(Voters))*2/3)")
	}

	// R3/R4/R5 on the AggregateVerify call
	avs := p.FindCalls(vp, `^crypto\.AggregateVerify\(`)
	if len(avs) != 1 {
		c.Violated("R3", "aggregate-verify-call @ "+FuncKey(vp), p.Pos(vp.Pos()), fmt.Sprintf("expected exactly one AggregateVerify call, found %d reason=not-established", len(avs)))
		return
	}
	av := avs[0]
	args := av.Common().Args
	r := p.R(vp)
	keys := r.E(args[0])
	wantKeys := `^φ\{append\(@, \[Voters\.Get\(Relayer\.Get\(\)#0\.Voters\[φ\{\(1 \+ @\)\|0\}\]\)#0\.VoteKey\]\)\|append\(make\(\[\]\[\]byte,0,.*\), \[Voters\.Get\(Relayer\.Get\(\)#0\.Proposer\)#0\.VoteKey\]\)\}$`
	if regexp.MustCompile(wantKeys).MatchString(keys) {
		c.Held("R3", "key-slice @ "+FuncKey(vp), p.InstrPos(av), "keys = [proposer.VoteKey] ++ [voters[i].VoteKey | marked i]")
		c.Held("R5", "key-source @ "+FuncKey(vp), p.InstrPos(av), "every key is Voters.Get(<current relayer member>).VoteKey from the keeper's own store")
	} else {
		c.Violated("R3", "key-slice @ "+FuncKey(vp), p.InstrPos(av), "keys passed to AggregateVerify are not exactly proposer key + marked voter keys: "+keys+" reason=not-established")
		c.Violated("R5", "key-source @ "+FuncKey(vp), p.InstrPos(av), "key provenance not established reason=not-established")
	}
	// appended only under bitmap.Contains(i)
	var voterAppends []ssa.Instruction
	for _, ci := range p.FindCalls(vp, `^append\(.*Relayer\.Get\(\)#0\.Voters\[`) {
		voterAppends = append(voterAppends, ci)
	}
	if len(voterAppends) == 0 {
		c.Violated("R3", "marked-voter-append @ "+FuncKey(vp), p.Pos(vp.Pos()), "no append of a voter key found reason=not-established")
	} else {
		c.RequireFact(vp, "R3", "append-under-mark", lit("Bitmap.Contains("+bmpExpr+", φ{(1 + @)|0})"), instrSet(voterAppends), "voter-key append")
	}
	// count tied to keys: one of the accepted forms
	tied := false
	var tiedDesc string
	// (i) len(keys) == marks+1 on every success path
	reTie := regexp.MustCompile(`^\(\(1 \+ Bitmap\.Count\(` + regexp.QuoteMeta(bmpExpr) + `\)\) == len\(φ\{append.*\}\)\)$`)
	if edges := p.MatchEdges(vp, reTie); len(edges) > 0 {
		avoid := map[edgeKey]bool{}
		for _, e := range edges {
			avoid[e.Key()] = true
		}
		if t, _ := (&PathSearch{Fn: vp, AvoidEdges: avoid, IsTarget: successTargets(vp)}).Find(); t == nil {
			tied, tiedDesc = true, "len(keys) == marks+1 on every success path"
		}
	}
	// (ii) highest mark bounded by len(voters)
	if !tied {
		reMax := regexp.MustCompile(`^\((Bitmap\.Max\(.*\)#0 < len\(Relayer\.Get\(\)#0\.Voters\)|Bitmap\.Count\(.*\) == Bitmap\.CountTo\(.*, len\(Relayer\.Get\(\)#0\.Voters\)\))\)$`)
		if edges := p.MatchEdges(vp, reMax); len(edges) > 0 {
			avoid := map[edgeKey]bool{}
			for _, e := range edges {
				avoid[e.Key()] = true
			}
			if t, _ := (&PathSearch{Fn: vp, AvoidEdges: avoid, IsTarget: successTargets(vp)}).Find(); t == nil {
				tied, tiedDesc = true, "highest mark bounded by len(voters)"
			}
		}
	}
	// (iii) the threshold is compared with len(keys) itself
	if !tied {
		if edges := p.MatchEdges(vp, regexp.MustCompile(`^\(Relayer\.Threshold\(Relayer\.Get\(\)#0\) <= len\(φ\{append.*\}\)\)$`)); len(edges) > 0 {
			tied, tiedDesc = true, "threshold compared with len(keys)"
		}
	}
	if tied {
		c.Held("R3", "count-tied-to-keys @ "+FuncKey(vp), p.InstrPos(av), tiedDesc)
	} else {
		c.Violated("R3", "count-tied-to-keys @ "+FuncKey(vp), p.InstrPos(av),
			"the mark count compared with the threshold (Bitmap.Count) is not tied to the keys that take part in verification: marks at positions >= len(voters) count toward the quorum without a key")
	}

	// R4
	doc := r.E(args[1])
	wantDoc := "relayer/types.VoteSignDoc(IVoteMsg.MethodName($2), Context.ChainID(), Relayer.Get()#0.Proposer, Sequence.Peek()#0, Relayer.Get()#0.Epoch, IVoteMsg.VoteSigDoc($2))"
	if doc == wantDoc {
		c.Held("R4", "signdoc-args @ "+FuncKey(vp), p.InstrPos(av), doc)
	} else {
		c.Violated("R4", "signdoc-args @ "+FuncKey(vp), p.InstrPos(av), "verified message is "+doc+" reason=not-established")
	}
	if s := r.E(args[2]); s == "IVoteMsg.GetVote($2).Signature" {
		c.Held("R4", "signature-arg @ "+FuncKey(vp), p.InstrPos(av), s)
	} else {
		c.Violated("R4", "signature-arg @ "+FuncKey(vp), p.InstrPos(av), "signature verified is "+s+" reason=not-established")
	}
	vsd := p.MustFn("x/relayer/types.VoteSignDoc")
	c.touch(vsd)
	for _, e := range Exits(vsd) {
		s := p.R(vsd).E(e.Ret.Results[0])
		missing := []string{}
		if !strings.HasPrefix(s, "crypto.SHA256Sum(") {
			missing = append(missing, "hash")
		}
		for i := 0; i < 6; i++ {
			if !regexp.MustCompile(`\$` + fmt.Sprint(i) + `\b`).MatchString(s) {
				missing = append(missing, fmt.Sprintf("$%d", i))
			}
		}
		if len(missing) == 0 {
			c.Held("R4", "signdoc-hash-inputs @ "+FuncKey(vsd), p.InstrPos(e.Ret), s)
		} else {
			c.Violated("R4", "signdoc-hash-inputs @ "+FuncKey(vsd), p.InstrPos(e.Ret), "parameters not reaching the hash: "+strings.Join(missing, ",")+" in "+s)
		}
	}
	// VoteSigDoc field coverage for each voted message type
	nDocs := 0
	for _, h := range voted {
		mt := namedOf(h.Params[2].Type())
		fnKey := relPkg(mt.Obj().Pkg().Path()) + "." + mt.Obj().Name() + ".VoteSigDoc"
		f := p.MustFn(fnKey)
		c.touch(f)
		nDocs++
		var rets []string
		for _, e := range Exits(f) {
			rets = append(rets, p.R(f).E(e.Ret.Results[0]))
		}
		all := strings.Join(rets, " ; ")
		st := mt.Underlying().(*types.Struct)
		var missing []string
		for i := 0; i < st.NumFields(); i++ {
			fl := st.Field(i)
			if !fl.Exported() || fl.Name() == "Proposer" || fl.Name() == "Vote" || strings.HasPrefix(fl.Name(), "XXX_") {
				continue
			}
			if !regexp.MustCompile(`\$0\.` + fl.Name() + `\b`).MatchString(all) {
				missing = append(missing, fl.Name())
			}
		}
		if len(missing) == 0 {
			c.Held("R4", "payload-fields @ "+fnKey, p.Pos(f.Pos()), all)
		} else {
			c.Violated("R4", "payload-fields @ "+fnKey, p.Pos(f.Pos()), "payload fields not bound by the vote: "+strings.Join(missing, ","))
		}
	}
	c.Floor("R4", "VoteSigDoc methods", nDocs, 5)
}

func propC02(c *Check) {
	p := c.p
	c.Rule("R1", "writers: the proposal sequence is written only by SetProposalSeq and relayer InitGenesis; SetProposalSeq is called only from the voted handlers; Sequence.Next is called nowhere")
	c.Rule("R2", "exactly once, +1: every success path of a voted handler passes exactly one SetProposalSeq(VerifyProposal#0 + 1) (not in a loop) and one UpdateRandao(req)")
	c.Rule("R3", "randao and accepted-flag writers; in VerifyProposal/VerifyNonProposal the Relayer.Set that flips ProposerAccepted is dominated by every guard")
	c.Rule("R4", "no process-local state: nothing reachable from a tx handler, block hook or ante handler stores to a package-level variable")
	c.Rule("R5", "a vote is bound to its payload: the sign document of every voted message covers each field its handler acts on (C01/R4) — otherwise votes collected for one payload are accepted for another")
	c.Depend("R5", "C01", propC01, map[string]bool{"R4": true}, "a field left out of the sign document can be changed after the votes were collected")

	voted, nonVoted := p.votedHandlers()
	votedSet := map[*ssa.Function]bool{}
	for _, h := range voted {
		votedSet[h] = true
	}
	// R1 writers of Sequence / Randao
	type wsite struct {
		fn string
		s  StoreSite
	}
	seqWriters := map[string][]StoreSite{}
	randaoWriters := map[string][]StoreSite{}
	for _, f := range p.ProdFuncs {
		for _, s := range p.StoreSites(f) {
			if !s.IsWrite() || s.Field.Pkg() == nil || relPkg(s.Field.Pkg().Path()) != "x/relayer/keeper" {
				continue
			}
			switch s.Field.Name() {
			case "Sequence":
				seqWriters[FuncKey(f)] = append(seqWriters[FuncKey(f)], s)
			case "Randao":
				randaoWriters[FuncKey(f)] = append(randaoWriters[FuncKey(f)], s)
			}
		}
	}
	checkWriters := func(rule, what string, got map[string][]StoreSite, allowed map[string]bool, floor int) {
		n := 0
		for fn, sites := range got {
			for _, s := range sites {
				n++
				if allowed[fn] && s.Method == "Set" {
					c.Held(rule, what+"-writer "+fn, p.InstrPos(s.Call), s.Field.Name()+"."+s.Method)
				} else {
					c.Violated(rule, what+"-writer "+fn, p.InstrPos(s.Call), "unexpected writer of "+what+": "+s.Field.Name()+"."+s.Method)
				}
			}
		}
		c.Floor(rule, what+" writers", n, floor)
	}
	checkWriters("R1", "sequence", seqWriters, map[string]bool{"x/relayer/keeper.Keeper.SetProposalSeq": true, "x/relayer/module.InitGenesis": true}, 1)
	checkWriters("R3", "randao", randaoWriters, map[string]bool{"x/relayer/keeper.Keeper.UpdateRandao": true, "x/relayer/module.InitGenesis": true}, 2)

	cg := p.CG()
	sps := p.MustFn("x/relayer/keeper.Keeper.SetProposalSeq")
	nCallers := 0
	for _, caller := range cg.Callers(sps) {
		nCallers++
		if votedSet[caller] {
			c.Held("R1", "SetProposalSeq-caller "+FuncKey(caller), p.Pos(caller.Pos()), "voted handler")
		} else if FuncKey(caller) == "x/relayer/module.InitGenesis" {
			nCallers--
			c.Held("R1", "SetProposalSeq-caller "+FuncKey(caller), p.Pos(caller.Pos()), "genesis import (an allowed writer of the sequence) through the keeper's setter")
		} else {
			c.Violated("R1", "SetProposalSeq-caller "+FuncKey(caller), p.Pos(caller.Pos()), "the proposal sequence is advanced outside a voted handler")
		}
	}
	c.Floor("R1", "SetProposalSeq callers", nCallers, 5)
	ur := p.MustFn("x/relayer/keeper.Keeper.UpdateRandao")
	for _, caller := range cg.Callers(ur) {
		if votedSet[caller] {
			c.Held("R3", "UpdateRandao-caller "+FuncKey(caller), p.Pos(caller.Pos()), "voted handler")
		} else {
			c.Violated("R3", "UpdateRandao-caller "+FuncKey(caller), p.Pos(caller.Pos()), "randomness accumulator updated outside a voted handler")
		}
	}
	_ = nonVoted

	// R2 in each voted handler
	for _, h := range voted {
		c.touch(h)
		key := FuncKey(h)
		calls := p.FindCalls(h, `^RelayerKeeper\.SetProposalSeq\(`)
		if len(calls) != 1 {
			c.Violated("R2", "one-SetProposalSeq @ "+key, p.Pos(h.Pos()), fmt.Sprintf("%d SetProposalSeq call sites (want exactly 1)", len(calls)))
		} else {
			ci := calls[0]
			s := p.CallStr(ci)
			okArg := regexp.MustCompile(`^RelayerKeeper\.SetProposalSeq\(\(1 \+ RelayerKeeper\.VerifyProposal\(\$2[,)].*#0\)\)$`).MatchString(s)
			inLoop := p.R(h).blockReach(ci.Block())[ci.Block()]
			switch {
			case !okArg:
				c.Violated("R2", "seq+1 @ "+key, p.InstrPos(ci), "sequence is not set to VerifyProposal's sequence + 1: "+s)
			case inLoop:
				c.Violated("R2", "seq+1 @ "+key, p.InstrPos(ci), "SetProposalSeq inside a loop")
			default:
				c.Held("R2", "seq+1 @ "+key, p.InstrPos(ci), s)
			}
			c.RequireFact(h, "R2", "SetProposalSeq-on-success", `^\(RelayerKeeper\.SetProposalSeq\(.*\) == nil\)$`, nil, "")
		}
		rc := p.FindCalls(h, `^RelayerKeeper\.UpdateRandao\(`)
		if len(rc) != 1 || p.CallStr(rc[0]) != "RelayerKeeper.UpdateRandao($2)" {
			c.Violated("R2", "one-UpdateRandao @ "+key, p.Pos(h.Pos()), fmt.Sprintf("%d UpdateRandao(req) call sites (want exactly 1 with the handler's request)", len(rc)))
		} else {
			c.RequireFact(h, "R2", "UpdateRandao-on-success", lit("(RelayerKeeper.UpdateRandao($2) == nil)"), nil, "")
		}
	}

	// R3 ProposerAccepted stores
	allowedPA := map[string]bool{
		"x/relayer/keeper.Keeper.VerifyProposal":    true,
		"x/relayer/keeper.Keeper.VerifyNonProposal": true,
		"x/relayer/keeper.msgServer.AcceptProposer": true,
		"x/relayer/keeper.Keeper.EndBlocker":        true,
	}
	relT := p.LookupType("x/relayer/types", "Relayer")
	c.checkFieldWriters("R3", relT, "ProposerAccepted", "ProposerAccepted", allowedPA, 4)
	vp := p.MustFn("x/relayer/keeper.Keeper.VerifyProposal")
	vpSets := p.writeSites(vp) // direct store writes and calls to helpers that write
	if len(vpSets) == 0 {
		c.Violated("R3", "flag-write-found @ "+FuncKey(vp), p.Pos(vp.Pos()), "no Relayer.Set found reason=not-established")
	} else {
		tgt := instrSet(vpSets)
		c.RequireFact(vp, "R3", "write-after-proposer", lit("(IVoteMsg.GetProposer($2) == Relayer.Get()#0.Proposer)"), tgt, "state write")
		c.RequireFact(vp, "R3", "write-after-sequence", lit(EQ("Sequence.Peek()#0", "IVoteMsg.GetVote($2).Sequence")), tgt, "state write")
		c.RequireFact(vp, "R3", "write-after-epoch", lit(EQ("Relayer.Get()#0.Epoch", "IVoteMsg.GetVote($2).Epoch")), tgt, "state write")
		c.RequireFact(vp, "R3", "write-after-signature", `^crypto\.AggregateVerify\(`, tgt, "state write")
	}
	vnp := p.MustFn("x/relayer/keeper.Keeper.VerifyNonProposal")
	vnpSets := p.writeSites(vnp)
	c.RequireFact(vnp, "R3", "nonvote-proposer", lit("(INonVoteMsg.GetProposer($2) == Relayer.Get()#0.Proposer)"), nil, "")
	if len(vnpSets) > 0 {
		c.RequireFact(vnp, "R3", "write-after-proposer", lit("(INonVoteMsg.GetProposer($2) == Relayer.Get()#0.Proposer)"), instrSet(vnpSets), "state write")
	}

	// R4 process-local state
	c.noGlobalWrites("R4")
}

// noGlobalWrites: no function reachable from deterministic entry points stores to a package-level variable.
func (c *Check) noGlobalWrites(rule string) {
	p := c.p
	ctx := p.Contexts()
	var roots []*ssa.Function
	roots = append(roots, ctx.Tx...)
	roots = append(roots, ctx.Block...)
	roots = append(roots, ctx.Ante...)
	roots = append(roots, ctx.Genesis...)
	reach, parent := p.CG().Reach(roots, nil)
	n, bad, poolUses := 0, 0, 0
	for f := range reach {
		c.touch(f)
		n++
		for _, b := range f.Blocks {
			for _, in := range b.Instrs {
				switch x := in.(type) {
				case *ssa.Store:
					if g := globalRoot(x.Addr); g != nil {
						bad++
						c.Violated(rule, "global-store "+g.Name()+" @ "+FuncKey(f), p.InstrPos(in), "store to package-level variable reachable from consensus code: "+p.CG().PathTo(f, parent))
					}
				case *ssa.MapUpdate:
					if g := globalRoot(x.Map); g != nil {
						bad++
						c.Violated(rule, "global-map-update "+g.Name()+" @ "+FuncKey(f), p.InstrPos(in), "update of package-level map reachable from consensus code: "+p.CG().PathTo(f, parent))
					}
				case *ssa.UnOp:
					if g, ok := x.X.(*ssa.Global); ok && (g.Name() == "sha256Pool" || g.Name() == "ripemd160Pool") {
						poolUses++
					}
				}
			}
		}
	}
	if bad == 0 {
		c.Held(rule, "no-global-writes", "", fmt.Sprintf("%d functions reachable from tx/block/ante/genesis entry points store to no package-level variable", n))
	}
	// process-local state reachable from a keeper: (1) keeper structs carry only service handles and immutable values
	nFields := 0
	for _, mod := range []string{"bitcoin", "relayer", "goat", "locking"} {
		kt := p.LookupType("x/"+mod+"/keeper", "Keeper")
		st := kt.Underlying().(*types.Struct)
		for i := 0; i < st.NumFields(); i++ {
			f := st.Field(i)
			nFields++
			if why := stateCarrier(f.Type()); why != "" {
				c.Violated(rule, "keeper-field x/"+mod+"/keeper.Keeper."+f.Name(), p.Pos(f.Pos()), "keeper field of type "+f.Type().String()+" can carry process-local mutable state ("+why+"): results would depend on the process history, not only on committed state")
			}
		}
	}
	c.Held(rule, "keeper-fields-are-service-handles", "", fmt.Sprintf("%d keeper fields inspected: collections, codecs, store service, logger, keeper interfaces, engine client, immutable basics", nFields))
	// (2) no mutation through pointers/maps reachable from a receiver, (3) no sync.Map mutators
	mut := 0
	for f := range reach {
		for _, b := range f.Blocks {
			for _, in := range b.Instrs {
				switch x := in.(type) {
				case *ssa.Store:
					if throughReceiverPointer(f, x.Addr) {
						mut++
						c.Violated(rule, "receiver-reachable-store @ "+FuncKey(f), p.InstrPos(in), "store through a pointer reachable from the receiver (survives the call, not part of committed state): "+p.R(f).E(x.Addr))
					}
				case *ssa.MapUpdate:
					if throughReceiverPointer(f, x.Map) || receiverField(f, x.Map) {
						mut++
						c.Violated(rule, "receiver-reachable-map-update @ "+FuncKey(f), p.InstrPos(in), "update of a map held by the receiver: "+p.R(f).E(x.Map))
					}
				case ssa.CallInstruction:
					if cf := calleeFunc(x.Common()); cf != nil {
						fn := cf.FullName()
						if strings.HasPrefix(fn, "(*sync.Map).") && cf.Name() != "Load" && cf.Name() != "Range" {
							mut++
							c.Violated(rule, "sync.Map-mutation @ "+FuncKey(f), p.InstrPos(in), "process-local cache mutated from consensus code: "+fn)
						}
					}
				}
			}
		}
	}
	if mut == 0 {
		c.Held(rule, "no-receiver-reachable-mutation", "", "no store/map update through receiver-held pointers and no sync.Map mutation in consensus code")
	}
	// positive control: the hash scratch pools are seen (whitelisted by symbol: no value survives a call)
	if poolUses == 0 {
		c.Violated(rule, "positive-control sha256Pool", "", "the known package-level pool uses were not found: reachability is broken reason=not-established")
	} else {
		c.Held(rule, "positive-control sha256Pool", "", fmt.Sprintf("%d uses of pkg/crypto scratch pools found reachable (whitelisted: hash scratch objects, reset before use)", poolUses))
	}
}

func globalRoot(v ssa.Value) *ssa.Global {
	for i := 0; i < 10; i++ {
		switch x := v.(type) {
		case *ssa.Global:
			return x
		case *ssa.FieldAddr:
			v = x.X
		case *ssa.IndexAddr:
			v = x.X
		case *ssa.UnOp:
			v = x.X
		default:
			return nil
		}
	}
	return nil
}

// stateCarrier: can a keeper field of this type hold mutable process-local state?
func stateCarrier(t types.Type) string {
	ts := t.String()
	switch {
	case strings.HasPrefix(ts, "cosmossdk.io/collections."):
		return ""
	case ts == "cosmossdk.io/core/store.KVStoreService", ts == "cosmossdk.io/log.Logger", ts == "cosmossdk.io/core/address.Codec",
		ts == "github.com/cosmos/cosmos-sdk/codec.BinaryCodec", ts == "github.com/cosmos/cosmos-sdk/codec.Codec":
		return ""
	case strings.HasPrefix(ts, modPath+"/x/") && strings.Contains(ts, "/types.") && strings.HasSuffix(ts, "Keeper"):
		return "" // keeper dependency interfaces
	case ts == modPath+"/pkg/ethrpc.EngineClient":
		return ""
	}
	switch u := t.Underlying().(type) {
	case *types.Basic:
		return ""
	case *types.Pointer:
		return "pointer"
	case *types.Map:
		return "map"
	case *types.Slice:
		return "slice"
	case *types.Chan:
		return "channel"
	case *types.Struct:
		if strings.HasPrefix(ts, "sync.") {
			return "sync primitive"
		}
		for i := 0; i < u.NumFields(); i++ {
			if w := stateCarrier(u.Field(i).Type()); w != "" {
				return "struct containing " + w
			}
		}
		return ""
	case *types.Interface:
		return "interface of unknown implementation"
	}
	return "unreviewed type"
}

// receiverRoot: is v the receiver parameter (or its local copy)?
func receiverRoot(fn *ssa.Function, v ssa.Value) bool {
	root := rootOf(fn)
	_ = root
	if len(fn.Params) == 0 || fn.Signature.Recv() == nil {
		return false
	}
	if v == ssa.Value(fn.Params[0]) {
		return true
	}
	if a, ok := v.(*ssa.Alloc); ok {
		for _, ref := range *a.Referrers() {
			if st, ok := ref.(*ssa.Store); ok && st.Addr == a && st.Val == ssa.Value(fn.Params[0]) {
				return true
			}
		}
	}
	return false
}

// throughReceiverPointer: the address is reached from the receiver through at least one pointer dereference
// (or the receiver itself is a pointer): memory that outlives the call.
func throughReceiverPointer(fn *ssa.Function, addr ssa.Value) bool {
	deref := false
	v := addr
	for i := 0; i < 20; i++ {
		switch x := v.(type) {
		case *ssa.FieldAddr:
			v = x.X
		case *ssa.IndexAddr:
			if _, isSlice := x.X.Type().Underlying().(*types.Slice); isSlice {
				deref = true
			}
			v = x.X
		case *ssa.Field:
			v = x.X
		case *ssa.UnOp:
			deref = true
			v = x.X
		default:
			if receiverRoot(fn, v) {
				// a method of a plain data record (a protobuf message, a params struct in a types package) that
				// sets its own fields mutates a value its caller owns, not process-local state
				if nt := namedOf(fn.Params[0].Type()); nt != nil && nt.Obj().Pkg() != nil && strings.HasSuffix(nt.Obj().Pkg().Path(), "/types") {
					return false
				}
				if _, isPtr := fn.Params[0].Type().Underlying().(*types.Pointer); isPtr {
					return true
				}
				return deref
			}
			return false
		}
	}
	return false
}

// receiverField: v is a value loaded from a field of the receiver.
func receiverField(fn *ssa.Function, v ssa.Value) bool {
	for i := 0; i < 20; i++ {
		switch x := v.(type) {
		case *ssa.UnOp:
			v = x.X
		case *ssa.FieldAddr:
			v = x.X
		case *ssa.Field:
			v = x.X
		default:
			return receiverRoot(fn, v)
		}
	}
	return false
}
