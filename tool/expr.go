package main

import (
	"fmt"
	"go/constant"
	"go/token"
	"go/types"
	"regexp"
	"sort"
	"strconv"
	"strings"

	"golang.org/x/tools/go/ssa"
)

// Renderer turns SSA values of one function into canonical expression strings.
// The strings are what the typed guard/provenance patterns match on: they see
// through local variables, conversions and the order of commutative operands,
// so that they follow the resolved program and not the source text.
type Renderer struct {
	p      *Prog
	fn     *ssa.Function
	memo   map[ssa.Value]string
	inprog map[ssa.Value]bool
	depth  int
	allocN map[*ssa.Alloc]int
	// stores to field addresses rooted at an alloc, by alloc
	fieldStores map[*ssa.Alloc][]*ssa.Store
	wholeStores map[*ssa.Alloc][]*ssa.Store
	reach       map[*ssa.BasicBlock]map[*ssa.BasicBlock]bool
	callSeen    map[string][]*ssa.Call
	noInline    bool
	inlineDepth int
	loadActive  map[*ssa.Alloc]bool
	allocActive map[*ssa.Alloc]bool
	ptrCalls    map[*ssa.Alloc][]ptrCall
	// cur: the instruction whose operands are being rendered (the use site of a φ operand)
	cur       ssa.Instruction
	live      map[*ssa.BasicBlock]bool
	liveBusy  bool
	domFactsMemo map[*ssa.BasicBlock]map[string]bool
	contraMemo   map[*ssa.BasicBlock]int
	inContra     bool
	// pruneCount: how many φ alternatives were left out so far (a φ rendered with some left out is not memoised)
	pruneCount int
	condsMemo map[*ssa.BasicBlock]map[ssa.Value]bool
	bind      []string // parameter i is rendered as bind[i] (helper seen in its caller's terms)
}

func (p *Prog) R(fn *ssa.Function) *Renderer {
	if r, ok := p.rend[fn]; ok {
		return r
	}
	r := p.newRenderer(fn, nil)
	p.rend[fn] = r
	r.prescan()
	return r
}

// RBound: a fresh renderer of fn in which parameter i is rendered as bind[i] (the caller's
// argument): used to see a helper's values and facts in the caller's terms.
func (p *Prog) RBound(fn *ssa.Function, bind []string, depth int) *Renderer {
	r := p.newRenderer(fn, bind)
	r.inlineDepth = depth
	r.prescan()
	return r
}

func (p *Prog) newRenderer(fn *ssa.Function, bind []string) *Renderer {
	r := &Renderer{p: p, fn: fn, memo: map[ssa.Value]string{}, inprog: map[ssa.Value]bool{},
		allocN: map[*ssa.Alloc]int{}, fieldStores: map[*ssa.Alloc][]*ssa.Store{}, wholeStores: map[*ssa.Alloc][]*ssa.Store{}, callSeen: map[string][]*ssa.Call{}, bind: bind}
	n := map[string]int{}
	for _, b := range fn.Blocks {
		for _, in := range b.Instrs {
			switch in := in.(type) {
			case *ssa.Alloc:
				k := in.Type().String()
				r.allocN[in] = n[k]
				n[k]++
			case *ssa.Store:
				if a, path := rootAlloc(in.Addr); a != nil {
					if path == "" {
						r.wholeStores[a] = append(r.wholeStores[a], in)
					} else {
						r.fieldStores[a] = append(r.fieldStores[a], in)
					}
				}
			}
			// the address of a local record (or of a part of it) handed to a callee: the callee may assign its fields
			if ci, ok := in.(ssa.CallInstruction); ok {
				for i, a := range ci.Common().Args {
					if _, isPtr := a.Type().Underlying().(*types.Pointer); !isPtr {
						continue
					}
					if _, isAddr := a.(*ssa.UnOp); isAddr {
						continue // a loaded pointer, not the address of the record
					}
					if al, path := rootAlloc(a); al != nil {
						if r.ptrCalls == nil {
							r.ptrCalls = map[*ssa.Alloc][]ptrCall{}
						}
						r.ptrCalls[al] = append(r.ptrCalls[al], ptrCall{ci, i, path})
					}
				}
			}
		}
	}
	return r
}

// ptrCall: call hands the address of alloc<prefix> to its callee as argument arg.
type ptrCall struct {
	call   ssa.CallInstruction
	arg    int
	prefix string
}

// refParamIndex: the position parameter i of fn had in the reference tree. The rules name parameters by position
// ($2 = the request …); when the parameter list of a known function was changed (a parameter added, dropped or moved),
// each parameter keeps the position that the parameter of the same type had in the reference signature
// (inventory.txt), and a parameter the reference did not have gets a position no rule mentions.
func (p *Prog) refParamIndex(fn *ssa.Function, i int) int {
	if p.paramMap == nil {
		p.paramMap = map[*ssa.Function][]int{}
	}
	m, ok := p.paramMap[fn]
	if !ok {
		m = nil
		if fn.Parent() == nil {
			if sig, known := inventorySigs()[FuncKey(fn)]; known && strings.HasPrefix(sig, "func(") {
				// reference parameter types
				depth, end := 0, -1
				for j := len("func"); j < len(sig); j++ {
					if sig[j] == '(' {
						depth++
					} else if sig[j] == ')' {
						depth--
						if depth == 0 {
							end = j
							break
						}
					}
				}
				if end > 0 {
					var ref []string
					if inner := sig[len("func("):end]; inner != "" {
						ref = splitTop2(inner)
					}
					off := 0
					if fn.Signature.Recv() != nil {
						off = 1
					}
					q := func(pk *types.Package) string { return pk.Path() }
					var cur []string
					for j := off; j < len(fn.Params); j++ {
						cur = append(cur, types.TypeString(fn.Params[j].Type(), q))
					}
					same := len(cur) == len(ref)
					for j := range cur {
						if same && cur[j] != ref[j] {
							same = false
						}
					}
					if !same {
						m = make([]int, len(fn.Params))
						for j := 0; j < off; j++ {
							m[j] = j
						}
						used := make([]bool, len(ref))
						for j, t := range cur {
							m[off+j] = 100 + off + j
							for k, rt := range ref {
								if !used[k] && rt == t {
									used[k] = true
									m[off+j] = off + k
									break
								}
							}
						}
						// reference parameters the function no longer takes, by type (a type dropped twice is ambiguous)
						if p.droppedRef == nil {
							p.droppedRef = map[*ssa.Function]map[string]int{}
						}
						dr := map[string]int{}
						for k, rt := range ref {
							if !used[k] {
								if _, dup := dr[rt]; dup {
									dr[rt] = -1
								} else {
									dr[rt] = off + k
								}
							}
						}
						p.droppedRef[fn] = dr
					}
				}
			}
		}
		p.paramMap[fn] = m
	}
	if m == nil || i >= len(m) {
		return i
	}
	return m[i]
}

// soleCallerArg: fn has exactly one static call site in production code and the rendering (in the caller) of the
// argument bound to parameter i is free of the caller's parameters and locals-by-position.
func (p *Prog) soleCallerArg(fn *ssa.Function, i int) (string, bool) {
	if p.soleArgBusy[fn] {
		return "", false
	}
	if p.soleArgBusy == nil {
		p.soleArgBusy = map[*ssa.Function]bool{}
	}
	var site ssa.CallInstruction
	n := 0
	for _, e := range p.CG().In[fn] {
		ci, ok := e.Site.(ssa.CallInstruction)
		if !ok || ci.Common().StaticCallee() != fn {
			return "", false
		}
		site = ci
		n++
	}
	if n != 1 || site.Parent() == fn {
		return "", false
	}
	args := site.Common().Args
	if i >= len(args) {
		return "", false
	}
	p.soleArgBusy[fn] = true
	s := p.R(site.Parent()).E(args[i])
	delete(p.soleArgBusy, fn)
	if strings.Contains(s, "$") || strings.Contains(s, "^") || strings.Contains(s, "@") {
		// parameter narrowing: the function used to take a record and now takes some of its fields — the caller
		// passes `rec.F` where rec has the type of a parameter the reference signature had and this one dropped:
		// the argument is that parameter's field
		v, path := args[i], ""
		var recT types.Type // the type of the record whose field is taken (outermost)
	walk:
		for depth := 0; depth < 6; depth++ {
			switch x := v.(type) {
			case *ssa.UnOp:
				if x.Op != token.MUL {
					return "", false
				}
				v = x.X
			case *ssa.FieldAddr:
				path = "." + fieldName(x.X.Type(), x.Field) + path
				recT = x.X.Type()
				v = x.X
			case *ssa.Field:
				path = "." + fieldName(x.X.Type(), x.Field) + path
				recT = x.X.Type()
				v = x.X
			default:
				break walk
			}
		}
		if path == "" || recT == nil {
			return "", false
		}
		p.refParamIndex(fn, 0)
		ts := types.TypeString(recT, func(pk *types.Package) string { return pk.Path() })
		if k, ok := p.droppedRef[fn][ts]; ok && k >= 0 {
			return fmt.Sprintf("$%d%s", k, path), true
		}
		return "", false
	}
	return s, true
}

// sliceLiteralElems: v is the slice over a fresh array whose elements were stored one by one (the packaging of
// variadic arguments): the stored values in index order, or nil.
func (r *Renderer) sliceLiteralElems(v ssa.Value) []ssa.Value {
	sl, ok := v.(*ssa.Slice)
	if !ok {
		return nil
	}
	arr, ok := sl.X.(*ssa.Alloc)
	if !ok || arr.Referrers() == nil {
		return nil
	}
	at, ok := arr.Type().(*types.Pointer).Elem().Underlying().(*types.Array)
	if !ok {
		return nil
	}
	out := make([]ssa.Value, at.Len())
	for _, ref := range *arr.Referrers() {
		ia, ok := ref.(*ssa.IndexAddr)
		if !ok {
			continue
		}
		k, ok := ia.Index.(*ssa.Const)
		if !ok || k.Value == nil || ia.Referrers() == nil {
			return nil
		}
		idx, exact := constant.Int64Val(constant.ToInt(k.Value))
		if !exact || idx < 0 || idx >= at.Len() {
			return nil
		}
		for _, r2 := range *ia.Referrers() {
			if st, ok := r2.(*ssa.Store); ok && st.Addr == ssa.Value(ia) {
				out[idx] = st.Val
			}
		}
	}
	for _, o := range out {
		if o == nil {
			return nil
		}
	}
	return out
}

// splitTop2 splits a parameter list at top-level commas.
func splitTop2(s string) []string {
	var out []string
	depth, start := 0, 0
	for i, ch := range s {
		switch ch {
		case '(', '[', '{':
			depth++
		case ')', ']', '}':
			depth--
		case ',':
			if depth == 0 {
				out = append(out, strings.TrimSpace(s[start:i]))
				start = i + 1
			}
		}
	}
	return append(out, strings.TrimSpace(s[start:]))
}

// rootParam follows FieldAddr chains to a parameter of the function and returns the field path.
func rootParam(addr ssa.Value) (*ssa.Parameter, string) {
	path := ""
	for {
		switch a := addr.(type) {
		case *ssa.Parameter:
			return a, path
		case *ssa.FieldAddr:
			path = "." + fieldName(a.X.Type(), a.Field) + path
			addr = a.X
		default:
			return nil, ""
		}
	}
}

type ptrWrite struct {
	rel string    // field path below the pointer
	val ssa.Value // the stored value (nil: unknown, written by a deeper callee or a whole-record store)
	by  *ssa.Function
}

// ptrParamWrites: the fields a repository function assigns through its pointer parameter k (itself or, two levels
// deep, through functions it passes the pointer on to).
func (p *Prog) ptrParamWrites(g *ssa.Function, k int, depth int) []ptrWrite {
	if g == nil || g.Blocks == nil || k >= len(g.Params) || depth > 2 {
		return nil
	}
	key := fmt.Sprintf("%p/%d", g, k)
	if p.ptrWritesMemo == nil {
		p.ptrWritesMemo = map[string][]ptrWrite{}
	}
	if w, ok := p.ptrWritesMemo[key]; ok {
		return w
	}
	p.ptrWritesMemo[key] = nil
	var out []ptrWrite
	for _, b := range g.Blocks {
		for _, in := range b.Instrs {
			switch x := in.(type) {
			case *ssa.Store:
				if pr, rel := rootParam(x.Addr); pr == g.Params[k] {
					out = append(out, ptrWrite{rel, x.Val, g})
				}
			case ssa.CallInstruction:
				for i, a := range x.Common().Args {
					if _, isPtr := a.Type().Underlying().(*types.Pointer); !isPtr {
						continue
					}
					pr, rel := rootParam(a)
					if pr != g.Params[k] {
						continue
					}
					h := x.Common().StaticCallee()
					if h == nil || h.Blocks == nil {
						out = append(out, ptrWrite{rel, nil, g})
						continue
					}
					for _, w := range p.ptrParamWrites(h, i, depth+1) {
						out = append(out, ptrWrite{rel + w.rel, nil, w.by})
					}
				}
			}
		}
	}
	p.ptrWritesMemo[key] = out
	return out
}

// ptrCallAlts: what the callees that were handed the address of a<…> may have left in field `path` by the time
// instruction `at` runs.
func (r *Renderer) ptrCallAlts(a *ssa.Alloc, path string, at ssa.Instruction) []string {
	var alts []string
	for _, pc := range r.ptrCalls[a] {
		if !strings.HasPrefix(path, pc.prefix) || pc.call == at || !r.instrReaches(pc.call, at) {
			continue
		}
		rel := strings.TrimPrefix(path, pc.prefix)
		if rel != "" && !strings.HasPrefix(rel, ".") {
			continue
		}
		g := pc.call.Common().StaticCallee()
		if g == nil || g.Blocks == nil {
			// an unknown callee is assumed to fill records of the repository's own types only through decoders
			// (Unmarshal and the like): those are whole-record loads, seen as calls by the rules
			continue
		}
		for _, w := range r.p.ptrParamWrites(g, pc.arg, 0) {
			switch {
			case w.rel == rel:
				if c, ok := w.val.(*ssa.Const); ok {
					alts = append(alts, r.E(c))
				} else {
					alts = append(alts, "assigned-by("+FuncKey(w.by)+")")
				}
			case w.rel == "" || strings.HasPrefix(rel, w.rel+".") || strings.HasPrefix(w.rel, rel+"."):
				alts = append(alts, "assigned-by("+FuncKey(w.by)+")")
			}
		}
	}
	return dedupe(alts)
}

// prescan assigns call ordinals in instruction order (deterministic).
func (r *Renderer) prescan() {
	for _, b := range r.fn.Blocks {
		for _, in := range b.Instrs {
			if c, ok := in.(*ssa.Call); ok {
				r.E(c)
			}
		}
	}
}

// rootAlloc follows FieldAddr chains to a local Alloc and returns the field path.
func rootAlloc(addr ssa.Value) (*ssa.Alloc, string) {
	path := ""
	for {
		switch a := addr.(type) {
		case *ssa.Alloc:
			return a, path
		case *ssa.FieldAddr:
			path = "." + fieldName(a.X.Type(), a.Field) + path
			addr = a.X
		case *ssa.Phi:
			// a pointer that is either one local record or nil: where it is dereferenced it is the record
			var only ssa.Value
			for _, e := range a.Edges {
				if isNilConst(e) {
					continue
				}
				if only != nil && only != e {
					return nil, ""
				}
				only = e
			}
			if _, ok := only.(*ssa.Alloc); !ok {
				return nil, ""
			}
			addr = only
		default:
			return nil, ""
		}
	}
}

func fieldName(t types.Type, i int) string {
	if pt, ok := t.Underlying().(*types.Pointer); ok {
		t = pt.Elem()
	}
	st, ok := t.Underlying().(*types.Struct)
	if !ok || i >= st.NumFields() {
		return fmt.Sprintf("f%d", i)
	}
	return st.Field(i).Name()
}

var ambiguousPkgNames = map[string]bool{"types": true, "keeper": true, "module": true, "v1": true, "v2": true}

func shortPkg(path string) string {
	parts := strings.Split(path, "/")
	last := parts[len(parts)-1]
	if ambiguousPkgNames[last] && len(parts) >= 2 {
		return parts[len(parts)-2] + "/" + last
	}
	if path == "cosmossdk.io/errors" {
		return "errorsmod"
	}
	if path == "cosmossdk.io/math" {
		return "sdkmath"
	}
	return last
}

func namedOf(t types.Type) *types.Named {
	for {
		switch tt := t.(type) {
		case *types.Pointer:
			t = tt.Elem()
		case *types.Named:
			return tt
		case *types.Alias:
			t = types.Unalias(tt)
		default:
			return nil
		}
	}
}

func typeShort(t types.Type) string {
	switch tt := t.(type) {
	case *types.Pointer:
		return "*" + typeShort(tt.Elem())
	case *types.Named:
		if tt.Obj().Pkg() == nil {
			return tt.Obj().Name()
		}
		return shortPkg(tt.Obj().Pkg().Path()) + "." + tt.Obj().Name()
	case *types.Slice:
		return "[]" + typeShort(tt.Elem())
	case *types.Alias:
		return typeShort(types.Unalias(tt))
	}
	return t.String()
}

// funcShort names a callee: pkg.Func or Type.Method (type arguments dropped).
func funcShort(f *types.Func) string {
	sig, _ := f.Type().(*types.Signature)
	name := f.Name()
	if sig != nil && sig.Recv() != nil {
		if nt := namedOf(sig.Recv().Type()); nt != nil {
			// a renamed function of the reference inventory is called by its old name
			if f.Pkg() != nil && len(renamedKeys) > 0 {
				if old, ok := renamedKeys[relPkg(f.Pkg().Path())+"."+nt.Obj().Name()+"."+name]; ok {
					name = old[strings.LastIndex(old, ".")+1:]
				}
			}
			return nt.Obj().Name() + "." + name
		}
		// interface method declared in an unnamed interface
		return "iface." + f.Name()
	}
	if f.Pkg() == nil {
		return f.Name()
	}
	if len(renamedKeys) > 0 {
		if old, ok := renamedKeys[relPkg(f.Pkg().Path())+"."+name]; ok {
			name = old[strings.LastIndex(old, ".")+1:]
		}
	}
	// slices.Equal on byte slices is bytes.Equal
	if f.Pkg().Path() == "slices" && name == "Equal" {
		if sig != nil && sig.Params().Len() == 2 {
			if sl, ok := sig.Params().At(0).Type().Underlying().(*types.Slice); ok {
				if bt, ok := sl.Elem().Underlying().(*types.Basic); ok && bt.Kind() == types.Uint8 {
					return "bytes.Equal"
				}
			}
		}
	}
	return shortPkg(f.Pkg().Path()) + "." + name
}

func isContextType(t types.Type) bool {
	s := t.String()
	return s == "context.Context" || s == "github.com/cosmos/cosmos-sdk/types.Context"
}

// calleeFunc returns the types.Func called (static callee or interface method), or nil.
func calleeFunc(c *ssa.CallCommon) *types.Func {
	if c.IsInvoke() {
		return c.Method
	}
	if sc := c.StaticCallee(); sc != nil {
		if o, ok := sc.Object().(*types.Func); ok {
			return o
		}
		// instantiated generic method: find origin
		if sc.Origin() != nil {
			if o, ok := sc.Origin().Object().(*types.Func); ok {
				return o
			}
		}
	}
	return nil
}

// StoreAccess describes k.<Field>.<Method>(...) on a cosmossdk.io/collections value.
type StoreAccess struct {
	Field  *types.Var // the keeper field
	Method string
	Args   []ssa.Value // without receiver and context
}

func collectionsRecv(f *types.Func) bool {
	if f == nil || f.Pkg() == nil {
		return false
	}
	if f.Pkg().Path() != "cosmossdk.io/collections" {
		return false
	}
	sig := f.Type().(*types.Signature)
	return sig.Recv() != nil
}

// storeAccess recognises a collections method call whose receiver is a keeper field.
func storeAccess(c *ssa.CallCommon) *StoreAccess {
	if c.IsInvoke() {
		return nil
	}
	f := calleeFunc(c)
	if !collectionsRecv(f) || len(c.Args) == 0 {
		return nil
	}
	fv := keeperField(c.Args[0])
	if fv == nil {
		return nil
	}
	sa := &StoreAccess{Field: fv, Method: f.Name()}
	for _, a := range c.Args[1:] {
		if isContextType(a.Type()) {
			continue
		}
		sa.Args = append(sa.Args, a)
	}
	return sa
}

// keeperField resolves a value (or address) to the struct field it was loaded from.
func keeperField(v ssa.Value) *types.Var {
	for {
		switch x := v.(type) {
		case *ssa.UnOp:
			if x.Op != token.MUL {
				return nil
			}
			v = x.X
		case *ssa.FieldAddr:
			return structField(x.X.Type(), x.Field)
		case *ssa.Field:
			return structField(x.X.Type(), x.Field)
		case *ssa.ChangeType:
			v = x.X
		default:
			return nil
		}
	}
}

func structField(t types.Type, i int) *types.Var {
	if pt, ok := t.Underlying().(*types.Pointer); ok {
		t = pt.Elem()
	}
	st, ok := t.Underlying().(*types.Struct)
	if !ok || i >= st.NumFields() {
		return nil
	}
	return st.Field(i)
}

// EAt renders v as the operand of instruction `user` (φ alternatives that cannot reach user are left out).
func (r *Renderer) EAt(v ssa.Value, user ssa.Instruction) string {
	prev := r.cur
	r.cur = user
	defer func() { r.cur = prev }()
	return r.E(v)
}

func (r *Renderer) E(v ssa.Value) string {
	if v == nil {
		return "_"
	}
	if ph, ok := v.(*ssa.Phi); ok && r.cur != nil && r.anyEdgePruned(ph) {
		// the alternatives depend on the use site: rendered afresh, never memoised
		if r.inprog[v] {
			return "@"
		}
		r.inprog[v] = true
		s := r.render(v)
		delete(r.inprog, v)
		return s
	}
	if in, ok := v.(ssa.Instruction); ok {
		if _, isPhi := v.(*ssa.Phi); !isPhi && in.Block() != nil {
			prev := r.cur
			r.cur = in
			defer func() { r.cur = prev }()
		}
	}
	if s, ok := r.memo[v]; ok {
		return s
	}
	// only φ-nodes break cycles (every cycle in SSA goes through one): "@" always denotes the
	// innermost enclosing φ of the string, whatever value the rendering started from
	breaker := false
	switch x := v.(type) {
	case *ssa.Phi:
		breaker = true
	case *ssa.UnOp:
		// loads of local-variable fields form cycles through memory (x.f = g(x.f) in a loop)
		if x.Op == token.MUL {
			if a, path := rootAlloc(x.X); a != nil && path != "" {
				breaker = true
			} else if a != nil {
				// whole-record copies between locals (p = q … q = p) form cycles through memory as well
				for _, w := range r.wholeStores[a] {
					if structCopySource(w) != nil {
						breaker = true
					}
				}
			}
		}
	}
	if breaker {
		if r.inprog[v] {
			return "@"
		}
		r.inprog[v] = true
		c0 := r.pruneCount
		s := r.render(v)
		delete(r.inprog, v)
		_, isPhi := v.(*ssa.Phi)
		if len(r.inprog) == 0 && !(isPhi && r.pruneCount != c0) {
			r.memo[v] = s
		}
		return s
	}
	r.depth++
	if r.depth > 400 {
		r.depth--
		return "…"
	}
	s := r.render(v)
	r.depth--
	if len(r.inprog) == 0 {
		r.memo[v] = s
	}
	return s
}

func (r *Renderer) enumName(c *ssa.Const) string {
	nt, ok := c.Type().(*types.Named)
	if !ok || nt.Obj().Pkg() == nil || c.Value == nil {
		return ""
	}
	if !strings.HasPrefix(nt.Obj().Pkg().Path(), modPath) && !strings.Contains(nt.Obj().Pkg().Path(), "cosmossdk.io/core/comet") {
		return ""
	}
	sc := nt.Obj().Pkg().Scope()
	for _, n := range sc.Names() {
		if k, ok := sc.Lookup(n).(*types.Const); ok && types.Identical(k.Type(), nt) && constant.Compare(k.Val(), token.EQL, c.Value) {
			return n
		}
	}
	return ""
}

func constStr(c *ssa.Const) string {
	if c.Value == nil {
		return "nil"
	}
	switch c.Value.Kind() {
	case constant.String:
		return fmt.Sprintf("%q", constant.StringVal(c.Value))
	case constant.Float:
		if i, ok := constant.Int64Val(constant.ToInt(c.Value)); ok {
			return fmt.Sprintf("%d", i)
		}
	}
	return c.Value.ExactString()
}

func (r *Renderer) render(v ssa.Value) string {
	switch x := v.(type) {
	case *ssa.Const:
		if n := r.enumName(x); n != "" {
			return n
		}
		return constStr(x)
	case *ssa.Parameter:
		for i, p := range r.fn.Params {
			if p == x {
				if i < len(r.bind) && r.bind[i] != "" {
					return r.bind[i]
				}
				ri := r.p.refParamIndex(r.fn, i)
				if ri >= 100 {
					// a parameter the reference signature did not have: with a single call site whose argument does not
					// mention the caller's own parameters, it is that argument (computed by the caller instead of here)
					if a, ok := r.p.soleCallerArg(r.fn, i); ok {
						return a
					}
				}
				return fmt.Sprintf("$%d", ri)
			}
		}
		return "$?"
	case *ssa.FreeVar:
		par := r.fn.Parent()
		if par != nil {
			idx := -1
			for i, fv := range r.fn.FreeVars {
				if fv == x {
					idx = i
				}
			}
			for _, b := range par.Blocks {
				for _, in := range b.Instrs {
					if mc, ok := in.(*ssa.MakeClosure); ok && mc.Fn == r.fn && idx >= 0 && idx < len(mc.Bindings) {
						// a captured parameter that stands for an argument computed by the sole caller (soleCallerArg) is
						// that expression, not a name of the enclosing function
						bnd := mc.Bindings[idx]
						if al, isAlloc := bnd.(*ssa.Alloc); isAlloc {
							// a captured parameter lives in a cell initialised from the parameter
							if ws := r.p.R(par).wholeStores[al]; len(ws) == 1 {
								bnd = ws[0].Val
							}
						}
						if pr, isParam := bnd.(*ssa.Parameter); isParam {
							for i, pp := range par.Params {
								if pp == pr && r.p.refParamIndex(par, i) >= 100 {
									if a, ok := r.p.soleCallerArg(par, i); ok {
										return a
									}
								}
							}
						}
						return "^" + r.p.R(par).E(mc.Bindings[idx])
					}
				}
			}
		}
		return "^" + x.Name()
	case *ssa.Alloc:
		ws := r.wholeStores[x]
		if len(ws) == 1 {
			return r.E(ws[0].Val)
		}
		if len(ws) == 0 {
			et := x.Type().(*types.Pointer).Elem()
			return fmt.Sprintf("new(%s)#%d", typeShort(et), r.allocN[x])
		}
		var alts []string
		if r.allocActive == nil {
			r.allocActive = map[*ssa.Alloc]bool{}
		}
		if r.allocActive[x] {
			return "@var"
		}
		r.allocActive[x] = true
		for _, s := range ws {
			// `return v, nil` of a named result stores the variable into itself: not an assignment of a new value
			if u, ok := s.Val.(*ssa.UnOp); ok && u.Op == token.MUL && u.X == ssa.Value(x) {
				continue
			}
			if a := r.E(s.Val); a != "@var" {
				alts = append(alts, a)
			}
		}
		delete(r.allocActive, x)
		alts = dedupe(alts)
		if len(alts) == 1 {
			return alts[0]
		}
		return "var{" + joinSorted(alts) + "}"
	case *ssa.Global:
		if x.Pkg != nil {
			return shortPkg(x.Pkg.Pkg.Path()) + "." + x.Name()
		}
		return x.Name()
	case *ssa.Function:
		if x.Parent() != nil {
			return "closure(" + FuncKey(x) + ")"
		}
		if o, ok := x.Object().(*types.Func); ok {
			return funcShort(o)
		}
		return x.Name()
	case *ssa.Builtin:
		return x.Name()
	case *ssa.UnOp:
		switch x.Op {
		case token.MUL:
			return r.load(x)
		case token.NOT:
			return "!" + r.E(x.X)
		case token.SUB:
			return "-" + r.E(x.X)
		case token.XOR:
			return "^" + r.E(x.X)
		case token.ARROW:
			return "<-" + r.E(x.X)
		}
		return x.Op.String() + r.E(x.X)
	case *ssa.FieldAddr:
		return r.E(x.X) + "." + fieldName(x.X.Type(), x.Field)
	case *ssa.Field:
		return r.E(x.X) + "." + fieldName(x.X.Type(), x.Field)
	case *ssa.IndexAddr:
		return r.E(x.X) + "[" + r.E(x.Index) + "]"
	case *ssa.Index:
		return r.E(x.X) + "[" + r.E(x.Index) + "]"
	case *ssa.Lookup:
		return r.E(x.X) + "[" + r.E(x.Index) + "]"
	case *ssa.Slice:
		if lit, ok := r.arrayLit(x); ok {
			return lit
		}
		s := r.E(x.X) + "["
		if x.Low != nil {
			s += r.E(x.Low)
		}
		s += ":"
		if x.High != nil {
			s += r.E(x.High)
		}
		if x.Max != nil {
			s += ":" + r.E(x.Max)
		}
		return s + "]"
	case *ssa.Convert:
		// integer<->integer, string<->bytes conversions are transparent; a change
		// between integer and floating point arithmetic is not (division differs)
		if isFloat(x.Type()) != isFloat(x.X.Type()) {
			if isFloat(x.Type()) {
				return "float(" + r.E(x.X) + ")"
			}
			return "int(" + r.E(x.X) + ")"
		}
		return r.E(x.X)
	case *ssa.ChangeType:
		return r.E(x.X)
	case *ssa.ChangeInterface:
		return r.E(x.X)
	case *ssa.MakeInterface:
		return r.E(x.X)
	case *ssa.SliceToArrayPointer:
		return r.E(x.X)
	case *ssa.MultiConvert:
		return r.E(x.X)
	case *ssa.TypeAssert:
		return r.E(x.X) + ".(" + typeShort(x.AssertedType) + ")"
	case *ssa.Extract:
		if call, ok := x.Tuple.(*ssa.Call); ok {
			if s, ok := r.inlineHelper(call, x.Index); ok {
				return s
			}
		}
		return r.E(x.Tuple) + "#" + fmt.Sprint(x.Index)
	case *ssa.Phi:
		// the hidden counter of a range loop (-1, then index): rendered relative to the canonical index
		if len(x.Edges) >= 2 {
			init, back := 0, 0
			for _, e := range x.Edges {
				if isConstIntVal(e, -1) {
					init++
				} else if bo, ok := e.(*ssa.BinOp); ok && bo.Op == token.ADD && bo.X == ssa.Value(x) && isConstIntVal(bo.Y, 1) {
					back++
				}
			}
			if init == 1 && init+back == len(x.Edges) {
				return "(φ{(1 + @)|0} - 1)"
			}
		}
		// flatten nested φ-nodes: the set of leaf values does not depend on the CFG shape
		var alts []string
		group := map[*ssa.Phi]bool{x: true}
		var leaves []ssa.Value
		var collect func(ph *ssa.Phi)
		collect = func(ph *ssa.Phi) {
			for k, e := range ph.Edges {
				if r.edgePruned(ph, k) || (k < len(ph.Block().Preds) && (r.deadBlock(ph.Block().Preds[k]) || deadEdge(ph.Block().Preds[k], ph.Block()))) {
					continue
				}
				if np, ok := e.(*ssa.Phi); ok && !isRangeCounter(np) {
					if !group[np] {
						group[np] = true
						collect(np)
					}
					continue
				}
				leaves = append(leaves, e)
			}
		}
		collect(x)
		for ph := range group {
			if ph != x {
				r.inprog[ph] = true
			}
		}
		for _, e := range leaves {
			alts = append(alts, r.E(e))
		}
		for ph := range group {
			if ph != x {
				delete(r.inprog, ph)
			}
		}
		alts = dedupe(alts)
		if len(alts) == 1 {
			return alts[0]
		}
		return "φ{" + strings.Join(alts, "|") + "}"
	case *ssa.BinOp:
		// the index of a range loop (φ{-1, self}+1) takes the values 0,1,2,… exactly like the counter of
		// an index loop (φ{0, self+1}): both are rendered the same, so the loop form does not matter
		if x.Op == token.ADD && isConstIntVal(x.Y, 1) {
			if ph, ok := x.X.(*ssa.Phi); ok && len(ph.Edges) >= 2 {
				init, back := 0, 0
				for _, e := range ph.Edges {
					switch {
					case isConstIntVal(e, -1):
						init++
					case e == ssa.Value(x):
						back++
					}
				}
				if init == 1 && init+back == len(ph.Edges) {
					return "φ{(1 + @)|0}"
				}
			}
		}
		return r.cmp(x.Op, x.X, x.Y)
	case *ssa.Call:
		if s, ok := r.pbGetter(x); ok {
			return s
		}
		if s, ok := r.sliceSearch(x); ok {
			return s
		}
		if s, ok := r.inlineHelper(x, -1); ok {
			return s
		}
		base := r.call(&x.Call)
		if pureCall(&x.Call) {
			return base
		}
		// distinct executions of a call that is not known to be pure are distinct values:
		// the 2nd, 3rd ... call instruction with the same rendering gets an ordinal
		lst := r.callSeen[base]
		idx := -1
		for i, c := range lst {
			if c == x {
				idx = i
			}
		}
		if idx < 0 {
			r.callSeen[base] = append(lst, x)
			idx = len(lst)
		}
		if idx == 0 {
			return base
		}
		return base + "‹" + fmt.Sprint(idx+1) + "›"
	case *ssa.MakeSlice:
		return "make(" + typeShort(x.Type()) + "," + r.E(x.Len) + "," + r.E(x.Cap) + ")"
	case *ssa.MakeMap:
		return "makemap(" + typeShort(x.Type()) + ")"
	case *ssa.MakeChan:
		return "makechan"
	case *ssa.MakeClosure:
		if f, ok := x.Fn.(*ssa.Function); ok {
			return "closure(" + FuncKey(f) + ")"
		}
		return "closure(?)"
	case *ssa.Range:
		return "range(" + r.E(x.X) + ")"
	case *ssa.Next:
		return "next(" + r.E(x.Iter) + ")"
	case *ssa.Select:
		return "select"
	}
	return fmt.Sprintf("?%T", v)
}

func dedupe(a []string) []string {
	sort.Strings(a)
	out := a[:0]
	for i, s := range a {
		if i == 0 || s != a[i-1] {
			out = append(out, s)
		}
	}
	return out
}

func joinSorted(a []string) string { return strings.Join(dedupe(a), "|") }

// binop renders with normalised comparison direction and sorted commutative operands.
func (r *Renderer) binop(op token.Token, a, b string) string {
	switch op {
	case token.GTR:
		op, a, b = token.LSS, b, a
	case token.GEQ:
		op, a, b = token.LEQ, b, a
	}
	switch op {
	case token.EQL, token.NEQ, token.ADD, token.MUL, token.AND, token.OR, token.XOR:
		if b < a && !(op == token.ADD && strings.HasPrefix(a, "\"")) {
			a, b = b, a
		}
	}
	return "(" + a + " " + op.String() + " " + b + ")"
}

func (r *Renderer) call(c *ssa.CallCommon) string {
	// copies of a slice carry the same elements in the same order
	if f := calleeFunc(c); f != nil && len(c.Args) == 1 && f.Pkg() != nil && f.Name() == "Clone" && (f.Pkg().Path() == "slices" || f.Pkg().Path() == "bytes") {
		return r.E(c.Args[0])
	}
	// … and so does a slice whose capacity was adjusted
	if f := calleeFunc(c); f != nil && len(c.Args) >= 1 && f.Pkg() != nil && f.Pkg().Path() == "slices" && (f.Name() == "Grow" || f.Name() == "Clip") {
		return r.E(c.Args[0])
	}
	if sa := storeAccess(c); sa != nil {
		var args []string
		for _, a := range sa.Args {
			args = append(args, r.E(a))
		}
		return sa.Field.Name() + "." + sa.Method + "(" + strings.Join(args, ", ") + ")"
	}
	var args []string
	name := ""
	if c.IsInvoke() {
		name = funcShort(c.Method)
		if nt := namedOf(c.Value.Type()); nt != nil {
			name = nt.Obj().Name() + "." + c.Method.Name()
		}
		if keeperField(c.Value) == nil {
			args = append(args, r.E(c.Value))
		}
	} else if f := calleeFunc(c); f != nil {
		name = funcShort(f)
		// slices.Equal on byte slices is bytes.Equal
		if name == "slices.Equal" && len(c.Args) == 2 {
			if sl, ok := c.Args[0].Type().Underlying().(*types.Slice); ok {
				if bt, ok := sl.Elem().Underlying().(*types.Basic); ok && bt.Kind() == types.Uint8 {
					name = "bytes.Equal"
				}
			}
		}
	} else if b, ok := c.Value.(*ssa.Builtin); ok {
		name = b.Name()
	} else {
		name = "callfn(" + r.E(c.Value) + ")"
	}
	for i, a := range c.Args {
		if isContextType(a.Type()) {
			continue
		}
		s := r.E(a)
		if i == 0 && !c.IsInvoke() {
			// method call on the function's own (embedded) keeper receiver: the receiver is implicit
			if f := calleeFunc(c); f != nil && f.Type().(*types.Signature).Recv() != nil {
				if t := strings.TrimLeft(s, "^"); t == "$0" || t == "$0.Keeper" {
					continue
				}
			}
		}
		args = append(args, s)
	}
	return name + "(" + strings.Join(args, ", ") + ")"
}

// load renders *addr. Loads of fields of local struct variables are resolved
// flow-sensitively against the stores to the same field in this function.
func (r *Renderer) load(x *ssa.UnOp) string {
	a, path := rootAlloc(x.X)
	if a == nil || path == "" {
		if a != nil {
			// a local with several assignments (a named result, a variable captured by a closure): the value read
			// here is the one of the assignments that can reach this load, not the mixture of all of them
			if ws := r.wholeStores[a]; len(ws) > 1 {
				if _, isStruct := a.Type().(*types.Pointer).Elem().Underlying().(*types.Struct); !isStruct && !r.loadActive[a] {
					// (an accumulator `v = f(v)` in a loop reads its own earlier value: the inner read is the variable itself)
					if r.loadActive == nil {
						r.loadActive = map[*ssa.Alloc]bool{}
					}
					r.loadActive[a] = true
					defer delete(r.loadActive, a)
					// what is rendered while this read is being resolved may contain the fallback for a nested read of the
					// same variable: none of it is memoised
					if !r.inprog[x] {
						r.inprog[x] = true
						defer delete(r.inprog, x)
					}
					live := r.liveOrigins(x, a, "")
					var alts []string
					zero := false
					for _, o := range live {
						if w, ok := o.(*ssa.Store); ok {
							alts = append(alts, r.E(w.Val))
						} else {
							zero = true
						}
					}
					if !zero && len(alts) > 0 {
						alts = dedupe(alts)
						if len(alts) == 1 {
							return alts[0]
						}
						// several assignments can be observed here: the variable is named, not expanded (expanding
						// the alternatives of a variable that is reassigned in a loop never ends)
					}
				}
			}
			return r.E(a)
		}
		if _, ok := x.X.(*ssa.Global); ok {
			return r.E(x.X)
		}
		if _, ok := x.X.(*ssa.FreeVar); ok {
			return r.E(x.X)
		}
		switch x.X.(type) {
		case *ssa.FieldAddr, *ssa.IndexAddr:
			return r.E(x.X)
		}
		return "*" + r.E(x.X)
	}
	return r.fieldAt(a, path, x, r.E(x.X), 0)
}

// fieldAt: the value of field `path` of the local struct variable a as observed right before instruction `at`.
// origin is the rendering used when the value the variable was (whole-)assigned is still visible.
func (r *Renderer) fieldAt(a *ssa.Alloc, path string, at ssa.Instruction, origin string, depth int) string {
	var cands []*ssa.Store
	for _, s := range r.fieldStores[a] {
		_, sp := rootAlloc(s.Addr)
		if sp != path {
			continue
		}
		if r.storeReachesLoad(s, at, a, path) {
			cands = append(cands, s)
		}
	}
	live := r.liveOrigins(at, a, path)
	// flow-sensitive origin: when several whole assignments exist but only one can be observed here, the field has
	// the value of that one (not the mixture of all assignments anywhere in the function)
	if len(live) == 1 && len(r.wholeStores[a]) > 1 {
		if w, ok := live[0].(*ssa.Store); ok && structCopySource(w) == nil {
			origin = r.E(w.Val) + path
		}
	}
	pcAlts := r.ptrCallAlts(a, path, at)
	if len(cands) == 0 && !r.hasStructCopy(live) && len(pcAlts) == 0 {
		return origin
	}
	originLive := len(live) > 0
	if len(cands) == 1 && !originLive && len(pcAlts) == 0 {
		return r.E(cands[0].Val)
	}
	var alts []string
	if originLive {
		if r.hasStructCopy(live) && depth < 4 {
			// `v := w` copies a whole record: the field keeps the value it had in w at the copy
			for _, st := range live {
				w, ok := st.(*ssa.Store)
				if !ok {
					alts = append(alts, r.E(a)+path)
					continue
				}
				if src := structCopySource(w); src != nil && src != a {
					alts = append(alts, r.fieldAt(src, path, w, r.E(src)+path, depth+1))
				} else {
					alts = append(alts, r.E(w.Val)+path)
				}
			}
		} else {
			alts = append(alts, origin)
		}
	}
	for _, s := range cands {
		alts = append(alts, r.E(s.Val))
	}
	if len(pcAlts) > 0 && len(alts) == 0 {
		alts = append(alts, origin)
	}
	alts = append(alts, pcAlts...)
	alts = dedupe(alts)
	if len(alts) == 1 {
		return alts[0]
	}
	return "mix{" + strings.Join(alts, "|") + "}"
}

// LoadedValue: when v reads a local variable (or a field of a local record) whose value at that point was put
// there by exactly one store, the stored value; otherwise v itself. Lets value-level rules see through records
// that only carry a value from one statement to another (`plan := T{n: x}; … use(plan.n)`).
func (r *Renderer) LoadedValue(v ssa.Value) ssa.Value {
	for i := 0; i < 8; i++ {
		x, ok := v.(*ssa.UnOp)
		if !ok || x.Op != token.MUL {
			return v
		}
		a, path := rootAlloc(x.X)
		if a == nil {
			return v
		}
		var next ssa.Value
		if path == "" {
			live := r.liveOrigins(x, a, "")
			if len(live) != 1 {
				return v
			}
			w, ok := live[0].(*ssa.Store)
			if !ok {
				return v
			}
			next = w.Val
		} else {
			// the field of a record, followed back through whole-record copies (`b := a` keeps a's fields)
			var at ssa.Instruction = x
			for hop := 0; hop < 6 && next == nil; hop++ {
				var cands []*ssa.Store
				for _, s := range r.fieldStores[a] {
					if _, sp := rootAlloc(s.Addr); sp == path && r.storeReachesLoad(s, at, a, path) {
						cands = append(cands, s)
					}
				}
				live := r.liveOrigins(at, a, path)
				switch {
				case len(cands) == 1 && len(live) == 0:
					next = cands[0].Val
				case len(cands) == 0 && len(live) == 1:
					w, ok := live[0].(*ssa.Store)
					if !ok {
						return v
					}
					src := structCopySource(w)
					if src == nil || src == a {
						return v
					}
					a, at = src, w
				default:
					return v
				}
			}
			if next == nil {
				return v
			}
		}
		v = next
	}
	return v
}

// condsAt: the branch conditions (SSA value → outcome) that hold whenever control is in block b: b is reached only
// through that outcome of a dominating branch. Conditions computed inside a loop are left out (their value changes).
func (r *Renderer) condsAt(b *ssa.BasicBlock) map[ssa.Value]bool {
	if m, ok := r.condsMemo[b]; ok {
		return m
	}
	if r.condsMemo == nil {
		r.condsMemo = map[*ssa.BasicBlock]map[ssa.Value]bool{}
	}
	m := map[ssa.Value]bool{}
	r.condsMemo[b] = m
	for d := b; d != nil && d.Idom() != nil; d = d.Idom() {
		id := d.Idom()
		if len(d.Preds) != 1 || d.Preds[0] != id {
			continue
		}
		if c, val, ok := r.branchCond(id, d); ok {
			if _, seen := m[c]; !seen {
				m[c] = val
			}
		}
	}
	return m
}

// branchCond: block `from` ends in a two-way branch on a loop-invariant value; returns the value and its outcome
// on the edge from → to.
func (r *Renderer) branchCond(from, to *ssa.BasicBlock) (ssa.Value, bool, bool) {
	if len(from.Instrs) == 0 || len(from.Succs) != 2 || from.Succs[0] == from.Succs[1] {
		return nil, false, false
	}
	iff, ok := from.Instrs[len(from.Instrs)-1].(*ssa.If)
	if !ok {
		return nil, false, false
	}
	val := from.Succs[0] == to
	c := iff.Cond
	for {
		if u, ok := c.(*ssa.UnOp); ok && u.Op == token.NOT {
			c, val = u.X, !val
			continue
		}
		if lv := r.LoadedValue(c); lv != c {
			c = lv
			continue
		}
		break
	}
	in, ok := c.(ssa.Instruction)
	if !ok || in.Block() == nil {
		return nil, false, false
	}
	if _, isPhi := c.(*ssa.Phi); isPhi {
		return nil, false, false
	}
	if r.blockReach(in.Block())[in.Block()] {
		return nil, false, false // recomputed on every iteration
	}
	return c, val, true
}

// deadBlock: b cannot be reached from the entry once the branches whose outcome is fixed (a nil test of an error that
// is known to be a failure value, or known to be nil) are taken into account.
func (r *Renderer) deadBlock(b *ssa.BasicBlock) bool {
	if r.liveBusy {
		return false // asked while liveness itself is being computed (its facts are being rendered): no answer
	}
	if r.live == nil {
		r.liveBusy = true
		live := map[*ssa.BasicBlock]bool{}
		if len(r.fn.Blocks) > 0 {
			work := []*ssa.BasicBlock{r.fn.Blocks[0]}
			live[r.fn.Blocks[0]] = true
			if r.fn.Recover != nil {
				work = append(work, r.fn.Recover)
				live[r.fn.Recover] = true
			}
			for len(work) > 0 {
				c := work[len(work)-1]
				work = work[:len(work)-1]
				skip, skip2 := staticNilBranch(c), r.contradictedEdge(c)
				for i, sc := range c.Succs {
					if i == skip || i == skip2 || live[sc] {
						continue
					}
					live[sc] = true
					work = append(work, sc)
				}
			}
		}
		r.live = live
		r.liveBusy = false
	}
	return b.Parent() == r.fn && !r.live[b]
}

// stableValue: v is computed from constants, parameters, results of calls already made and reads of local records
// (which are rendered with the value they hold at that point): two renderings of such values that are equal text
// denote equal values.
func stableValue(v ssa.Value, depth int) bool {
	if depth > 8 {
		return false
	}
	switch x := v.(type) {
	case *ssa.Const, *ssa.Parameter:
		return true
	case *ssa.BinOp:
		return stableValue(x.X, depth+1) && stableValue(x.Y, depth+1)
	case *ssa.UnOp:
		if x.Op == token.MUL {
			a, _ := rootAlloc(x.X)
			return a != nil
		}
		return stableValue(x.X, depth+1)
	case *ssa.Extract:
		_, isCall := x.Tuple.(*ssa.Call)
		return isCall
	case *ssa.Call:
		return true // the result of a call already made
	case *ssa.Convert:
		return stableValue(x.X, depth+1)
	case *ssa.ChangeType:
		return stableValue(x.X, depth+1)
	case *ssa.Field:
		return stableValue(x.X, depth+1)
	}
	return false
}

// domFacts: the texts of the branch outcomes (over stable values) that hold whenever control is in b.
func (r *Renderer) domFacts(b *ssa.BasicBlock) map[string]bool {
	if m, ok := r.domFactsMemo[b]; ok {
		return m
	}
	if r.domFactsMemo == nil {
		r.domFactsMemo = map[*ssa.BasicBlock]map[string]bool{}
	}
	m := map[string]bool{}
	r.domFactsMemo[b] = m
	for d := b; d != nil && d.Idom() != nil; d = d.Idom() {
		id := d.Idom()
		if len(d.Preds) != 1 || d.Preds[0] != id || len(id.Succs) != 2 || id.Succs[0] == id.Succs[1] {
			continue
		}
		iff, ok := id.Instrs[len(id.Instrs)-1].(*ssa.If)
		if !ok || !stableValue(iff.Cond, 0) {
			continue
		}
		if r.blockReach(id)[id] {
			continue // inside a loop the same text is a new evaluation each time round
		}
		if id.Succs[0] == d {
			m[posFact(r, iff.Cond)] = true
		} else {
			m[negateFact(r, iff.Cond)] = true
		}
	}
	return m
}

// contradictedEdge: block b branches on a condition whose other outcome is already established on every way into b:
// returns the index of the successor that cannot be taken, or -1.
func (r *Renderer) contradictedEdge(b *ssa.BasicBlock) int {
	if v, ok := r.contraMemo[b]; ok {
		return v
	}
	if r.inContra {
		return -1 // asked while the facts themselves are being rendered: no answer (never memoised)
	}
	r.inContra = true
	v := r.contradictedEdge1(b)
	r.inContra = false
	if r.contraMemo == nil {
		r.contraMemo = map[*ssa.BasicBlock]int{}
	}
	r.contraMemo[b] = v
	return v
}

func (r *Renderer) contradictedEdge1(b *ssa.BasicBlock) int {
	if len(b.Instrs) == 0 || len(b.Succs) != 2 || b.Succs[0] == b.Succs[1] {
		return -1
	}
	iff, ok := b.Instrs[len(b.Instrs)-1].(*ssa.If)
	if !ok || !stableValue(iff.Cond, 0) || r.blockReach(b)[b] {
		return -1
	}
	facts := r.domFacts(b)
	if len(facts) == 0 {
		return -1
	}
	pos, neg := posFact(r, iff.Cond), negateFact(r, iff.Cond)
	switch {
	case facts[pos] && !facts[neg]:
		return 1
	case facts[neg] && !facts[pos]:
		return 0
	}
	return -1
}

// deadEdge: the transition from → to is the outcome of a nil test that is fixed the other way.
func deadEdge(from, to *ssa.BasicBlock) bool {
	i := staticNilBranch(from)
	return i >= 0 && i < len(from.Succs) && from.Succs[i] == to && from.Succs[1-i] != to
}

// edgePruned: seen from the current use site, edge k of φ ph is never the one taken: the transition into the φ's
// block requires an outcome of a branch condition that contradicts the outcome the use site is guarded by.
func (r *Renderer) edgePruned(ph *ssa.Phi, k int) bool {
	if r.cur == nil || r.cur.Block() == nil || ph.Block() == nil || r.cur.Parent() != ph.Parent() || k >= len(ph.Block().Preds) {
		return false
	}
	use := r.condsAt(r.cur.Block())
	if len(use) == 0 {
		return false
	}
	pred := ph.Block().Preds[k]
	if c, val, ok := r.branchCond(pred, ph.Block()); ok {
		if u, known := use[c]; known && u != val {
			r.pruneCount++
			return true
		}
	}
	for c, val := range r.condsAt(pred) {
		if u, known := use[c]; known && u != val {
			r.pruneCount++
			return true
		}
	}
	return false
}

func (r *Renderer) anyEdgePruned(ph *ssa.Phi) bool {
	for k := range ph.Edges {
		if r.edgePruned(ph, k) {
			return true
		}
	}
	return false
}

// structCopySource: the local struct variable a whole store copies from (`*a = *src`).
func structCopySource(w *ssa.Store) *ssa.Alloc {
	u, ok := w.Val.(*ssa.UnOp)
	if !ok || u.Op != token.MUL {
		return nil
	}
	src, ok := u.X.(*ssa.Alloc)
	if !ok {
		return nil
	}
	if _, isStruct := src.Type().(*types.Pointer).Elem().Underlying().(*types.Struct); !isStruct {
		return nil
	}
	return src
}

func (r *Renderer) hasStructCopy(live []ssa.Instruction) bool {
	for _, st := range live {
		if w, ok := st.(*ssa.Store); ok && structCopySource(w) != nil {
			if len(r.fieldStores[structCopySource(w)]) > 0 {
				return true
			}
		}
	}
	return false
}

func (r *Renderer) wholeStoreBetween(a *ssa.Alloc, s *ssa.Store, l ssa.Instruction) bool {
	for _, w := range r.wholeStores[a] {
		if r.instrReaches(s, w) && r.instrReaches(w, l) {
			return true
		}
	}
	return false
}

func instrIndex(in ssa.Instruction) int {
	for i, x := range in.Block().Instrs {
		if x == in {
			return i
		}
	}
	return -1
}

func instrDominates(a, b ssa.Instruction) bool {
	if a.Block() == b.Block() {
		return instrIndex(a) < instrIndex(b)
	}
	return a.Block().Dominates(b.Block())
}

func (r *Renderer) blockReach(from *ssa.BasicBlock) map[*ssa.BasicBlock]bool {
	if r.reach == nil {
		r.reach = map[*ssa.BasicBlock]map[*ssa.BasicBlock]bool{}
	}
	if m, ok := r.reach[from]; ok {
		return m
	}
	m := map[*ssa.BasicBlock]bool{}
	var walk func(b *ssa.BasicBlock)
	walk = func(b *ssa.BasicBlock) {
		for _, s := range b.Succs {
			if !m[s] {
				m[s] = true
				walk(s)
			}
		}
	}
	walk(from)
	r.reach[from] = m
	return m
}

// instrReaches: can control flow from a (after it executed) to b?
func (r *Renderer) instrReaches(a, b ssa.Instruction) bool {
	if a.Block() == b.Block() && instrIndex(a) < instrIndex(b) {
		return true
	}
	return r.blockReach(a.Block())[b.Block()]
}

// arrayLit renders `slice t[:]` of a local array whose elements are stored one by
// one (variadic arguments and slice literals) as [e0, e1, ...].
func (r *Renderer) arrayLit(x *ssa.Slice) (string, bool) {
	a, ok := x.X.(*ssa.Alloc)
	if !ok || x.Low != nil || x.High != nil {
		return "", false
	}
	at, ok := a.Type().(*types.Pointer).Elem().Underlying().(*types.Array)
	if !ok || at.Len() > 64 {
		return "", false
	}
	elems := make([]string, at.Len())
	for i := range elems {
		elems[i] = "_"
	}
	for _, ref := range *a.Referrers() {
		switch u := ref.(type) {
		case *ssa.IndexAddr:
			c, ok := u.Index.(*ssa.Const)
			if !ok {
				return "", false
			}
			idx, _ := constant.Int64Val(c.Value)
			for _, rr := range *u.Referrers() {
				st, ok := rr.(*ssa.Store)
				if !ok || st.Addr != u {
					return "", false
				}
				if idx >= 0 && int(idx) < len(elems) {
					elems[idx] = r.E(st.Val)
				}
			}
		case *ssa.Slice:
		default:
			return "", false
		}
	}
	return "[" + strings.Join(elems, ", ") + "]", true
}

// storeReachesLoad: is there a path from store s to load l on which neither the
// whole variable nor the same field is overwritten?
func (r *Renderer) storeReachesLoad(s *ssa.Store, l ssa.Instruction, a *ssa.Alloc, path string) bool {
	kill := func(in ssa.Instruction) bool {
		st, ok := in.(*ssa.Store)
		if !ok || st == s {
			return false
		}
		ra, rp := rootAlloc(st.Addr)
		return ra == a && (rp == "" || rp == path)
	}
	ps := &PathSearch{Fn: r.fn, From: s, AvoidInstr: kill, IsTarget: func(in ssa.Instruction) bool { return in == l }}
	t, _ := ps.Find()
	return t != nil
}

// originReaches: can the load observe the value the variable had when it was
// (whole-)assigned / created, i.e. is there a path from a whole store (or the
// alloc itself) to the load without a store to this field?
func (r *Renderer) originReaches(l ssa.Instruction, a *ssa.Alloc, path string) bool {
	return len(r.liveOrigins(l, a, path)) > 0
}

// liveOrigins: the whole stores to a (and a's creation) from which l is reachable without a store to this
// field and without another whole store.
func (r *Renderer) liveOrigins(l ssa.Instruction, a *ssa.Alloc, path string) []ssa.Instruction {
	kill := func(in ssa.Instruction) bool {
		st, ok := in.(*ssa.Store)
		if !ok {
			return false
		}
		ra, rp := rootAlloc(st.Addr)
		return ra == a && rp == path
	}
	starts := []ssa.Instruction{a}
	for _, w := range r.wholeStores[a] {
		starts = append(starts, w)
	}
	var out []ssa.Instruction
	for _, st := range starts {
		st := st
		ps := &PathSearch{Fn: r.fn, From: st, AvoidInstr: func(in ssa.Instruction) bool {
			if kill(in) {
				return true
			}
			// another whole store restarts the origin: handled as its own start
			if s2, ok := in.(*ssa.Store); ok && s2 != st {
				if ra, rp := rootAlloc(s2.Addr); ra == a && rp == "" {
					return true
				}
			}
			return false
		}, IsTarget: func(in ssa.Instruction) bool { return in == l }}
		if t, _ := ps.Find(); t != nil {
			out = append(out, st)
		}
	}
	return out
}

func isFloat(t types.Type) bool {
	b, ok := t.Underlying().(*types.Basic)
	return ok && b.Info()&types.IsFloat != 0
}

// pureCall: the result depends only on the (immutable) argument values, so two
// call instructions with equal rendered arguments denote the same value.
// Everything else (store reads, methods on mutable objects such as bitmaps,
// readers, decoders) is treated as a fresh value per call instruction.
func pureCall(c *ssa.CallCommon) bool {
	if b, ok := c.Value.(*ssa.Builtin); ok {
		switch b.Name() {
		case "len", "cap", "min", "max":
			return true
		}
		return false
	}
	f := calleeFunc(c)
	if f == nil {
		return false
	}
	name := funcShort(f)
	pkg := ""
	if f.Pkg() != nil {
		pkg = f.Pkg().Path()
	}
	sig := f.Type().(*types.Signature)
	if sig.Recv() != nil {
		// generated protobuf getters and the vote-message interface of the repository
		if strings.HasPrefix(pkg, modPath) && (strings.HasPrefix(f.Name(), "Get") || f.Name() == "MethodName" || f.Name() == "VoteSigDoc" || f.Name() == "Threshold" || f.Name() == "SignDoc" || f.Name() == "CMPubkey") {
			return true
		}
		switch name {
		case "Context.ChainID", "Context.BlockTime", "Context.BlockHeight", "Context.HeaderHash", "Context.ExecMode", "Context.CometInfo", "Context.VoteInfos",
			"Context.EventManager", "Context.ConsensusParams", "BlockInfo.GetProposerAddress", "BlockInfo.GetEvidence", "error.Error",
			"Int.IsZero", "Int.LT", "Int.GT", "Int.GTE", "Int.LTE", "Int.Equal", "Int.IsNegative", "Int.IsUint64", "Int.Uint64", "Int.Abs",
			"Address.Bytes", "Hash.Bytes", "Time.Add", "Time.Sub", "Time.After", "Time.Before", "Coins.AmountOf", "Coins.IsAllGTE", "ConsAddress.Bytes":
			return true
		}
		return false
	}
	switch {
	case pkg == modPath+"/pkg/crypto":
		return true
	case name == "relayer/types.EncodePublicKey", name == "relayer/types.VoteSignDoc", name == "collections.Join", name == "bytes.Equal", name == "slices.Equal",
		name == "cosmos-sdk/types.UnwrapSDKContext", name == "locking/types.TokenDenom", name == "locking/types.ValidatorName",
		name == "common.BytesToHash", name == "common.BytesToAddress", name == "sdkmath.NewIntFromUint64", name == "sdkmath.NewIntFromBigInt",
		name == "sdkmath.LegacyNewDec", name == "sdkmath.LegacyNewDecFromInt", name == "sdkmath.ZeroInt", name == "cosmos-sdk/types.NewCoin":
		return true
	}
	return false
}

func isConstIntVal(v ssa.Value, n int64) bool {
	c, ok := v.(*ssa.Const)
	if !ok || c.Value == nil {
		return false
	}
	i, ok := constant.Int64Val(constant.ToInt(c.Value))
	return ok && i == n
}

func isRangeCounter(x *ssa.Phi) bool {
	if len(x.Edges) < 2 {
		return false
	}
	init, back := 0, 0
	for _, e := range x.Edges {
		if isConstIntVal(e, -1) {
			init++
		} else if bo, ok := e.(*ssa.BinOp); ok && bo.Op == token.ADD && bo.X == ssa.Value(x) && isConstIntVal(bo.Y, 1) {
			back++
		}
	}
	return init == 1 && init+back == len(x.Edges)
}

// nonNeg: the value can never be negative (len/cap results, unsigned integers).
func nonNeg(v ssa.Value) bool {
	if c, ok := v.(*ssa.Call); ok {
		if b, ok := c.Call.Value.(*ssa.Builtin); ok && (b.Name() == "len" || b.Name() == "cap") {
			return true
		}
	}
	if cv, ok := v.(*ssa.Convert); ok && isFloat(cv.Type()) == isFloat(cv.X.Type()) {
		if bt, ok := cv.Type().Underlying().(*types.Basic); ok && bt.Info()&types.IsUnsigned != 0 {
			return true
		}
	}
	if bt, ok := v.Type().Underlying().(*types.Basic); ok && bt.Info()&types.IsUnsigned != 0 {
		return true
	}
	// a loop counter that starts at a non-negative constant and only grows (the index of a range loop, `i := 0; …; i++`)
	isPosStep := func(e ssa.Value, ph *ssa.Phi) bool {
		bo, ok := e.(*ssa.BinOp)
		if !ok || bo.Op != token.ADD {
			return false
		}
		c, ok := bo.Y.(*ssa.Const)
		return ok && bo.X == ssa.Value(ph) && c.Value != nil && c.Value.Kind() == constant.Int && constant.Sign(c.Value) > 0
	}
	counter := func(ph *ssa.Phi, min int64) bool {
		for _, e := range ph.Edges {
			if c, ok := e.(*ssa.Const); ok && c.Value != nil && c.Value.Kind() == constant.Int {
				if i, exact := constant.Int64Val(c.Value); exact && i >= min {
					continue
				}
				return false
			}
			if !isPosStep(e, ph) {
				return false
			}
		}
		return len(ph.Edges) > 0
	}
	switch x := v.(type) {
	case *ssa.Phi:
		return counter(x, 0)
	case *ssa.BinOp:
		// the index of a range loop is its hidden counter (from -1) plus one
		if ph, ok := x.X.(*ssa.Phi); ok && x.Op == token.ADD && isConstIntVal(x.Y, 1) {
			return counter(ph, -1)
		}
	}
	return false
}

// bigCmp: v is (*big.Int).Cmp(a, b) → (a, b)
func bigCmp(v ssa.Value) (ssa.Value, ssa.Value, bool) {
	c, ok := v.(*ssa.Call)
	if !ok {
		return nil, nil, false
	}
	f := calleeFunc(&c.Call)
	if f == nil || f.FullName() != "(*math/big.Int).Cmp" || len(c.Call.Args) != 2 {
		return nil, nil, false
	}
	return c.Call.Args[0], c.Call.Args[1], true
}

// cmp renders a binary operation; comparisons are brought into one canonical spelling:
//   - a.Cmp(b) OP 0 on big integers becomes a OP b,
//   - for values that cannot be negative, x<1, x<=0 become 0==x and 0<x, 1<=x become 0!=x,
//   - > and >= are mirrored, operands of == and != sorted.
func (r *Renderer) cmp(op token.Token, x, y ssa.Value) string {
	switch op {
	case token.EQL, token.NEQ, token.LSS, token.LEQ, token.GTR, token.GEQ:
	default:
		return r.binop(op, r.E(x), r.E(y))
	}
	if a, b, ok := bigCmp(x); ok && isConstIntVal(y, 0) {
		return r.cmp(op, a, b)
	}
	if a, b, ok := bigCmp(y); ok && isConstIntVal(x, 0) {
		return r.cmp(mirror(op), a, b)
	}
	// mirror so that the operator is one of == != < <=
	if op == token.GTR || op == token.GEQ {
		op, x, y = mirror(op), y, x
	}
	switch {
	case op == token.LSS && isConstIntVal(y, 1) && nonNeg(x), op == token.LEQ && isConstIntVal(y, 0) && nonNeg(x):
		return r.binop(token.EQL, "0", r.E(x))
	case op == token.LSS && isConstIntVal(x, 0) && nonNeg(y), op == token.LEQ && isConstIntVal(x, 1) && nonNeg(y):
		return r.binop(token.NEQ, "0", r.E(y))
	}
	// a single bit compared with 1 is the bit compared with 0 the other way: (1 & v) == 1 ≡ (1 & v) != 0
	if (op == token.EQL || op == token.NEQ) && (isConstIntVal(y, 1) && isLowBit(x) || isConstIntVal(x, 1) && isLowBit(y)) {
		bit := x
		if isConstIntVal(x, 1) {
			bit = y
		}
		nop := token.NEQ
		if op == token.NEQ {
			nop = token.EQL
		}
		return r.binop(nop, r.E(bit), "0")
	}
	sx, sy := r.E(x), r.E(y)
	// c1 + A OP c2 + B on Go ints (lengths, counts: no wrap-around in reach): the smaller constant is cancelled
	if isGoInt(x.Type()) && isGoInt(y.Type()) {
		if cx, rx, ok1 := splitConstAddend(sx); ok1 {
			if cy, ry, ok2 := splitConstAddend(sy); ok2 {
				m := cx
				if cy < m {
					m = cy
				}
				sx, sy = withAddend(cx-m, rx), withAddend(cy-m, ry)
			}
		}
	}
	return r.binop(op, sx, sy)
}

// isLowBit: v is (w & 1).
func isLowBit(v ssa.Value) bool {
	b, ok := v.(*ssa.BinOp)
	return ok && b.Op == token.AND && (isConstIntVal(b.X, 1) || isConstIntVal(b.Y, 1))
}

func isGoInt(t types.Type) bool {
	b, ok := t.Underlying().(*types.Basic)
	return ok && b.Kind() == types.Int
}

var constAddendRe = regexp.MustCompile(`^\((-?\d+) \+ (.*)\)$`)

// splitConstAddend: "(c + rest)" with an integer constant c and a balanced rest.
func splitConstAddend(s string) (int64, string, bool) {
	m := constAddendRe.FindStringSubmatch(s)
	if m == nil || !balancedTop(m[2]) {
		return 0, "", false
	}
	c, err := strconv.ParseInt(m[1], 10, 64)
	if err != nil {
		return 0, "", false
	}
	return c, m[2], true
}

func withAddend(c int64, rest string) string {
	if c == 0 {
		return rest
	}
	return "(" + strconv.FormatInt(c, 10) + " + " + rest + ")"
}

func mirror(op token.Token) token.Token {
	switch op {
	case token.LSS:
		return token.GTR
	case token.GTR:
		return token.LSS
	case token.LEQ:
		return token.GEQ
	case token.GEQ:
		return token.LEQ
	}
	return op
}

func negOp(op token.Token) token.Token {
	switch op {
	case token.EQL:
		return token.NEQ
	case token.NEQ:
		return token.EQL
	case token.LSS:
		return token.GEQ
	case token.GEQ:
		return token.LSS
	case token.GTR:
		return token.LEQ
	case token.LEQ:
		return token.GTR
	}
	return op
}

var argTokRe = regexp.MustCompile(`\$(\d+)`)

var inlineActive = map[*ssa.Function]bool{}

// sliceSearch: the standard-library searches over a slice are rendered as quantifier forms that do
// not depend on how the predicate is packaged (closure, named function, value comparison):
//
//	slices.ContainsFunc(xs, f) → any(xs, BODY)    slices.Contains(xs, v) → any(xs, (· == v))
//	slices.IndexFunc(xs, f)    → index(xs, BODY)  slices.Index(xs, v)    → index(xs, (· == v))
//
// BODY is the predicate's returned expression with its parameter written `·` and captured
// variables written as the enclosing function sees them.
func (r *Renderer) sliceSearch(call *ssa.Call) (string, bool) {
	f := calleeFunc(&call.Call)
	if f == nil || f.Pkg() == nil || f.Pkg().Path() != "slices" || len(call.Call.Args) != 2 {
		return "", false
	}
	q := ""
	switch f.Name() {
	case "ContainsFunc", "Contains":
		q = "any"
	case "IndexFunc", "Index":
		q = "index"
	default:
		return "", false
	}
	xs := r.E(call.Call.Args[0])
	if f.Name() == "Contains" || f.Name() == "Index" {
		return q + "(" + xs + ", " + r.binop(token.EQL, "·", r.E(call.Call.Args[1])) + ")", true
	}
	var pf *ssa.Function
	switch p := call.Call.Args[1].(type) {
	case *ssa.MakeClosure:
		pf, _ = p.Fn.(*ssa.Function)
	case *ssa.Function:
		pf = p
	}
	if pf == nil || pf.Blocks == nil || len(pf.Params) != 1 || r.inlineDepth >= 2 {
		return "", false
	}
	pr := r.p.RBound(pf, []string{"·"}, r.inlineDepth+1)
	var alts []string
	for _, b := range pf.Blocks {
		if ret, ok := b.Instrs[len(b.Instrs)-1].(*ssa.Return); ok && len(ret.Results) == 1 {
			alts = append(alts, strings.ReplaceAll(pr.E(ret.Results[0]), "^", ""))
		}
	}
	alts = dedupe(alts)
	if len(alts) != 1 {
		return "", false
	}
	return q + "(" + xs + ", " + alts[0] + ")", true
}

// pbGetter: a generated protobuf getter `m.GetF()` of a repository message whose struct has a
// field F of the result type is the field read `m.F` (the getter only adds a nil-receiver
// default): both spellings render the same.
func (r *Renderer) pbGetter(call *ssa.Call) (string, bool) {
	g := call.Call.StaticCallee()
	if g == nil || g.Signature.Recv() == nil || len(call.Call.Args) != 1 || !strings.HasPrefix(g.Name(), "Get") || len(g.Name()) < 4 {
		return "", false
	}
	if !isProdPkgFn(g) || !r.p.isGenerated(g) || g.Signature.Results().Len() != 1 {
		return "", false
	}
	pt, ok := g.Signature.Recv().Type().(*types.Pointer)
	if !ok {
		return "", false
	}
	st, ok := pt.Elem().Underlying().(*types.Struct)
	if !ok {
		return "", false
	}
	want := g.Name()[3:]
	for i := 0; i < st.NumFields(); i++ {
		f := st.Field(i)
		if f.Name() == want && types.Identical(f.Type(), g.Signature.Results().At(0).Type()) {
			return r.E(call.Call.Args[0]) + "." + want, true
		}
	}
	return "", false
}

// inlineHelper: the value of result `idx` (-1: the single result) of a call to an unexported
// repository helper is rendered as the helper's returned expression(s) with the parameters
// replaced by the arguments: extracting a computation into a private function does not change
// how the value is seen. Error results, closures, recursive and exported functions are not inlined.
func (r *Renderer) inlineHelper(call *ssa.Call, idx int) (string, bool) {
	if r.noInline || r.inlineDepth >= 2 {
		return "", false
	}
	g := call.Call.StaticCallee()
	if g == nil || g.Blocks == nil || g.Parent() != nil || g == r.fn || !isProdPkgFn(g) {
		return "", false
	}
	o, ok := g.Object().(*types.Func)
	if !ok || (o.Exported() && knownAPI[FuncKey(g)]) || r.p.isGenerated(g) {
		return "", false
	}
	res := g.Signature.Results()
	k := idx
	if idx < 0 {
		if res.Len() != 1 {
			return "", false
		}
		k = 0
	}
	if k >= res.Len() || types.Identical(res.At(k).Type(), errorType) {
		return "", false
	}
	// helpers that write state are calls, not values — except for a result extracted from a
	// (value, error) tuple: the call itself still shows as a call, the extracted value is what the helper returns
	if r.p.mayWrite()[g] && idx < 0 {
		return "", false
	}
	if inlineActive[g] {
		return "", false
	}
	inlineActive[g] = true
	defer delete(inlineActive, g)
	bind := make([]string, len(call.Call.Args))
	for i, a := range call.Call.Args {
		bind[i] = r.E(a)
	}
	gr := r.p.RBound(g, bind, r.inlineDepth+1)
	var alts []string
	for _, e := range Exits(g) {
		if e.Kind == exitFailure || k >= len(e.Ret.Results) {
			continue
		}
		v := e.Ret.Results[k]
		if sv := spilledValue(v, e.Ret); sv != nil {
			v = sv
		}
		alts = append(alts, gr.E(v))
	}
	if len(alts) == 0 {
		return "", false
	}
	// merge with nested alternatives: φ{a|φ{b|c}} written flat
	var flat []string
	for _, a := range alts {
		if strings.HasPrefix(a, "φ{") && strings.HasSuffix(a, "}") && !strings.Contains(a, "@") && balancedTop(a[len("φ{"):len(a)-1]) {
			flat = append(flat, splitTop(a[len("φ{"):len(a)-1])...)
		} else {
			flat = append(flat, a)
		}
	}
	flat = dedupe(flat)
	if len(flat) == 1 {
		return flat[0], true
	}
	return "φ{" + strings.Join(flat, "|") + "}", true
}

// splitTop splits a φ body at top-level '|' (not inside parentheses, brackets or braces).
func splitTop(s string) []string {
	var out []string
	depth, start := 0, 0
	for i, ch := range s {
		switch ch {
		case '(', '[', '{':
			depth++
		case ')', ']', '}':
			depth--
		case '|':
			if depth == 0 {
				out = append(out, s[start:i])
				start = i + 1
			}
		}
	}
	return append(out, s[start:])
}

func balancedTop(s string) bool {
	depth := 0
	for _, ch := range s {
		switch ch {
		case '(', '[', '{':
			depth++
		case ')', ']', '}':
			depth--
			if depth < 0 {
				return false
			}
		}
	}
	return depth == 0
}
