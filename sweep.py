#!/usr/bin/env python3
"""sweep.py [--only mutants|seeded|benign] [--match substr]: development aid (not a registered check).
Runs the checker ONCE per patch of the three corpora with -prop all (overlay on /repo's current tree) and
compares with what is expected: a mutant of property P / a seed naming P must be reported by P; a benign or
*.silent patch must be reported by nobody. Prints one line per deviation and a summary."""
import sys, os, json, glob, subprocess, tempfile, shutil, re, time
from concurrent.futures import ThreadPoolExecutor

VERIF = os.path.dirname(os.path.abspath(__file__))
REPO = os.environ.get("VERIF_REPO", "/repo")
BIN = os.environ.get("GOATVERIF_BIN") or os.path.join(VERIF, "bin", "goatverif")
only = None
match = None
args = sys.argv[1:]
while args:
    a = args.pop(0)
    if a == "--only":
        only = args.pop(0)
    elif a == "--match":
        match = args.pop(0)

items = []  # (name, patch, expect_props or None for silent)
if only in (None, "mutants"):
    for f in sorted(glob.glob(os.path.join(VERIF, "mutants", "C*", "*.patch"))):
        prop = os.path.basename(os.path.dirname(f))
        items.append(("mutants/%s/%s" % (prop, os.path.basename(f)), f, None if f.endswith(".silent.patch") else [prop]))
if only in (None, "seeded"):
    for d in sorted(glob.glob(os.path.join(VERIF, "seeded", "*"))):
        meta, patch = os.path.join(d, "meta.json"), os.path.join(d, "patch.diff")
        if os.path.exists(meta) and os.path.exists(patch):
            m = json.load(open(meta))
            items.append(("seeded/" + os.path.basename(d), patch, [m["property"]] + list(m.get("also_checked_by", []))))
if only in (None, "benign"):
    for f in sorted(glob.glob(os.path.join(VERIF, "benign", "*.silent.patch"))):
        items.append(("benign/" + os.path.basename(f), f, None))
if match:
    items = [i for i in items if match in i[0]]

def run(item):
    name, patch, expect = item
    tmp = tempfile.mkdtemp(prefix="goatverif-sweep-")
    try:
        r = subprocess.run([sys.executable, os.path.join(VERIF, "mkoverlay.py"), patch, os.path.join(tmp, "ov"), REPO], capture_output=True, text=True)
        if r.returncode != 0:
            return name, "SKIPPED", "patch does not apply"
        os.makedirs(os.path.join(tmp, "t"))
        env = dict(os.environ, TMPDIR=os.path.join(tmp, "t"), GOMAXPROCS="4")
        r = subprocess.run([BIN, "-repo", REPO, "-overlay", os.path.join(tmp, "ov"), "-verif", VERIF, "-prop", "all", "-no-evidence"], capture_output=True, text=True, env=env)
        if r.returncode == 2:
            return name, "INFRA", (r.stdout + r.stderr)[-400:].replace("\n", " | ")
        hits = {}
        for l in r.stdout.splitlines():
            if l.startswith("VIOLATION "):
                m = re.search(r"property=(\S+).*rule=(\S+) construct=\"([^\"]*)\"", l)
                if m:
                    hits.setdefault(m.group(1), []).append(m.group(2) + " " + m.group(3))
        if expect is None:
            if hits:
                return name, "FALSE-ALARM", "; ".join("%s/%s" % (p, h) for p, hs in sorted(hits.items()) for h in hs[:2])[:600]
            return name, "silent-ok", ""
        missing = [p for p in expect if p not in hits]
        if missing:
            return name, "MISSED", "not reported by " + ",".join(missing) + (" (reported by " + ",".join(sorted(hits)) + ")" if hits else "")
        return name, "caught", "; ".join("%s/%s" % (p, hits[p][0]) for p in expect)[:300]
    finally:
        shutil.rmtree(tmp, ignore_errors=True)

t0 = time.time()
with ThreadPoolExecutor(max_workers=int(os.environ.get("SWEEP_JOBS", "8"))) as ex:
    res = list(ex.map(run, items))
cnt = {}
for name, st, detail in res:
    cnt[st] = cnt.get(st, 0) + 1
    if st not in ("caught", "silent-ok") or os.environ.get("SWEEP_VERBOSE"):
        print("%-12s %s %s" % (st, name, detail))
print("SWEEP %d patches in %.0fs: %s" % (len(res), time.time() - t0, ", ".join("%s=%d" % kv for kv in sorted(cnt.items()))))
