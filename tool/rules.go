package main

import (
	"fmt"
	"go/types"
	"regexp"
	"strings"

	"golang.org/x/tools/go/ssa"
)

type instrPred func(ssa.Instruction) bool

// CallStr renders a call instruction (value or not) canonically.
func (p *Prog) CallStr(ci ssa.CallInstruction) string {
	if c, ok := ci.(*ssa.Call); ok {
		return p.R(ci.Parent()).E(c)
	}
	return p.R(ci.Parent()).call(ci.Common())
}

// successTargets: predicate for the success exits of fn.
func successTargets(fn *ssa.Function) instrPred { return instrSet(SuccessExits(fn)) }

// implicitSuccessFact: `return f(...)` as the error (or bool) result: on the success
// interpretation of that exit the fact (f(...) == nil) / f(...) holds.
func (p *Prog) implicitSuccessFact(ret *ssa.Return) string {
	if len(ret.Results) == 0 {
		return ""
	}
	op := ret.Results[len(ret.Results)-1]
	if sv := spilledValue(op, ret); sv != nil {
		op = sv
	}
	r := p.R(ret.Parent())
	if types.Identical(op.Type(), errorType) {
		if _, isConst := op.(*ssa.Const); isConst {
			return ""
		}
		return EQ(r.E(op), "nil")
	}
	if b, ok := op.Type().Underlying().(*types.Basic); ok && b.Kind() == types.Bool {
		if _, isConst := op.(*ssa.Const); isConst {
			return ""
		}
		return posFact(r, op)
	}
	return ""
}

// successTargetsFor: success exits of fn, except those that return a call result
// directly and whose implicit success fact matches the pattern.
func (p *Prog) successTargetsFor(fn *ssa.Function, re *regexp.Regexp) instrPred {
	var out []ssa.Instruction
	for _, e := range Exits(fn) {
		if e.Kind == exitFailure {
			continue
		}
		if e.Kind == exitMaybe {
			if f := p.implicitSuccessFact(e.Ret); f != "" && (re.MatchString(f) || p.callImplies(fn, e.Ret.Results[len(e.Ret.Results)-1], re, 2)) {
				continue
			}
		}
		out = append(out, e.Ret)
	}
	return instrSet(out)
}

// RequireFact: every path from fn's entry to a target instruction takes an edge
// whose canonical fact matches pattern. Decided by deleting the matching edges
// from the CFG and searching for a remaining path (the witness).
func (c *Check) RequireFact(fn *ssa.Function, rule, name, pattern string, target instrPred, targetDesc string) bool {
	c.touch(fn)
	construct := name + " @ " + FuncKey(fn)
	re, err := regexp.Compile(pattern)
	if err != nil {
		infraFail("bad pattern %q: %v", pattern, err)
	}
	edges := c.p.MatchEdges(fn, re)
	if target == nil {
		target = c.p.successTargetsFor(fn, re)
		targetDesc = "success exit"
	} else {
		found := false
		for _, b := range fn.Blocks {
			for _, in := range b.Instrs {
				if target(in) {
					found = true
				}
			}
		}
		if !found {
			c.Violated(rule, construct, c.p.Pos(fn.Pos()), "the "+targetDesc+" this obligation is about was not found in the function reason=not-established")
			return false
		}
	}
	avoid := map[edgeKey]bool{}
	for _, e := range edges {
		avoid[e.Key()] = true
	}
	ps := &PathSearch{Fn: fn, AvoidEdges: avoid, IsTarget: target}
	t, path := ps.Find()
	if t == nil {
		pos := c.p.Pos(fn.Pos())
		detail := "fact on every path to " + targetDesc + " (implied by the returned call)"
		if len(edges) > 0 {
			pos = c.p.InstrPos(edges[0].Block.Instrs[len(edges[0].Block.Instrs)-1])
			detail = fmt.Sprintf("fact %q on every path to %s (%d edge(s))", edges[0].Fact, targetDesc, len(edges))
		}
		c.Held(rule, construct, pos, detail)
		return true
	}
	if len(edges) == 0 {
		c.Violated(rule, construct, c.p.Pos(fn.Pos()), "no branch establishes the fact /"+pattern+"/ reason=not-established")
		return false
	}
	c.Violated(rule, construct, c.p.InstrPos(t), fmt.Sprintf("a path reaches %s without establishing /%s/", targetDesc, pattern), c.p.describePath(path)...)
	return false
}

// RequireCall: every path from entry to a target passes a call whose rendering matches pattern.
func (c *Check) RequireCall(fn *ssa.Function, rule, name, pattern string, target instrPred, targetDesc string) bool {
	c.touch(fn)
	construct := name + " @ " + FuncKey(fn)
	re := regexp.MustCompile(pattern)
	var matched []ssa.Instruction
	for _, ci := range callsIn(fn) {
		if _, isDefer := ci.(*ssa.Defer); isDefer {
			continue
		}
		if re.MatchString(c.p.CallStr(ci)) {
			matched = append(matched, ci)
		} else if c.p.helperAlwaysCalls(fn, ci, re) {
			matched = append(matched, ci) // the call is made by a helper on each of its success paths
		}
	}
	if target == nil {
		target = successTargets(fn)
		targetDesc = "success exit"
	}
	if len(matched) == 0 {
		c.Violated(rule, construct, c.p.Pos(fn.Pos()), "no call matches /"+pattern+"/ reason=not-established")
		return false
	}
	isM := instrSet(matched)
	ps := &PathSearch{Fn: fn, AvoidInstr: isM, IsTarget: target}
	if t, path := ps.Find(); t != nil {
		c.Violated(rule, construct, c.p.InstrPos(t), fmt.Sprintf("a path reaches %s without the call /%s/", targetDesc, pattern), c.p.describePath(path)...)
		return false
	}
	c.Held(rule, construct, c.p.InstrPos(matched[0]), fmt.Sprintf("call %q on every path to %s", c.p.CallStr(matched[0].(ssa.CallInstruction)), targetDesc))
	return true
}

// RequireCallee: every path from entry to a success exit of fn passes a call that resolves statically to
// the function with key calleeKey.
func (c *Check) RequireCallee(fn *ssa.Function, rule, name, calleeKey string) bool {
	c.touch(fn)
	construct := name + " @ " + FuncKey(fn)
	var matched []ssa.Instruction
	for _, ci := range callsIn(fn) {
		if _, isDefer := ci.(*ssa.Defer); isDefer {
			continue
		}
		if _, isGo := ci.(*ssa.Go); isGo {
			continue
		}
		if g := ci.Common().StaticCallee(); g != nil && FuncKey(g) == calleeKey {
			matched = append(matched, ci)
		}
	}
	if len(matched) == 0 {
		c.Violated(rule, construct, c.p.Pos(fn.Pos()), "no call of "+calleeKey+" reason=not-established")
		return false
	}
	ps := &PathSearch{Fn: fn, AvoidInstr: instrSet(matched), IsTarget: successTargets(fn)}
	if t, path := ps.Find(); t != nil {
		c.Violated(rule, construct, c.p.InstrPos(t), "a path reaches a success exit without calling "+calleeKey, c.p.describePath(path)...)
		return false
	}
	c.Held(rule, construct, c.p.InstrPos(matched[0]), "called on every path to a success exit")
	return true
}

// alwaysCalls: every path from entry to a success exit of fn passes a call that resolves statically to the function with
// key targetKey, or to a repository function that itself always calls it (depth levels down).
func (p *Prog) alwaysCalls(fn *ssa.Function, targetKey string, depth int, seen map[*ssa.Function]bool) (bool, ssa.Instruction, ssa.Instruction, []*ssa.BasicBlock) {
	if seen[fn] || len(fn.Blocks) == 0 {
		return false, nil, nil, nil
	}
	seen[fn] = true
	defer delete(seen, fn)
	var matched []ssa.Instruction
	for _, ci := range callsIn(fn) {
		if _, isDefer := ci.(*ssa.Defer); isDefer {
			continue
		}
		if _, isGo := ci.(*ssa.Go); isGo {
			continue
		}
		g := ci.Common().StaticCallee()
		if g == nil {
			continue
		}
		if FuncKey(g) == targetKey {
			matched = append(matched, ci)
		} else if depth > 0 && p.isRepoFunc(g) {
			if ok, _, _, _ := p.alwaysCalls(g, targetKey, depth-1, seen); ok {
				matched = append(matched, ci)
			}
		}
	}
	if len(matched) == 0 {
		return false, nil, nil, nil
	}
	ps := &PathSearch{Fn: fn, AvoidInstr: instrSet(matched), IsTarget: successTargets(fn)}
	if t, path := ps.Find(); t != nil {
		return false, matched[0], t, path
	}
	return true, matched[0], nil, nil
}

func (p *Prog) isRepoFunc(g *ssa.Function) bool {
	return g.Pkg != nil && g.Pkg.Pkg != nil && strings.HasPrefix(g.Pkg.Pkg.Path(), modPath+"/") && len(g.Blocks) > 0
}

// HookRuns: the block hook runs the step on every path to its success exits — directly or through repository functions
// that always call it (the keeper's hook function in between may be renamed, split or folded into the module hook). A
// hook that skips a step silently disables everything the step is responsible for.
func (c *Check) HookRuns(rule string, chain ...string) {
	hook, target := chain[0], chain[len(chain)-1]
	fn := c.p.MustFn(hook)
	c.touch(fn)
	short := target[strings.LastIndex(target, ".")+1:]
	construct := "hook-runs " + short + " @ " + hook
	ok, first, t, path := c.p.alwaysCalls(fn, target, 3, map[*ssa.Function]bool{})
	switch {
	case ok:
		c.Held(rule, construct, c.p.InstrPos(first), "reached on every path to a success exit of the hook")
	case t != nil:
		c.Violated(rule, construct, c.p.InstrPos(t), "a path reaches a success exit of the hook without running "+target, c.p.describePath(path)...)
	default:
		c.Violated(rule, construct, c.p.Pos(fn.Pos()), "the hook does not run "+target+" on every path to its success exits (looked three calls deep)")
	}
}

// FindCalls returns call instructions whose rendering matches.
func (p *Prog) FindCalls(fn *ssa.Function, pattern string) []ssa.CallInstruction {
	re := regexp.MustCompile(pattern)
	var out []ssa.CallInstruction
	for _, ci := range callsIn(fn) {
		if re.MatchString(p.CallStr(ci)) {
			out = append(out, ci)
		}
	}
	return out
}

// CtxCall is a call found in fn itself or in a transparent helper it calls (rendered with the
// helper's parameters bound to fn's arguments).
type CtxCall struct {
	X    fctx
	Call ssa.CallInstruction
	Str  string
	// Chain: the call sites leading from fn down to the function that contains Call
	// (empty when Call is in fn itself); Chain[0] is an instruction of fn.
	Chain []ssa.CallInstruction
}

// Site0 is the instruction of the searched function itself through which the call happens.
func (cc CtxCall) Site0() ssa.Instruction {
	if len(cc.Chain) > 0 {
		return cc.Chain[0]
	}
	return cc.Call
}

// FindCallsDeep: like FindCalls, also looking into the transparent helpers fn calls (two levels),
// so that moving a call into a private helper does not hide it.
func (p *Prog) FindCallsDeep(fn *ssa.Function, pattern string) []CtxCall {
	re := regexp.MustCompile(pattern)
	var out []CtxCall
	var walk func(x fctx, depth int, seen map[*ssa.Function]bool, chain []ssa.CallInstruction)
	walk = func(x fctx, depth int, seen map[*ssa.Function]bool, chain []ssa.CallInstruction) {
		for _, ci := range callsIn(x.fn) {
			s := ""
			if c, ok := ci.(*ssa.Call); ok {
				s = x.r.E(c)
			} else {
				s = x.r.call(ci.Common())
			}
			if re.MatchString(s) {
				out = append(out, CtxCall{X: x, Call: ci, Str: s, Chain: append([]ssa.CallInstruction(nil), chain...)})
			}
			g := ci.Common().StaticCallee()
			if depth <= 0 || g == nil || seen[g] || !p.transparentHelper(g) {
				continue
			}
			bind := make([]string, len(ci.Common().Args))
			for i, a := range ci.Common().Args {
				bind[i] = x.r.E(a)
			}
			seen[g] = true
			walk(fctx{fn: g, r: p.RBound(g, bind, 1), call: ci, parent: x.fn}, depth-1, seen, append(chain, ci))
			delete(seen, g)
		}
	}
	walk(fctx{fn: fn, r: p.R(fn)}, 2, map[*ssa.Function]bool{fn: true}, nil)
	return out
}

// MatchEdgesDeep: edges whose fact matches re in fn or in the transparent helpers it calls (two
// levels), the helpers' facts rendered in fn's terms.
func (p *Prog) MatchEdgesDeep(fn *ssa.Function, re *regexp.Regexp) []EdgeFact {
	var out []EdgeFact
	var walk func(x fctx, depth int, seen map[*ssa.Function]bool)
	walk = func(x fctx, depth int, seen map[*ssa.Function]bool) {
		for _, ef := range p.edgeFactsWith(x.fn, x.r) {
			if ef.Fact != infeasible && re.MatchString(ef.Fact) {
				out = append(out, ef)
			}
		}
		if depth <= 0 {
			return
		}
		for _, ci := range callsIn(x.fn) {
			g := ci.Common().StaticCallee()
			if g == nil || seen[g] || !p.transparentHelper(g) {
				continue
			}
			bind := make([]string, len(ci.Common().Args))
			for i, a := range ci.Common().Args {
				bind[i] = x.r.E(a)
			}
			seen[g] = true
			walk(fctx{fn: g, r: p.RBound(g, bind, 1), call: ci, parent: x.fn}, depth-1, seen)
			delete(seen, g)
		}
	}
	walk(fctx{fn: fn, r: p.R(fn)}, 2, map[*ssa.Function]bool{fn: true})
	return out
}

// deepIterationCanSkip: cc was found in fn or in a transparent helper. At the level where the
// site sits inside a loop, can an iteration complete without executing it? At helper levels
// where it is not in a loop, can the helper succeed without executing it?
func (p *Prog) deepIterationCanSkip(fn *ssa.Function, cc CtxCall) (bool, []*ssa.BasicBlock) {
	type level struct {
		fn   *ssa.Function
		site ssa.Instruction
	}
	var levels []level
	cur := fn
	for _, c := range cc.Chain {
		levels = append(levels, level{cur, c})
		cur = c.Common().StaticCallee()
	}
	levels = append(levels, level{cur, cc.Call})
	for k, l := range levels {
		if inLoop(l.site.Block()) {
			if skip, path := loopIterationCanSkip(l.fn, l.site); skip {
				return true, path
			}
			continue
		}
		if k > 0 {
			site := l.site
			if t, path := (&PathSearch{Fn: l.fn, AvoidInstr: func(in ssa.Instruction) bool { return in == site }, IsTarget: successTargets(l.fn)}).Find(); t != nil {
				return true, path
			}
		}
	}
	return false, nil
}

func inLoop(b *ssa.BasicBlock) bool {
	seen := map[*ssa.BasicBlock]bool{}
	var walk func(x *ssa.BasicBlock) bool
	walk = func(x *ssa.BasicBlock) bool {
		for _, s := range x.Succs {
			if s == b {
				return true
			}
			if !seen[s] {
				seen[s] = true
				if walk(s) {
					return true
				}
			}
		}
		return false
	}
	return walk(b)
}

// StoreSite is one collections access in a function.
type StoreSite struct {
	Fn     *ssa.Function
	Call   ssa.CallInstruction
	Field  *types.Var
	Method string
	Args   []ssa.Value
}

var writeMethods = map[string]bool{"Set": true, "Remove": true, "Clear": true, "Next": true}

func (s StoreSite) IsWrite() bool { return writeMethods[s.Method] }

func (p *Prog) StoreSites(fn *ssa.Function) []StoreSite {
	var out []StoreSite
	for _, ci := range callsIn(fn) {
		if sa := storeAccess(ci.Common()); sa != nil {
			out = append(out, StoreSite{fn, ci, sa.Field, sa.Method, sa.Args})
		}
	}
	return out
}

// ownerOfField names the struct type a field belongs to, e.g. x/relayer/keeper.Keeper.
func ownerKey(p *Prog, fv *types.Var) string {
	if fv.Pkg() == nil {
		return fv.Name()
	}
	return relPkg(fv.Pkg().Path()) + "." + fv.Name()
}

// rootOf returns the outermost enclosing function of a closure.
func rootOf(f *ssa.Function) *ssa.Function {
	for f.Parent() != nil {
		f = f.Parent()
	}
	return f
}

func hasPrefixAny(s string, ps ...string) bool {
	for _, p := range ps {
		if strings.HasPrefix(s, p) {
			return true
		}
	}
	return false
}

// argIs: does the rendered argument i of a call instruction match?
func (p *Prog) argStr(ci ssa.CallInstruction, i int) string {
	args := ci.Common().Args
	if ci.Common().IsInvoke() {
		// args exclude the receiver
	}
	if i >= len(args) {
		return ""
	}
	return p.R(ci.Parent()).EAt(args[i], ci)
}

// isGenerated: protobuf/gateway generated sources (decoders write every field; not hand-written logic).
func (p *Prog) isGenerated(fn *ssa.Function) bool {
	f := p.Fset.Position(rootOf(fn).Pos()).Filename
	return strings.HasSuffix(f, ".pb.go") || strings.HasSuffix(f, ".pb.gw.go") || strings.HasSuffix(f, ".pulsar.go")
}

// EQ / NE build canonical (operand-sorted) equality facts.
func EQ(a, b string) string {
	if b < a {
		a, b = b, a
	}
	return "(" + a + " == " + b + ")"
}

func NE(a, b string) string {
	if b < a {
		a, b = b, a
	}
	return "(" + a + " != " + b + ")"
}

// patLE: the fact a <= b, or the stronger a < b.
func patLE(a, b string) string {
	return `^\(` + regexp.QuoteMeta(a) + ` <=? ` + regexp.QuoteMeta(b) + `\)$`
}

// patLT: the fact a < b (also written a+1 <= b).
func patLT(a, b string) string {
	return `^\(` + regexp.QuoteMeta(a) + ` < ` + regexp.QuoteMeta(b) + `\)$|^\(\(1 \+ ` + regexp.QuoteMeta(a) + `\) <= ` + regexp.QuoteMeta(b) + `\)$`
}

// patPositive: the fact v > 0 in any of its spellings.
func patPositive(v string) string {
	q := regexp.QuoteMeta(v)
	return `^\(0 < ` + q + `\)$|^\(1 <= ` + q + `\)$|^\(0 != ` + q + `\)$|^\(` + q + ` != 0\)$`
}

// necessaryFacts: the edge facts that every path from entry to target must take
// (deleting that single edge disconnects the target).
func (p *Prog) necessaryFacts(fn *ssa.Function, target ssa.Instruction) []EdgeFact {
	var out []EdgeFact
	isT := func(in ssa.Instruction) bool { return in == target }
	for _, ef := range p.EdgeFacts(fn) {
		ps := &PathSearch{Fn: fn, AvoidEdges: map[edgeKey]bool{ef.Key(): true}, IsTarget: isT}
		if t, _ := ps.Find(); t == nil {
			out = append(out, ef)
		}
	}
	return out
}

// fctx: a function seen in some caller's terms. The first context of a function is the
// function itself; the others are the unexported repository helpers it calls, rendered
// with their parameters bound to the call's arguments. Rules about a particular value or
// instruction look for it in every context, so that moving a computation into a private
// helper does not hide it.
type fctx struct {
	fn     *ssa.Function
	r      *Renderer
	call   ssa.CallInstruction // nil for the function itself
	parent *ssa.Function
}

func (p *Prog) helperContexts(fn *ssa.Function) []fctx {
	out := []fctx{{fn: fn, r: p.R(fn)}}
	seen := map[*ssa.Function]bool{fn: true}
	for _, ci := range callsIn(fn) {
		g := ci.Common().StaticCallee()
		if g == nil || g.Blocks == nil || g.Parent() != nil || seen[g] || !isProdPkgFn(g) {
			continue
		}
		if !p.transparentHelper(g) {
			continue
		}
		seen[g] = true
		r := p.R(fn)
		bind := make([]string, len(ci.Common().Args))
		for i, a := range ci.Common().Args {
			bind[i] = r.E(a)
		}
		out = append(out, fctx{fn: g, r: p.RBound(g, bind, 1), call: ci, parent: fn})
	}
	return out
}

// transparentHelper: a repository function the rules do not anchor on — unexported, or exported
// but introduced after the rules were written (not in knownAPI) — and that is not a closure,
// generated code or an entry point. Rules look through such helpers in both directions.
func (p *Prog) transparentHelper(g *ssa.Function) bool {
	if g == nil || g.Blocks == nil || g.Parent() != nil || !isProdPkgFn(g) || p.isGenerated(g) {
		return false
	}
	o, ok := g.Object().(*types.Func)
	if !ok {
		return false
	}
	return !(o.Exported() && knownAPI[FuncKey(g)])
}

// contextsOf: the contexts in which the body of fn runs. For a transparent helper these are its
// static call sites in production code, each with the helper's parameters bound to the caller's
// arguments (callers that are helpers themselves are resolved one level further); for any other
// function, the function itself.
func (p *Prog) contextsOf(fn *ssa.Function) []fctx {
	return p.contextsOfDepth(fn, 2)
}

func (p *Prog) contextsOfDepth(fn *ssa.Function, depth int) []fctx {
	self := []fctx{{fn: fn, r: p.R(fn)}}
	if depth <= 0 || !p.transparentHelper(fn) {
		return self
	}
	var out []fctx
	for _, e := range p.CG().In[fn] {
		ci, ok := e.Site.(ssa.CallInstruction)
		if !ok || !isProdPkgFn(e.From) || e.From == fn || ci.Common().StaticCallee() != fn {
			continue
		}
		for _, pc := range p.contextsOfDepth(e.From, depth-1) {
			bind := make([]string, len(ci.Common().Args))
			for i, a := range ci.Common().Args {
				bind[i] = pc.r.E(a)
			}
			x := fctx{fn: fn, r: p.RBound(fn, bind, 1), call: ci, parent: e.From}
			out = append(out, x)
		}
	}
	if len(out) == 0 {
		return self
	}
	return out
}

// requireFactCtx: like RequireFact, for a target that lives in context x. In a helper context
// the fact may be established inside the helper (its facts seen in the caller's terms) or by
// the caller before the call.
func (c *Check) requireFactCtx(x fctx, rule, name, pattern string, target instrPred, targetDesc string) bool {
	if x.call == nil {
		return c.RequireFact(x.fn, rule, name, pattern, target, targetDesc)
	}
	c.touch(x.fn)
	re := regexp.MustCompile(pattern)
	avoid := map[edgeKey]bool{}
	for _, ef := range c.p.edgeFactsWith(x.fn, x.r) {
		if ef.Fact != infeasible && re.MatchString(ef.Fact) {
			avoid[ef.Key()] = true
		}
	}
	if t, _ := (&PathSearch{Fn: x.fn, AvoidEdges: avoid, IsTarget: target}).Find(); t == nil {
		c.Held(rule, name+" @ "+FuncKey(x.parent)+" (in helper "+FuncKey(x.fn)+")", c.p.InstrPos(x.call), "fact established inside the helper on every path to "+targetDesc)
		return true
	}
	return c.RequireFact(x.parent, rule, name, pattern, instrSet([]ssa.Instruction{x.call}), "call of "+FuncKey(x.fn)+" ("+targetDesc+")")
}


// helperAlwaysCalls: ci calls a transparent repository helper in which — seen with its parameters bound to the
// arguments of ci — every success exit is reached only after a call whose rendering matches re.
func (p *Prog) helperAlwaysCalls(fn *ssa.Function, ci ssa.CallInstruction, re *regexp.Regexp) bool {
	g := ci.Common().StaticCallee()
	if g == nil || !p.transparentHelper(g) || g == fn {
		return false
	}
	r := p.R(fn)
	bind := make([]string, len(ci.Common().Args))
	for i, a := range ci.Common().Args {
		bind[i] = r.E(a)
	}
	gr := p.RBound(g, bind, 1)
	var matched []ssa.Instruction
	for _, gi := range callsIn(g) {
		if _, isDefer := gi.(*ssa.Defer); isDefer {
			continue
		}
		s := ""
		if c, ok := gi.(*ssa.Call); ok {
			s = gr.E(c)
		} else {
			s = gr.call(gi.Common())
		}
		if re.MatchString(s) {
			matched = append(matched, gi)
		}
	}
	if len(matched) == 0 {
		return false
	}
	t, _ := (&PathSearch{Fn: g, AvoidInstr: instrSet(matched), IsTarget: successTargets(g)}).Find()
	return t == nil
}
