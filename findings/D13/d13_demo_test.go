package keeper_test

import (
	"math/big"
	"testing"
	"time"

	"cosmossdk.io/collections"
	"cosmossdk.io/log"
	"cosmossdk.io/math"
	"cosmossdk.io/store"
	"cosmossdk.io/store/metrics"
	storetypes "cosmossdk.io/store/types"
	abci "github.com/cometbft/cometbft/abci/types"
	cmtproto "github.com/cometbft/cometbft/proto/tendermint/types"
	dbm "github.com/cosmos/cosmos-db"
	"github.com/cosmos/cosmos-sdk/baseapp"
	"github.com/cosmos/cosmos-sdk/codec"
	addresscodec "github.com/cosmos/cosmos-sdk/codec/address"
	codectypes "github.com/cosmos/cosmos-sdk/codec/types"
	"github.com/cosmos/cosmos-sdk/runtime"
	sdk "github.com/cosmos/cosmos-sdk/types"
	"github.com/ethereum/go-ethereum/common"
	"github.com/ethereum/go-ethereum/core/types/goattypes"
	"github.com/ethereum/go-ethereum/params"
	"github.com/goatnetwork/goat/testutil/mock"
	"github.com/goatnetwork/goat/x/goat/keeper"
	"github.com/goatnetwork/goat/x/goat/types"
	lockingkeeper "github.com/goatnetwork/goat/x/locking/keeper"
	lockingtypes "github.com/goatnetwork/goat/x/locking/types"
	"github.com/stretchr/testify/assert"
	"github.com/stretchr/testify/require"
	"go.uber.org/mock/gomock"
)

// TestD13MaturedUnlockHandOver drives the real goat keeper with the real locking keeper on a shared
// multistore the way baseapp does in a block in which an unlock matures:
//
//   - PrepareProposal and ProcessProposal run the handler on a fresh branch of the last committed
//     state, the begin blockers are NOT executed (baseapp/abci.go PrepareProposal, ProcessProposal
//     and baseapp.go setState: ms := app.cms.CacheMultiStore())
//   - FinalizeBlock runs preBlock, beginBlock, then every tx on a branch of the finalize state
//     (cacheTxContext), then endBlock (baseapp/abci.go internalFinalizeBlock)
//
// The goat txs the honest proposer put in the execution block with the committed state must be the
// goat txs MsgNewEthBlock expects when the block is finalised, otherwise the execution block of an
// honest proposer is refused with "dequeue mismatched".
func TestD13MaturedUnlockHandOver(t *testing.T) {
	ctl := gomock.NewController(t)
	defer ctl.Finish()

	accountKeeper := mock.NewMockAccountKeeper(ctl)
	bitcoinKeeper := mock.NewMockBitcoinKeeper(ctl)
	relayerKeeper := mock.NewMockRelayerKeeper(ctl)
	engineClient := mock.NewMockEngineClient(ctl)

	// no bridge txs are due and the block has no bridge and relayer requests
	bitcoinKeeper.EXPECT().DequeueBitcoinModuleTx(gomock.Any()).Return(nil, nil).AnyTimes()
	bitcoinKeeper.EXPECT().ProcessBridgeRequest(gomock.Any(), gomock.Any()).Return(nil).AnyTimes()
	relayerKeeper.EXPECT().ProcessRelayerRequest(gomock.Any(), gomock.Any()).Return(nil).AnyTimes()

	// one multistore with the stores of the both modules
	goatKey := storetypes.NewKVStoreKey(types.StoreKey)
	lockingKey := storetypes.NewKVStoreKey(lockingtypes.StoreKey)

	db := dbm.NewMemDB()
	cms := store.NewCommitMultiStore(db, log.NewNopLogger(), metrics.NewNoOpMetrics())
	cms.MountStoreWithDB(goatKey, storetypes.StoreTypeIAVL, nil)
	cms.MountStoreWithDB(lockingKey, storetypes.StoreTypeIAVL, nil)
	require.NoError(t, cms.LoadLatestVersion())

	cdc := codec.NewProtoCodec(codectypes.NewInterfaceRegistry())
	addressCodec := addresscodec.NewBech32Codec(sdk.GetConfig().GetBech32AccountAddrPrefix())

	// the real locking keeper is used by the real goat keeper
	locking := lockingkeeper.NewKeeper(cdc, addressCodec,
		runtime.NewKVStoreService(lockingKey), accountKeeper, log.NewNopLogger())
	goat := keeper.NewKeeper(cdc, addressCodec, runtime.NewKVStoreService(goatKey), log.NewNopLogger(),
		bitcoinKeeper, locking, relayerKeeper, accountKeeper, engineClient)
	msgServer := keeper.NewMsgServerImpl(goat)

	var (
		lastHeight int64 = 9
		blockTime        = time.Date(2026, 10, 1, 12, 0, 0, 0, time.UTC)

		valAddr   = sdk.ConsAddress(common.Hex2Bytes("108ca95b90e680f7e4374f911521941fe78b85ce"))
		valPubkey = common.Hex2Bytes("03baf046326e0d1f48ad417b7336727e4454a286461ce1b2d01d50b3029468fd63")
		valPower  = uint64(10000)
		denom     = lockingtypes.TokenDenom(common.Address{})

		parentHash = common.HexToHash("0x01").Bytes()
		beaconRoot = common.HexToHash("0x02").Bytes()

		unlock = &lockingtypes.Unlock{
			Id:        7,
			Token:     common.Address{}.Bytes(),
			Recipient: common.HexToAddress("0xe896f4afff6c2424819aa493b1724fc11851dc54").Bytes(),
			Amount:    math.NewIntFromUint64(1e18),
		}
	)

	proposer, err := addressCodec.BytesToString(valAddr)
	require.NoError(t, err)

	// the last committed state S
	// the eth tx queue is empty and there is one unlock which matures before the time of the next block
	{
		ctx := sdk.NewContext(cms, cmtproto.Header{Height: lastHeight, Time: blockTime.Add(-3 * time.Second)}, false, log.NewNopLogger())

		require.NoError(t, locking.Params.Set(ctx, lockingtypes.DefaultParams()))
		require.NoError(t, locking.EthTxNonce.Set(ctx, 0))
		require.NoError(t, locking.EthTxQueue.Set(ctx, lockingtypes.EthTxQueue{}))
		require.NoError(t, locking.RewardPool.Set(ctx, lockingtypes.RewardPool{
			Goat: math.ZeroInt(), Gas: math.ZeroInt(), Remain: math.ZeroInt(),
		}))
		require.NoError(t, locking.Tokens.Set(ctx, denom,
			lockingtypes.Token{Weight: 1e4, Threshold: math.NewIntFromUint64(1e18)}))
		require.NoError(t, locking.Validators.Set(ctx, valAddr, lockingtypes.Validator{
			Pubkey:    valPubkey,
			Power:     valPower,
			Reward:    math.ZeroInt(),
			GasReward: math.ZeroInt(),
			Status:    lockingtypes.Active,
			Locking:   sdk.NewCoins(sdk.NewCoin(denom, math.NewIntFromUint64(1e18))),
		}))
		require.NoError(t, locking.Locking.Set(ctx, collections.Join(denom, valAddr), math.NewIntFromUint64(1e18)))
		require.NoError(t, locking.PowerRanking.Set(ctx, collections.Join(valPower, valAddr)))
		require.NoError(t, locking.ValidatorSet.Set(ctx, valAddr, valPower))
		require.NoError(t, locking.UnlockQueue.Set(ctx, blockTime.Add(-time.Second),
			lockingtypes.Unlocks{Unlocks: []*lockingtypes.Unlock{unlock}}))

		require.NoError(t, goat.Params.Set(ctx, types.DefaultParams()))
		require.NoError(t, goat.Block.Set(ctx, types.ExecutionPayload{
			BlockNumber: uint64(lastHeight), BlockHash: parentHash, BaseFeePerGas: math.ZeroInt(),
		}))
		require.NoError(t, goat.BeaconRoot.Set(ctx, beaconRoot))
		cms.Commit()
	}

	header := cmtproto.Header{Height: lastHeight + 1, Time: blockTime, ProposerAddress: valAddr}
	lastCommit := abci.CommitInfo{Votes: []abci.VoteInfo{{
		Validator:   abci.Validator{Address: valAddr, Power: int64(valPower)},
		BlockIdFlag: cmtproto.BlockIDFlagCommit,
	}}}
	blockInfo := baseapp.NewBlockInfo(nil, nil, valAddr, lastCommit)

	// the same as baseapp.setState and the With... calls of PrepareProposal and ProcessProposal
	branchOfCommitted := func(h cmtproto.Header) sdk.Context {
		return sdk.NewContext(cms.CacheMultiStore(), h, false, log.NewNopLogger()).
			WithVoteInfos(lastCommit.Votes).WithCometInfo(blockInfo).WithHeaderHash(common.HexToHash("0x03").Bytes())
	}

	// PrepareProposal: the honest proposer builds the execution block with the committed state
	// createEthBlockProposal -> Dequeue, goat-geth puts the goat txs to the head of the block
	// and writes the goat txs length to the first byte of the extra data
	proposed, err := goat.Dequeue(branchOfCommitted(header))
	require.NoError(t, err)

	extra := make([]byte, params.GoatHeaderExtraLengthV0)
	extra[0] = byte(len(proposed))
	payload := &types.ExecutionPayload{
		ParentHash:    parentHash,
		FeeRecipient:  valAddr,
		BlockNumber:   uint64(lastHeight) + 1,
		ExtraData:     extra,
		BaseFeePerGas: math.ZeroInt(),
		BlockHash:     common.HexToHash("0x04").Bytes(),
		Transactions:  proposed,
		BeaconRoot:    beaconRoot,
		Requests: (&goattypes.LockingRequests{
			Gas: []*goattypes.GasRequest{goattypes.NewGasRequest(uint64(lastHeight)+1, new(big.Int))},
		}).Encode(),
	}

	// ProcessProposal: every honest validator accepts it with the committed state
	// verifyEthBlockProposal -> VerifyDequeue
	require.NoError(t, goat.VerifyDequeue(branchOfCommitted(header), payload.ExtraData, payload.Transactions))

	// FinalizeBlock
	finalizeCtx := branchOfCommitted(header)

	// the begin blockers, the locking module is the only one in app/app_config.go
	require.NoError(t, locking.BeginBlocker(finalizeCtx))

	// the goat txs which are due when the txs of the block are executed
	{
		peek, _ := finalizeCtx.CacheContext()
		due, err := goat.Dequeue(peek)
		require.NoError(t, err)
		assert.Equal(t, len(proposed), len(due),
			"the due goat txs after the begin blocker are not the goat txs of the proposal")
		assert.Equal(t, proposed, due)
	}

	// the first tx is MsgNewEthBlock of the proposer, runTx executes it with a branch of the finalize state
	{
		txCtx, write := finalizeCtx.CacheContext()
		_, err := msgServer.NewEthBlock(txCtx, &types.MsgNewEthBlock{Proposer: proposer, Payload: payload})
		require.NoError(t, err, "MsgNewEthBlock of the honest proposer should succeed when the block is finalised")
		write()

		block, err := goat.Block.Get(finalizeCtx)
		require.NoError(t, err)
		require.Equal(t, payload.BlockHash, block.BlockHash, "the execution block should be accepted")
	}

	// the end blockers and the commit
	{
		updates, err := locking.EndBlocker(finalizeCtx)
		require.NoError(t, err)
		require.Empty(t, updates)
		finalizeCtx.MultiStore().(storetypes.CacheMultiStore).Write()
		cms.Commit()
	}

	// the matured unlock is neither lost nor sent twice: it's due for the next block
	// and both the proposal and the finalisation of the next block agree on it
	{
		next := cmtproto.Header{Height: lastHeight + 2, Time: blockTime.Add(3 * time.Second), ProposerAddress: valAddr}

		proposed, err := goat.Dequeue(branchOfCommitted(next))
		require.NoError(t, err)

		raw, err := unlock.EthTx(0).MarshalBinary()
		require.NoError(t, err)
		require.Equal(t, [][]byte{raw}, proposed)

		finalizeCtx := branchOfCommitted(next)
		require.NoError(t, locking.BeginBlocker(finalizeCtx))

		extra := make([]byte, params.GoatHeaderExtraLengthV0)
		extra[0] = byte(len(proposed))
		require.NoError(t, goat.VerifyDequeue(finalizeCtx, extra, proposed))

		queue, err := locking.EthTxQueue.Get(finalizeCtx)
		require.NoError(t, err)
		require.Empty(t, queue.Unlocks)

		has, err := locking.UnlockQueue.Has(finalizeCtx, blockTime.Add(-time.Second))
		require.NoError(t, err)
		require.False(t, has)
	}
}
