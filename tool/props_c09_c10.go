package main

import (
	"fmt"
	"go/ast"
	"go/constant"
	"go/types"
	"regexp"
	"sort"
	"strings"

	"golang.org/x/tools/go/ssa"
)

func init() {
	register("C09", propC09)
	register("C10", propC10)
}

// compositeStringLists returns, for composite literals of the named struct type in package rel,
// the constant string elements of the given slice-valued keys.
func (p *Prog) compositeStringLists(rel, typeSuffix string) map[string][]string {
	out := map[string][]string{}
	pk := p.ByPath[modPath+"/"+rel]
	if pk == nil {
		panic(unresolved("package " + rel))
	}
	for _, f := range pk.Syntax {
		ast.Inspect(f, func(n ast.Node) bool {
			cl, ok := n.(*ast.CompositeLit)
			if !ok {
				return true
			}
			tv, ok := pk.TypesInfo.Types[cl]
			if !ok || !strings.HasSuffix(tv.Type.String(), typeSuffix) {
				return true
			}
			for _, el := range cl.Elts {
				kv, ok := el.(*ast.KeyValueExpr)
				if !ok {
					continue
				}
				key, ok := kv.Key.(*ast.Ident)
				if !ok {
					continue
				}
				if lst, ok := kv.Value.(*ast.CompositeLit); ok {
					var vals []string
					for _, e := range lst.Elts {
						if etv, ok := pk.TypesInfo.Types[e]; ok && etv.Value != nil && etv.Value.Kind() == constant.String {
							vals = append(vals, constant.StringVal(etv.Value))
						} else {
							vals = append(vals, "?")
						}
					}
					out[key.Name] = vals
				} else if etv, ok := pk.TypesInfo.Types[kv.Value]; ok && etv.Value != nil {
					out[key.Name] = []string{etv.Value.ExactString()}
				}
			}
			return true
		})
	}
	return out
}

func contains(l []string, s string) bool {
	for _, x := range l {
		if x == s {
			return true
		}
	}
	return false
}

func propC09(c *Check) {
	p := c.p
	c.Rule("R1", "writers: the execution head (Block) and the beacon root are written only by NewEthBlock and goat InitGenesis")
	c.Rule("R2", "in NewEthBlock both writes are dominated by the proposer, fee-recipient, parent-hash, number+1, no-blob-gas, beacon-root and system-tx guards and by the three request processors succeeding; the head becomes the request's payload, the beacon root the finalising block's header hash")
	c.Rule("R3", "Finalized: both engine calls' errors are returned, INVALID from either fails the block; the payload sent is the recorded head; head hash = head, safe = finalized = its parent")
	c.Rule("R4", "wiring: goat EndBlock returns Finalized's error unmodified and the goat module is an end-blocker of the app")
	c.Rule("R5", "engine client error discipline: every engine RPC error is propagated (no success return after a failed CallContext)")

	allowed := map[string]string{"x/goat/keeper.msgServer.NewEthBlock": "Set", "x/goat/module.InitGenesis": "Set"}
	c.checkWriters("R1", "x/goat/keeper", "Block", allowed, 2)
	c.checkWriters("R1", "x/goat/keeper", "BeaconRoot", allowed, 2)

	N := p.MustFn("x/goat/keeper.msgServer.NewEthBlock")
	var sets []ssa.Instruction
	for _, s := range p.StoreSites(N) {
		if s.IsWrite() {
			sets = append(sets, s.Call)
			want := map[string]string{"Block": "*$2.Payload", "BeaconRoot": "Context.HeaderHash()"}[s.Field.Name()]
			if got := p.R(N).E(s.Args[0]); got == want {
				c.Held("R2", s.Field.Name()+"-value @ "+FuncKey(N), p.InstrPos(s.Call), got)
			} else {
				c.Violated("R2", s.Field.Name()+"-value @ "+FuncKey(N), p.InstrPos(s.Call), "stores "+got+", expected "+want)
			}
		}
	}
	if len(sets) != 2 {
		c.Violated("R2", "head-writes @ "+FuncKey(N), p.Pos(N.Pos()), fmt.Sprintf("%d direct store writes in NewEthBlock (want Block.Set and BeaconRoot.Set) reason=not-established", len(sets)))
	}
	tgt := instrSet(sets)
	pl := "$2.Payload"
	prop := "Codec.StringToBytes($2.Proposer)#0"
	for name, pat := range map[string]string{
		"proposer=consensus-proposer": lit("bytes.Equal(" + prop + ", BlockInfo.GetProposerAddress(Context.CometInfo()))"),
		"proposer=fee-recipient":      lit("bytes.Equal(" + prop + ", " + pl + ".FeeRecipient)"),
		"parent-hash":                 lit("bytes.Equal(Block.Get()#0.BlockHash, " + pl + ".ParentHash)"),
		"number+1":                    lit(EQ("(1 + Block.Get()#0.BlockNumber)", pl+".BlockNumber")),
		"no-blob-gas":                 patLE(pl+".BlobGasUsed", "0") + "|" + lit(EQ("0", pl+".BlobGasUsed")),
		"beacon-root":                 lit("bytes.Equal(BeaconRoot.Get()#0, " + pl + ".BeaconRoot)"),
		// the recorded head hash is later byte-compared with the next payload's 32-byte parent hash, while the
		// engine only ever sees common.BytesToHash(hash) (which crops): an over- or under-long hash must not be recorded
		"block-hash-32-bytes": lit(EQ("32", "len("+pl+".BlockHash)")),
		"system-txs":          lit("(Keeper.VerifyDequeue(" + pl + ".ExtraData, " + pl + ".Transactions) == nil)"),
		"locking-requests-ok": lit("(LockingKeeper.ProcessLockingRequest(goattypes.DecodeRequests(" + pl + ".Requests)#2) == nil)"),
		"bridge-requests-ok":  lit("(BitcoinKeeper.ProcessBridgeRequest(goattypes.DecodeRequests(" + pl + ".Requests)#0) == nil)"),
		"relayer-requests-ok": lit("(RelayerKeeper.ProcessRelayerRequest(goattypes.DecodeRequests(" + pl + ".Requests)#1) == nil)"),
	} {
		c.RequireFact(N, "R2", "head-write-after "+name, pat, tgt, "head write")
	}
	c.RequireFact(N, "R2", "head-stored", lit("(Block.Set(*$2.Payload) == nil)"), nil, "")
	c.RequireFact(N, "R2", "beacon-root-stored", lit("(BeaconRoot.Set(Context.HeaderHash()) == nil)"), nil, "")

	F := p.MustFn("x/goat/keeper.Keeper.Finalized")
	np := "EngineClient.NewPayloadV4(goat/types.PayloadToExecutableData(Block.Get()#0), [], common.BytesToHash(Block.Get()#0.BeaconRoot), Block.Get()#0.Requests)"
	fcu := "EngineClient.ForkchoiceUpdatedV3(new(engine.ForkchoiceStateV1)#0, nil)"
	c.RequireFact(F, "R3", "head-loaded", lit("(Block.Get()#1 == nil)"), nil, "")
	c.RequireFact(F, "R3", "newPayload-error-returned", lit("("+np+"#1 == nil)"), nil, "")
	c.RequireFact(F, "R3", "newPayload-INVALID-fails", lit(NE(np+"#0.Status", "engine.INVALID"))+"|"+lit(EQ(np+"#0.Status", "engine.VALID")), nil, "")
	c.RequireFact(F, "R3", "forkchoice-error-returned", lit("("+fcu+"#1 == nil)"), nil, "")
	c.RequireFact(F, "R3", "forkchoice-INVALID-fails", lit(NE(fcu+"#0.PayloadStatus.Status", "engine.INVALID"))+"|"+lit(EQ(fcu+"#0.PayloadStatus.Status", "engine.VALID")), nil, "")
	{
		// the fork-choice state as the engine receives it: the value each field holds AT the ForkchoiceUpdatedV3 call,
		// on every path that reaches the call (a field assigned on some paths only shows as a mixture)
		r := p.R(F)
		want := map[string]string{
			"HeadBlockHash":      "common.BytesToHash(Block.Get()#0.BlockHash)",
			"SafeBlockHash":      "common.BytesToHash(Block.Get()#0.ParentHash)",
			"FinalizedBlockHash": "common.BytesToHash(Block.Get()#0.ParentHash)",
		}
		var fcuCall ssa.CallInstruction
		for _, ci := range callsIn(F) {
			if strings.HasPrefix(p.CallStr(ci), "EngineClient.ForkchoiceUpdatedV3(") {
				fcuCall = ci
			}
		}
		var state *ssa.Alloc
		if fcuCall != nil {
			for _, a := range fcuCall.Common().Args {
				if pt, ok := a.Type().Underlying().(*types.Pointer); ok && strings.HasSuffix(pt.Elem().String(), "engine.ForkchoiceStateV1") {
					if al, path := rootAlloc(a); al != nil && path == "" {
						state = al
					}
				}
			}
		}
		for _, f := range []string{"HeadBlockHash", "SafeBlockHash", "FinalizedBlockHash"} {
			key := "forkchoice " + f + " @ " + FuncKey(F)
			if state == nil {
				c.Violated("R3", key, p.Pos(F.Pos()), "not set reason=not-established")
				continue
			}
			v := r.fieldAt(state, "."+f, fcuCall, "unset", 0)
			if v == want[f] {
				c.Held("R3", key, p.InstrPos(fcuCall), v)
			} else {
				c.Violated("R3", key, p.InstrPos(fcuCall), "is "+v+" at the call, expected "+want[f])
			}
		}
	}
	// R4
	eb := p.MustFn("x/goat/module.AppModule.EndBlock")
	c.touch(eb)
	okEB := true
	for _, e := range Exits(eb) {
		if s := p.R(eb).E(e.Ret.Results[0]); s != "Keeper.Finalized($0.keeper)" {
			okEB = false
			c.Violated("R4", "EndBlock-returns-Finalized @ "+FuncKey(eb), p.InstrPos(e.Ret), "returns "+s)
		}
	}
	if okEB {
		c.Held("R4", "EndBlock-returns-Finalized @ "+FuncKey(eb), p.Pos(eb.Pos()), "return am.keeper.Finalized(ctx)")
	}
	lists := p.compositeStringLists("app", "runtime/v1alpha1.Module")
	for _, w := range []struct{ key, mod string }{{"EndBlockers", "goat"}, {"EndBlockers", "relayer"}, {"EndBlockers", "locking"}, {"BeginBlockers", "locking"}} {
		if contains(lists[w.key], w.mod) {
			c.Held("R4", "app-config "+w.key+" ∋ "+w.mod, "app/app_config.go", strings.Join(lists[w.key], ","))
		} else {
			c.Violated("R4", "app-config "+w.key+" ∋ "+w.mod, "app/app_config.go", "module not wired: "+w.key+" = "+strings.Join(lists[w.key], ","))
		}
	}
	// R5
	n := 0
	for _, f := range p.ProdFuncs {
		if !strings.HasPrefix(FuncKey(f), "pkg/ethrpc.Client.") {
			continue
		}
		calls := p.FindCalls(f, `^Client\.CallContext\(`)
		if len(calls) == 0 {
			continue
		}
		n++
		c.RequireFact(f, "R5", "rpc-error-propagated", `^\(Client\.CallContext\(.*\) == nil\)$`, nil, "")
	}
	c.Floor("R5", "engine RPC wrappers", n, 3)
	// callers of the engine do not drop the error result
	for _, f := range []*ssa.Function{F, p.MustFn("x/goat/keeper.Keeper.createEthBlockProposal"), p.closureCalling(p.MustFn("x/goat/keeper.Keeper.verifyEthBlockProposal"), `^EngineClient\.NewPayloadV4\(`)} {
		for _, ci := range p.FindCalls(f, `^EngineClient\.`) {
			call, ok := ci.(*ssa.Call)
			if !ok {
				continue
			}
			used := false
			for _, ref := range *call.Referrers() {
				if ex, ok := ref.(*ssa.Extract); ok && ex.Index == 1 && len(*ex.Referrers()) > 0 {
					used = true
				}
			}
			if used {
				c.Held("R5", "engine-error-checked "+strings.SplitN(p.CallStr(ci), "(", 2)[0]+" @ "+FuncKey(f), p.InstrPos(ci), "")
			} else {
				c.Violated("R5", "engine-error-checked "+strings.SplitN(p.CallStr(ci), "(", 2)[0]+" @ "+FuncKey(f), p.InstrPos(ci), "the error result of an engine call is ignored")
			}
		}
	}
}

func propC10(c *Check) {
	p := c.p
	c.Rule("R1", "chain: SetUpContext first, GoatGuardHandler second, then ValidateBasic, SetPubKey, SigVerification, IncrementSequence; app.New installs exactly this handler and the tx module's own ante handler is skipped")
	c.Rule("R2", "guards in AnteHandle on every path to next(): StdTx assertion, empty memo, one signer, unexpired timeout, and per message a mode split in which check/recheck/prepare lead to relayerTxOnly and process/finalize lead to the exact MsgNewEthBlock name with timeout == height or to relayerTxOnly; relayerTxOnly = namespace prefix + signer equals the current relayer proposer")
	c.Rule("R3", "predicate enumeration: the string constants of the name tests are extracted and evaluated against every protobuf message type registered under a Msg service in the app's import closure: admitted = bitcoin + relayer messages (+ MsgNewEthBlock in block modes), all defined in this repository")
	c.Rule("R4", "every admitted bitcoin/relayer handler binds the proposer (VerifyProposal / VerifyNonProposal / explicit proposer equality) before any write")
	c.Rule("R5", "every transaction of a proposed block goes through the admission chain: the proposal check hands each tx to ProcessProposalVerifyTx (which runs the ante handler in process-proposal mode) before it accepts (C08/R1)")
	c.DependOn("R5", "C08", propC08, map[string]bool{"R1": true}, regexp.MustCompile(`^(tx-verified|accept-after-all-txs) @`), "a tx that the proposal check accepts without ProcessProposalVerifyTx reaches a block without memo, signer, signature and sequence checks")

	// R1 chain
	nah := p.MustFn("app.NewAnteHandler")
	{
		c.touch(nah)
		calls := p.FindCalls(nah, `^cosmos-sdk/types\.ChainAnteDecorators\(`)
		want := `^cosmos-sdk/types\.ChainAnteDecorators\(\[ante\.NewSetUpContextDecorator\(\), new\(app\.GoatGuardHandler\)#0, ante\.NewValidateBasicDecorator\(\), ante\.NewSetPubKeyDecorator\(\$0\), ante\.NewSigVerificationDecorator\(\$0, \$2\), ante\.NewIncrementSequenceDecorator\(\$0\)\]\)$`
		if len(calls) == 1 && regexp.MustCompile(want).MatchString(p.CallStr(calls[0])) {
			c.Held("R1", "decorator-chain @ "+FuncKey(nah), p.InstrPos(calls[0]), "SetUpContext, GoatGuard, ValidateBasic, SetPubKey, SigVerification, IncrementSequence")
		} else {
			s := ""
			if len(calls) > 0 {
				s = p.CallStr(calls[0])
			}
			// accept extra decorators after the guard as long as the required ones are present in order
			req := []string{"ante.NewSetUpContextDecorator()", "new(app.GoatGuardHandler)#0", "ante.NewValidateBasicDecorator()", "ante.NewSetPubKeyDecorator(", "ante.NewSigVerificationDecorator(", "ante.NewIncrementSequenceDecorator("}
			pos, ok := 0, len(calls) == 1 && strings.HasPrefix(s, "cosmos-sdk/types.ChainAnteDecorators([ante.NewSetUpContextDecorator(), new(app.GoatGuardHandler)#0, ")
			for _, rq := range req {
				i := strings.Index(s[pos:], rq)
				if i < 0 {
					ok = false
					break
				}
				pos += i + len(rq)
			}
			if ok {
				c.Held("R1", "decorator-chain @ "+FuncKey(nah), p.InstrPos(calls[0]), "required decorators present in order: "+s)
			} else {
				c.Violated("R1", "decorator-chain @ "+FuncKey(nah), p.Pos(nah.Pos()), "ante chain is not SetUpContext, GoatGuard, …, ValidateBasic, SetPubKey, SigVerification, IncrementSequence: "+s)
			}
		}
		// the guard wraps the relayer keeper passed in
		r := p.R(nah)
		okK := false
		for _, b := range nah.Blocks {
			for _, in := range b.Instrs {
				if st, ok := in.(*ssa.Store); ok && r.E(st.Addr) == "new(app.GoatGuardHandler)#0.relayerKeeper" && r.E(st.Val) == "$1" {
					okK = true
				}
			}
		}
		if okK {
			c.Held("R1", "guard-keeper @ "+FuncKey(nah), p.Pos(nah.Pos()), "GoatGuardHandler{relayerKeeper}")
		} else {
			c.Violated("R1", "guard-keeper @ "+FuncKey(nah), p.Pos(nah.Pos()), "the guard is not built from the relayer keeper argument reason=not-established")
		}
	}
	appNew := p.MustFn("app.New")
	{
		c.touch(appNew)
		calls := p.FindCalls(appNew, `SetAnteHandler\(`)
		ok := len(calls) == 1 && strings.Contains(p.CallStr(calls[0]), "app.NewAnteHandler(") && strings.Contains(p.CallStr(calls[0]), ".RelayerKeeper")
		if ok {
			c.Held("R1", "ante-installed @ "+FuncKey(appNew), p.InstrPos(calls[0]), "SetAnteHandler(NewAnteHandler(AccountKeeper, RelayerKeeper, SignModeHandler))")
		} else {
			c.Violated("R1", "ante-installed @ "+FuncKey(appNew), p.Pos(appNew.Pos()), fmt.Sprintf("app.New does not install NewAnteHandler exactly once (%d SetAnteHandler calls)", len(calls)))
		}
		skip := p.compositeStringLists("app", "tx/config/v1.Config")
		if v := skip["SkipAnteHandler"]; len(v) == 1 && v[0] == "true" {
			c.Held("R1", "tx-module-ante-skipped", "app/app_config.go", "SkipAnteHandler: true")
		} else {
			c.Violated("R1", "tx-module-ante-skipped", "app/app_config.go", "SkipAnteHandler is not true: depinject would wire a second ante chain")
		}
		for _, h := range []string{"SetPrepareProposal", "SetProcessProposal"} {
			if calls := p.FindCalls(appNew, h+`\(`); len(calls) == 1 && strings.Contains(p.CallStr(calls[0]), "Keeper."+strings.TrimPrefix(h, "Set")+"Handler(") {
				c.Held("R1", h+" @ "+FuncKey(appNew), p.InstrPos(calls[0]), "")
			} else {
				c.Violated("R1", h+" @ "+FuncKey(appNew), p.Pos(appNew.Pos()), "proposal handler of the goat keeper not installed")
			}
		}
	}

	// R2 guards
	ah := p.MustFn("app.GoatGuardHandler.AnteHandle")
	nexts := p.FindCalls(ah, `^callfn\(\$4\)\(`)
	if len(nexts) == 0 {
		c.Violated("R2", "next-call @ "+FuncKey(ah), p.Pos(ah.Pos()), "no call of next() reason=not-established")
		return
	}
	var nx []ssa.Instruction
	for _, ci := range nexts {
		nx = append(nx, ci)
	}
	tn := instrSet(nx)
	std := "$2.(app.StdTx)"
	c.RequireFact(ah, "R2", "StdTx", lit(std+"#1"), tn, "next()")
	c.RequireFact(ah, "R2", "empty-memo", lit(EQ("0", "len(StdTx.GetMemo("+std+"#0))"))+"|"+lit(EQ("\"\"", "StdTx.GetMemo("+std+"#0)")), tn, "next()")
	c.RequireFact(ah, "R2", "signers-readable", lit("(StdTx.GetSigners("+std+"#0)#1 == nil)"), tn, "next()")
	c.RequireFact(ah, "R2", "one-signer", lit(EQ("1", "len(StdTx.GetSigners("+std+"#0)#0)")), tn, "next()")
	to := "StdTx.GetTimeoutHeight(" + std + "#0)"
	c.RequireFact(ah, "R2", "timeout-not-expired", patLE(to, "0")+"|"+lit(EQ("0", to))+"|"+patLE("Context.BlockHeight()", to), tn, "next()")
	// … and the expiry test is strict: a transaction whose timeout height EQUALS the block height is not expired (the
	// block message must carry exactly that timeout, so rejecting equality would reject every honest proposal: C08)
	{
		strict := true
		for _, ef := range p.EdgeFacts(ah) {
			if ef.Pred != nil || !strings.Contains(ef.Fact, to) || !strings.Contains(ef.Fact, "Context.BlockHeight()") {
				continue
			}
			// an edge that holds when timeout == height …
			if !(strings.Contains(ef.Fact, " <= ") || strings.Contains(ef.Fact, " == ")) {
				continue
			}
			// … must be able to reach next()
			start := ef.Block.Succs[ef.Idx]
			if len(start.Instrs) == 0 {
				continue
			}
			reach := false
			if t, _ := (&PathSearch{Fn: ah, From: start.Instrs[0], IsTarget: tn}).Find(); t != nil || tn(start.Instrs[0]) {
				reach = true
			}
			if !reach {
				strict = false
				c.Violated("R2", "timeout-equal-height-admitted @ "+FuncKey(ah), p.InstrPos(ef.Block.Instrs[len(ef.Block.Instrs)-1]), "the outcome "+ef.Fact+" (true for timeout == height) leads only to rejection: the block message, whose timeout must equal the block height, could never be admitted")
			}
		}
		if strict {
			c.Held("R2", "timeout-equal-height-admitted @ "+FuncKey(ah), p.Pos(ah.Pos()), "only timeout < height is treated as expired")
		}
	}
	c.RequireFact(ah, "R2", "msgs-readable", lit("(Tx.GetMsgsV2($2)#1 == nil)"), tn, "next()")
	c.RequireFact(ah, "R2", "proposer-readable", lit("(RelayerKeeper.GetCurrentProposer()#1 == nil)"), tn, "next()")

	// mode split: per message, from the computation of its name to the next message / next(): in each of the five
	// execution modes the admission of that mode must have been passed. Admission = the namespace test AND the
	// signer test (wherever they are written: inline, in a local closure, in a helper; the signer test may be
	// hoisted before the loop), or — in block modes only — the exact MsgNewEthBlock name.
	modeCalls := p.FindCalls(ah, `^Context\.ExecMode\(`)
	name := "MessageDescriptor.FullName(Message.Descriptor(ProtoMessage.ProtoReflect(Tx.GetMsgsV2($2)#0[φ{(1 + @)|0}])))"
	if len(modeCalls) == 0 {
		c.Violated("R2", "mode-split @ "+FuncKey(ah), p.Pos(ah.Pos()), "no ExecMode() dispatch found reason=not-established")
	} else {
		mc := modeCalls[0]
		mode := "Context.ExecMode()"
		qn := regexp.QuoteMeta(name)
		prefixRe := regexp.MustCompile(`^strings\.HasPrefix\(` + qn + `, "[^"]*"\)$`)
		signer := regexp.QuoteMeta("StdTx.GetSigners(" + std + "#0)#0[0]")
		prop := regexp.QuoteMeta("RelayerKeeper.GetCurrentProposer()#0")
		proposerRe := regexp.MustCompile(`^AccAddress\.Equals\(` + prop + `, ` + signer + `\)$|^AccAddress\.Equals\(` + signer + `, ` + prop + `\)$|^bytes\.Equal\(` + prop + `, ` + signer + `\)$|^bytes\.Equal\(` + signer + `, ` + prop + `\)$`)
		ethBlock := lit(EQ("\"goat.goat.v1.MsgNewEthBlock\"", name))
		heightEq := lit(EQ("Context.BlockHeight()", to))
		// sdk.ExecMode constants by value
		em := map[string]string{}
		if sdkPkg := findImported(p, "github.com/cosmos/cosmos-sdk/types"); sdkPkg != nil {
			for _, n := range []string{"ExecModeCheck", "ExecModeReCheck", "ExecModeSimulate", "ExecModePrepareProposal", "ExecModeProcessProposal", "ExecModeVoteExtension", "ExecModeVerifyVoteExtension", "ExecModeFinalize"} {
				if o, ok := sdkPkg.Scope().Lookup(n).(*types.Const); ok {
					em[n] = o.Val().ExactString()
				}
			}
		}
		if len(em) < 8 {
			c.Violated("R2", "exec-mode-constants", "", "sdk.ExecMode constants not resolved reason=not-established")
		}
		_ = mode
		// the instruction that names the message under inspection marks "one message": between two
		// executions of it (or the last one and next()) the admission of the mode must have succeeded
		var nameInstr ssa.Instruction
		for _, ci := range callsIn(ah) {
			if p.CallStr(ci) == name {
				nameInstr = ci
			}
		}
		if nameInstr == nil {
			c.Violated("R2", "message-name @ "+FuncKey(ah), p.Pos(ah.Pos()), "the per-message name computation was not found reason=not-established")
			return
		}
		nextIter := func(in ssa.Instruction) bool { return in == nameInstr || tn(in) }
		isName := func(in ssa.Instruction) bool { return in == nameInstr }
		prefixEdges := p.MatchEdges(ah, prefixRe)
		proposerEdges := p.MatchEdges(ah, proposerRe)
		ethEdges := p.MatchEdges(ah, regexp.MustCompile(ethBlock))
		if len(prefixEdges) == 0 {
			c.Violated("R2", "namespace-test @ "+FuncKey(ah), p.Pos(ah.Pos()), "no branch on strings.HasPrefix(message name, const) found (directly, in a closure or in a helper) reason=not-established")
		}
		if len(proposerEdges) == 0 {
			c.Violated("R2", "signer-test @ "+FuncKey(ah), p.Pos(ah.Pos()), "no branch comparing the current relayer proposer with the single signer found reason=not-established")
		}
		modeEdge := regexp.MustCompile(`^\((\d+) (==|!=) Context\.ExecMode\(\)\)$`)
		loopExit := lit("(len(Tx.GetMsgsV2($2)#0) <= φ{(1 + @)|0})")
		for _, n := range []string{"ExecModeCheck", "ExecModeReCheck", "ExecModePrepareProposal", "ExecModeProcessProposal", "ExecModeFinalize"} {
			// the paths of this mode: every branch on ExecMode() is taken the way this mode takes it
			restrict := map[edgeKey]bool{}
			for _, ef := range p.EdgeFacts(ah) {
				if m := modeEdge.FindStringSubmatch(ef.Fact); m != nil {
					if (m[2] == "==" && m[1] != em[n]) || (m[2] == "!=" && m[1] == em[n]) {
						restrict[ef.Key()] = true
					}
				}
			}
			// (a) in this mode next() is reached only through the exit of the loop over all messages
			around := map[edgeKey]bool{}
			for k := range restrict {
				around[k] = true
			}
			for _, e := range p.MatchEdges(ah, regexp.MustCompile(loopExit)) {
				around[e.Key()] = true
			}
			if t, path := (&PathSearch{Fn: ah, AvoidEdges: around, IsTarget: tn}).Find(); t != nil {
				c.Violated("R2", "mode "+n+" all-messages-visited @ "+FuncKey(ah), p.InstrPos(t), "in this mode next() is reachable without the message loop running to its end", p.describePath(path)...)
				continue
			}
			c.Held("R2", "mode "+n+" all-messages-visited @ "+FuncKey(ah), p.InstrPos(nameInstr), "next() only after the loop over all messages ended")
			// (b) flag states in which the mode reaches a message
			states := (&PathSearch{Fn: ah, AvoidEdges: restrict, IsTarget: isName}).FindAll()
			if len(states) == 0 {
				c.Violated("R2", "mode "+n+" @ "+FuncKey(ah), p.InstrPos(mc), "the message loop is not reachable in this execution mode: messages pass unchecked reason=not-established")
				continue
			}
			blockMode := n == "ExecModeProcessProposal" || n == "ExecModeFinalize"
			mk := func(edges []EdgeFact) map[edgeKey]bool {
				avoid := map[edgeKey]bool{}
				for k := range restrict {
					avoid[k] = true
				}
				for _, e := range edges {
					avoid[e.Key()] = true
				}
				if blockMode {
					for _, e := range ethEdges {
						avoid[e.Key()] = true
					}
				}
				return avoid
			}
			bad := false
			// the signer test may be made once, before the first message
			signerHoisted := false
			{
				av := map[edgeKey]bool{}
				for k := range restrict {
					av[k] = true
				}
				for _, e := range proposerEdges {
					av[e.Key()] = true
				}
				if t, _ := (&PathSearch{Fn: ah, AvoidEdges: av, IsTarget: isName}).Find(); t == nil && len(proposerEdges) > 0 {
					signerHoisted = true
				}
			}
			for _, st := range states {
				if t, path := (&PathSearch{Fn: ah, From: nameInstr, InitState: st.State, AvoidEdges: mk(prefixEdges), IsTarget: nextIter}).Find(); t != nil {
					bad = true
					c.Violated("R2", "mode "+n+" admission @ "+FuncKey(ah), p.InstrPos(t), "in this mode a message reaches next()/the next message without the namespace test"+map[bool]string{true: " (or the exact MsgNewEthBlock name)", false: ""}[blockMode], p.describePath(path)...)
					break
				}
				if signerHoisted {
					continue
				}
				if t, path := (&PathSearch{Fn: ah, From: nameInstr, InitState: st.State, AvoidEdges: mk(proposerEdges), IsTarget: nextIter}).Find(); t != nil {
					bad = true
					c.Violated("R2", "mode "+n+" admission @ "+FuncKey(ah), p.InstrPos(t), "in this mode a message reaches next()/the next message without the signer being compared with the current relayer proposer"+map[bool]string{true: " (or the exact MsgNewEthBlock name)", false: ""}[blockMode], p.describePath(path)...)
					break
				}
			}
			if !bad {
				c.Held("R2", "mode "+n+" admission @ "+FuncKey(ah), p.InstrPos(nameInstr), "only via namespace test + signer = relayer proposer"+map[bool]string{true: ", or the MsgNewEthBlock name", false: ""}[blockMode])
			}
		}
		// the MsgNewEthBlock exception requires timeout height == block height (that it exists only in block
		// modes is part of the per-mode admission above: mempool modes accept the relayer admission alone)
		if len(ethEdges) > 0 {
			for _, e := range ethEdges {
				t, path := searchFromBlock(ah, e.Block.Succs[e.Idx], edgeSet(p.MatchEdges(ah, regexp.MustCompile(heightEq))), nextIter)
				if t != nil {
					c.Violated("R2", "block-message-timeout=height @ "+FuncKey(ah), p.InstrPos(t), "MsgNewEthBlock admitted without timeout height == block height", p.describePath(path)...)
				} else {
					c.Held("R2", "block-message-timeout=height @ "+FuncKey(ah), p.InstrPos(e.Block.Instrs[len(e.Block.Instrs)-1]), "")
				}
			}
		} else {
			c.Note("no MsgNewEthBlock exception found in AnteHandle (stricter than required)")
		}
		// R3 predicate extraction: every string operation applied to the message name, in AnteHandle, its closures
		// and the repository helpers it hands the name to
		type nameFn struct {
			fn  *ssa.Function
			arg string
		}
		nameFns := []nameFn{{ah, name}}
		for _, ci := range callsIn(ah) {
			g := resolveCallee(ci.Common())
			if g == nil || len(g.Blocks) == 0 || !isProdPkgFn(g) || p.isGenerated(g) {
				continue
			}
			for k, a := range ci.Common().Args {
				if p.R(ah).E(a) == name {
					idx := k
					if g.Signature.Recv() == nil && len(g.FreeVars) >= 0 {
						nameFns = append(nameFns, nameFn{g, fmt.Sprintf("$%d", idx)})
					}
				}
			}
		}
		var prefixes []string
		okPred := true
		for _, nf := range nameFns {
			for _, ci := range callsIn(nf.fn) {
				s := p.CallStr(ci)
				if !strings.HasPrefix(s, "strings.") || !strings.Contains(s, nf.arg) {
					continue
				}
				m := regexp.MustCompile(`^strings\.HasPrefix\(` + regexp.QuoteMeta(nf.arg) + `, "([^"]*)"\)$`).FindStringSubmatch(s)
				if m == nil {
					okPred = false
					c.Violated("R3", "name-predicate @ "+FuncKey(nf.fn), p.InstrPos(ci), "string operation on the message name other than HasPrefix(name, const): "+s+" reason=not-established")
				} else {
					prefixes = append(prefixes, m[1])
				}
			}
		}
		prefixes = dedupe(prefixes)
		exact := ""
		for _, ef := range p.EdgeFacts(ah) {
			if m := regexp.MustCompile(`^\("([^"]*)" == ` + regexp.QuoteMeta(name) + `\)$`).FindStringSubmatch(ef.Fact); m != nil {
				exact = m[1]
			}
		}
		if okPred {
			c.enumerateMessages(prefixes, exact)
		}
	}

	// R4 handlers of admitted types bind the proposer
	for _, h := range p.Contexts().Tx {
		key := FuncKey(h)
		if !strings.HasPrefix(key, "x/bitcoin/") && !strings.HasPrefix(key, "x/relayer/") {
			continue
		}
		pat := verifyProposalOK + "|" + lit("(RelayerKeeper.VerifyNonProposal($2)#1 == nil)") + "|" + lit("(Keeper.VerifyNonProposal($2)#1 == nil)") + "|" + lit(EQ("$2.Proposer", "Relayer.Get()#0.Proposer"))
		ws := p.writeSites(h)
		var tg []ssa.Instruction
		for _, w := range ws {
			if s := p.CallStr(w.(ssa.CallInstruction)); strings.Contains(s, "VerifyProposal(") || strings.Contains(s, "VerifyNonProposal(") {
				continue
			}
			tg = append(tg, w)
		}
		c.RequireFact(h, "R4", "proposer-bound-before-write", pat, instrSet(tg), "state write")
		c.RequireFact(h, "R4", "proposer-bound", pat, nil, "")
	}
}

// startMarker is unused placeholder to keep PathSearch API uniform.
func startMarker(in ssa.Instruction) ssa.Instruction { return nil }

// searchFromBlock: path from the beginning of block b to a target avoiding edges.
func searchFromBlock(fn *ssa.Function, b *ssa.BasicBlock, avoid map[edgeKey]bool, target instrPred) (ssa.Instruction, []*ssa.BasicBlock) {
	for _, in := range b.Instrs {
		if target(in) {
			return in, []*ssa.BasicBlock{b}
		}
	}
	if len(b.Instrs) == 0 {
		return nil, nil
	}
	ps := &PathSearch{Fn: fn, From: b.Instrs[len(b.Instrs)-1], AvoidEdges: avoid, IsTarget: target}
	// From = last instruction: continue with successors
	return ps.Find()
}

func findImported(p *Prog, path string) *types.Package {
	for _, pk := range p.Pkgs {
		for _, imp := range pk.Types.Imports() {
			if imp.Path() == path {
				return imp
			}
		}
	}
	return nil
}

// enumerateMessages evaluates the extracted name predicate on every registered Msg type.
func (c *Check) enumerateMessages(prefixes []string, exact string) {
	p := c.p
	if strings.Join(prefixes, ",") != "goat.bitcoin.,goat.relayer." {
		c.Violated("R3", "admitted-namespaces", "app/ante.go", "namespace allow-list is "+strings.Join(prefixes, ",")+", expected goat.bitcoin., goat.relayer.")
	} else {
		c.Held("R3", "admitted-namespaces", "app/ante.go", strings.Join(prefixes, ","))
	}
	if exact != "" && exact != "goat.goat.v1.MsgNewEthBlock" {
		c.Violated("R3", "block-message-name", "app/ante.go", "exact-name exception is "+exact)
	} else {
		c.Held("R3", "block-message-name", "app/ante.go", exact)
	}
	msgs := p.registeredMsgTypes()
	c.Counters["message_types_enumerated"] = len(msgs)
	var admitted, rejected []string
	foreign := 0
	for name, inRepo := range msgs {
		ok := false
		for _, pre := range prefixes {
			if strings.HasPrefix(name, pre) {
				ok = true
			}
		}
		if ok || name == exact {
			admitted = append(admitted, name)
			if !inRepo {
				foreign++
				c.Violated("R3", "foreign-admitted-message "+name, "", "a message type defined outside this repository is admitted by the guard")
			}
		} else {
			rejected = append(rejected, name)
		}
	}
	sort.Strings(admitted)
	sort.Strings(rejected)
	want := []string{
		"goat.bitcoin.v1.MsgApproveCancellation", "goat.bitcoin.v1.MsgFinalizeWithdrawal", "goat.bitcoin.v1.MsgNewBlockHashes", "goat.bitcoin.v1.MsgNewConsolidation",
		"goat.bitcoin.v1.MsgNewDeposits", "goat.bitcoin.v1.MsgNewPubkey", "goat.bitcoin.v1.MsgProcessWithdrawal", "goat.bitcoin.v1.MsgReplaceWithdrawal",
		"goat.goat.v1.MsgNewEthBlock", "goat.relayer.v1.MsgAcceptProposerRequest", "goat.relayer.v1.MsgNewVoterRequest",
	}
	// every admitted request type must have a handler that R4 covers; new admitted names are reported
	adm := map[string]bool{}
	for _, a := range admitted {
		adm[a] = true
	}
	for _, w := range want {
		if !adm[w] {
			c.Note("expected message %s is not admitted/registered any more", w)
		}
		delete(adm, w)
	}
	var extra []string
	for a := range adm {
		if strings.HasSuffix(a, "Response") || !strings.Contains(a, ".Msg") {
			continue
		}
		extra = append(extra, a)
	}
	sort.Strings(extra)
	if len(extra) > 0 {
		c.Violated("R3", "admitted-set", "", "message types admitted beyond the reviewed set: "+strings.Join(extra, ", ")+" (review their proposer binding and add them to the table)")
	} else if foreign == 0 {
		c.Held("R3", "admitted-set", "", fmt.Sprintf("%d admitted request types (all in this repository); %d other registered Msg-service types rejected", len(admitted), len(rejected)))
	}
	for _, ctl := range []string{"cosmos.auth.v1beta1.MsgUpdateParams", "cosmos.consensus.v1.MsgUpdateParams"} {
		if _, ok := msgs[ctl]; !ok {
			c.Violated("R3", "positive-control "+ctl, "", "administration message not found among registered types: the enumeration is incomplete reason=not-established")
		} else if contains(admitted, ctl) {
			c.Violated("R3", "positive-control "+ctl, "", "administration message admitted")
		} else {
			c.Held("R3", "positive-control "+ctl, "", "registered and rejected by the guard")
		}
	}
	c.Extra["admitted_messages"] = admitted
	c.Extra["rejected_messages_sample"] = rejected
}
