#!/bin/bash
# seedcheck.sh <worktree-with-SEED> <name> "<props>" [demo-pkg-dir] [seed-subdir=SEED]  — confirm a seeded change and run our checks against it
set -u
SRC="$1"; NAME="$2"; PROP="$3"; SUB="${5:-SEED}"
export GOFLAGS=-mod=mod GOPROXY=off GOSUMDB=off GOTOOLCHAIN=local; unset GOWORK
SC=/tmp/sc-$NAME
rm -rf $SC; git -C /repo worktree prune; git -C /repo worktree add -q --detach $SC HEAD || exit 3
DEMO=$(ls $SRC/$SUB/*_test.go | head -1)
PKG="${4:-}"
if [ -z "$PKG" ]; then PKG=$(cd $SRC && git status --porcelain | grep '_seed_test.go\|_test.go' | grep '^??' | head -1 | awk '{print $2}' | xargs dirname); fi
echo "demo=$DEMO pkg=$PKG"
cd $SC
git apply $SRC/$SUB/patch.diff || { echo "PATCH-DOES-NOT-APPLY"; exit 3; }
go build ./... || { echo "DOES-NOT-COMPILE"; exit 3; }
go test -count=1 ./... > /tmp/sc-$NAME.full.log 2>&1; FULL=$?
echo "full suite with change: rc=$FULL"; grep -v "^ok\|no test files" /tmp/sc-$NAME.full.log | head -5
cp $DEMO $PKG/
go test -count=1 ./$PKG/ > /tmp/sc-$NAME.with.log 2>&1; WITH=$?
echo "demo with change: rc=$WITH (want != 0)"; tail -3 /tmp/sc-$NAME.with.log
git apply -R $SRC/$SUB/patch.diff
go test -count=1 ./$PKG/ > /tmp/sc-$NAME.without.log 2>&1; WITHOUT=$?
echo "demo without change: rc=$WITHOUT (want 0)"; tail -2 /tmp/sc-$NAME.without.log
cd /verif
git -C /repo worktree remove --force $SC
# our checks against the change
git -C /repo apply $SRC/$SUB/patch.diff || { echo "cannot apply to /repo"; exit 3; }
OUT=/tmp/sc-$NAME.check.log; : > $OUT
for P in $PROP; do ./run.sh $P quick >> $OUT 2>&1; echo "check $P rc=$?"; done
git -C /repo apply -R $SRC/$SUB/patch.diff || git -C /repo checkout -- .; [ -z "$(git -C /repo status --porcelain)" ] || echo "WARNING: /repo not clean after revert"
grep "^VIOLATION" $OUT | cut -c1-300
mkdir -p /verif/seeded/$NAME
cp $SRC/$SUB/patch.diff /verif/seeded/$NAME/patch.diff
cp $DEMO /verif/seeded/$NAME/
cp $SRC/$SUB/README.md /verif/seeded/$NAME/README.agent.md 2>/dev/null
echo "CONFIRM full=$FULL with=$WITH without=$WITHOUT pkg=$PKG"
