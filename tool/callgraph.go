package main

import (
	"go/types"
	"sort"
	"strings"

	"golang.org/x/tools/go/ssa"
)

// CallGraph over the repository's own functions: static callees, closures
// created by a function (MakeClosure counts as a potential call), and interface
// invocations resolved by class-hierarchy analysis over the *production* types
// only (mocks in testutil must not widen dispatch).
type CallGraph struct {
	p     *Prog
	Out   map[*ssa.Function][]CGEdge
	In    map[*ssa.Function][]CGEdge
	Ext   map[*ssa.Function][]ExtCall // calls to functions outside the repository
	impls map[*types.Func][]*ssa.Function
}

type CGEdge struct {
	From, To *ssa.Function
	Site     ssa.Instruction
}

type ExtCall struct {
	Site ssa.Instruction
	Name string // full name e.g. time.Now, (*sync.Pool).Get
}

func (p *Prog) CG() *CallGraph {
	if p.cg != nil {
		return p.cg
	}
	cg := &CallGraph{p: p, Out: map[*ssa.Function][]CGEdge{}, In: map[*ssa.Function][]CGEdge{}, Ext: map[*ssa.Function][]ExtCall{}, impls: map[*types.Func][]*ssa.Function{}}
	p.cg = cg
	inRepo := map[*ssa.Function]bool{}
	for _, f := range p.Funcs {
		inRepo[f] = true
	}
	// production named types for CHA
	var prodTypes []types.Type
	for _, pk := range p.Pkgs {
		if !isProdPkg(pk.PkgPath) {
			continue
		}
		sc := pk.Types.Scope()
		for _, n := range sc.Names() {
			if tn, ok := sc.Lookup(n).(*types.TypeName); ok && !tn.IsAlias() {
				if _, isIface := tn.Type().Underlying().(*types.Interface); isIface {
					continue
				}
				prodTypes = append(prodTypes, tn.Type(), types.NewPointer(tn.Type()))
			}
		}
	}
	resolveInvoke := func(c *ssa.CallCommon) []*ssa.Function {
		if fs, ok := cg.impls[c.Method]; ok {
			return fs
		}
		var out []*ssa.Function
		iface, _ := c.Value.Type().Underlying().(*types.Interface)
		seen := map[*ssa.Function]bool{}
		for _, t := range prodTypes {
			if iface == nil || !types.Implements(t, iface) {
				continue
			}
			sel := p.SSA.MethodSets.MethodSet(t).Lookup(c.Method.Pkg(), c.Method.Name())
			if sel == nil {
				continue
			}
			if fn := p.SSA.MethodValue(sel); fn != nil && !seen[fn] {
				// wrappers for promoted methods: follow to the declared method
				target := fn
				if fn.Synthetic != "" {
					if o, ok := sel.Obj().(*types.Func); ok {
						if d := p.SSA.FuncValue(o); d != nil {
							target = d
						}
					}
				}
				if inRepo[target] && !seen[target] {
					seen[target] = true
					out = append(out, target)
				}
			}
		}
		cg.impls[c.Method] = out
		return out
	}
	add := func(from, to *ssa.Function, site ssa.Instruction) {
		e := CGEdge{from, to, site}
		cg.Out[from] = append(cg.Out[from], e)
		cg.In[to] = append(cg.In[to], e)
	}
	for _, f := range p.Funcs {
		for _, b := range f.Blocks {
			for _, in := range b.Instrs {
				switch x := in.(type) {
				case *ssa.MakeClosure:
					if fn, ok := x.Fn.(*ssa.Function); ok && inRepo[fn] {
						add(f, fn, in)
					}
				case ssa.CallInstruction:
					c := x.Common()
					if c.IsInvoke() {
						tgts := resolveInvoke(c)
						for _, t := range tgts {
							add(f, t, in)
						}
						if len(tgts) == 0 {
							cg.Ext[f] = append(cg.Ext[f], ExtCall{in, "invoke " + c.Value.Type().String() + "." + c.Method.Name()})
						}
						continue
					}
					if sc := c.StaticCallee(); sc != nil {
						tgt := sc
						if sc.Synthetic != "" && sc.Origin() == nil {
							// wrapper/bound method: resolve declared function
							if o, ok := sc.Object().(*types.Func); ok {
								if d := p.SSA.FuncValue(o); d != nil {
									tgt = d
								}
							}
						}
						if inRepo[tgt] {
							add(f, tgt, in)
						} else {
							name := sc.String()
							if o, ok := sc.Object().(*types.Func); ok {
								name = o.FullName()
							} else if sc.Origin() != nil {
								if o, ok := sc.Origin().Object().(*types.Func); ok {
									name = o.FullName()
								}
							}
							cg.Ext[f] = append(cg.Ext[f], ExtCall{in, name})
						}
						continue
					}
					// dynamic call through a function value: values that are repo functions
					switch v := c.Value.(type) {
					case *ssa.Function:
						if inRepo[v] {
							add(f, v, in)
						}
					}
				}
				// function values passed as arguments (e.g. eg.Go(closure), Walk(fn)) are covered by MakeClosure above;
				// named functions used as values:
				for _, op := range in.Operands(nil) {
					if op == nil || *op == nil {
						continue
					}
					if fn, ok := (*op).(*ssa.Function); ok && inRepo[fn] {
						if ci, isCall := in.(ssa.CallInstruction); isCall && ci.Common().Value == fn {
							continue
						}
						add(f, fn, in)
					}
				}
			}
		}
	}
	return cg
}

// Reach computes the functions reachable from roots; parent[f] is the edge it was first reached by.
func (cg *CallGraph) Reach(roots []*ssa.Function, stopAt func(*ssa.Function) bool) (map[*ssa.Function]bool, map[*ssa.Function]CGEdge) {
	seen := map[*ssa.Function]bool{}
	parent := map[*ssa.Function]CGEdge{}
	var q []*ssa.Function
	for _, r := range roots {
		if r != nil && !seen[r] {
			seen[r] = true
			q = append(q, r)
		}
	}
	for len(q) > 0 {
		f := q[0]
		q = q[1:]
		if stopAt != nil && stopAt(f) {
			continue
		}
		for _, e := range cg.Out[f] {
			if !seen[e.To] {
				seen[e.To] = true
				parent[e.To] = e
				q = append(q, e.To)
			}
		}
	}
	return seen, parent
}

// PathTo renders the call chain root → ... → f.
func (cg *CallGraph) PathTo(f *ssa.Function, parent map[*ssa.Function]CGEdge) string {
	var chain []string
	for {
		chain = append([]string{FuncKey(f)}, chain...)
		e, ok := parent[f]
		if !ok {
			break
		}
		f = e.From
	}
	return strings.Join(chain, " → ")
}

// Callers returns the functions with an edge into f.
func (cg *CallGraph) Callers(f *ssa.Function) []*ssa.Function {
	seen := map[*ssa.Function]bool{}
	var out []*ssa.Function
	for _, e := range cg.In[f] {
		if !seen[e.From] {
			seen[e.From] = true
			out = append(out, e.From)
		}
	}
	sort.Slice(out, func(i, j int) bool { return FuncKey(out[i]) < FuncKey(out[j]) })
	return out
}

// ---- entry contexts ----

type Contexts struct {
	Tx       []*ssa.Function // msgServer methods implementing a generated MsgServer interface
	Block    []*ssa.Function // AppModule.BeginBlock / EndBlock
	Genesis  []*ssa.Function // InitGenesis
	Ante     []*ssa.Function
	Proposal []*ssa.Function // Prepare/ProcessProposal handlers
	Query    []*ssa.Function
}

func (p *Prog) Contexts() *Contexts {
	c := &Contexts{}
	// server implementations resolved through the generated MsgServer / QueryServer interfaces
	for _, mod := range []string{"bitcoin", "relayer", "goat", "locking"} {
		tpk := p.ByPath[modPath+"/x/"+mod+"/types"]
		kpk := p.ByPath[modPath+"/x/"+mod+"/keeper"]
		if tpk == nil || kpk == nil {
			panic(unresolved("module packages of " + mod))
		}
		for _, ifn := range []string{"MsgServer", "QueryServer"} {
			o := tpk.Types.Scope().Lookup(ifn)
			if o == nil {
				continue
			}
			iface, ok := o.Type().Underlying().(*types.Interface)
			if !ok {
				continue
			}
			sc := kpk.Types.Scope()
			for _, n := range sc.Names() {
				tn, ok := sc.Lookup(n).(*types.TypeName)
				if !ok {
					continue
				}
				if _, isI := tn.Type().Underlying().(*types.Interface); isI {
					continue
				}
				var impl types.Type
				if types.Implements(tn.Type(), iface) {
					impl = tn.Type()
				} else if types.Implements(types.NewPointer(tn.Type()), iface) {
					impl = types.NewPointer(tn.Type())
				} else {
					continue
				}
				for i := 0; i < iface.NumMethods(); i++ {
					m := iface.Method(i)
					if !m.Exported() {
						continue
					}
					sel := p.SSA.MethodSets.MethodSet(impl).Lookup(m.Pkg(), m.Name())
					if sel == nil {
						continue
					}
					of, ok := sel.Obj().(*types.Func)
					if !ok {
						continue
					}
					fn := p.SSA.FuncValue(of)
					if fn == nil || fn.Blocks == nil || fn.Pkg == nil || fn.Pkg.Pkg != kpk.Types {
						continue // promoted from an embedded Unimplemented server
					}
					if ifn == "MsgServer" {
						c.Tx = append(c.Tx, fn)
					} else {
						c.Query = append(c.Query, fn)
					}
				}
			}
		}
	}
	for _, f := range p.ProdFuncs {
		k := FuncKey(f)
		switch {
		case strings.HasSuffix(k, "/module.AppModule.BeginBlock") || strings.HasSuffix(k, "/module.AppModule.EndBlock"):
			c.Block = append(c.Block, f)
		case strings.HasSuffix(k, "/module.InitGenesis") || strings.HasSuffix(k, "/module.AppModule.InitGenesis"):
			c.Genesis = append(c.Genesis, f)
		case k == "app.GoatGuardHandler.AnteHandle":
			c.Ante = append(c.Ante, f)
		case k == "x/goat/keeper.Keeper.PrepareProposalHandler" || k == "x/goat/keeper.Keeper.ProcessProposalHandler":
			c.Proposal = append(c.Proposal, f)
		}
	}
	return c
}
