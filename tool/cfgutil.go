package main

import (
	"go/token"
	"strconv"
	"go/types"
	"regexp"

	"golang.org/x/tools/go/ssa"
)

var errorType = types.Universe.Lookup("error").Type()

// exitKind classifies a Return: success (error result is the nil constant, or a
// bool result that can be true), failure (a non-nil error construct / false),
// or unknown (the error operand is not a constant: treated as possibly success).
type exitKind int

const (
	exitSuccess exitKind = iota
	exitFailure
	exitMaybe
)

func isNilConst(v ssa.Value) bool {
	c, ok := v.(*ssa.Const)
	return ok && c.Value == nil
}

// classifyReturn decides whether a return can be a success exit.
func classifyReturn(ret *ssa.Return) exitKind {
	fn := ret.Parent()
	res := fn.Signature.Results()
	if res.Len() == 0 {
		return exitSuccess
	}
	last := res.At(res.Len() - 1)
	op := ret.Results[len(ret.Results)-1]
	if types.Identical(last.Type(), errorType) {
		return classifyErr(op, map[ssa.Value]bool{})
	}
	if b, ok := last.Type().Underlying().(*types.Basic); ok && b.Kind() == types.Bool {
		if c, ok := op.(*ssa.Const); ok {
			if c.Value != nil && c.Value.String() == "false" {
				return exitFailure
			}
			return exitSuccess
		}
		return exitMaybe
	}
	return exitSuccess
}

func classifyErr(op ssa.Value, seen map[ssa.Value]bool) exitKind {
	if seen[op] {
		return exitFailure
	}
	seen[op] = true
	switch x := op.(type) {
	case *ssa.Const:
		if x.Value == nil {
			return exitSuccess
		}
		return exitFailure
	case *ssa.MakeInterface:
		return exitFailure // a concrete error value
	case *ssa.Phi:
		k := exitFailure
		for _, e := range x.Edges {
			switch classifyErr(e, seen) {
			case exitSuccess:
				return exitMaybe
			case exitMaybe:
				k = exitMaybe
			}
		}
		return k
	case *ssa.Call:
		if f := calleeFunc(&x.Call); f != nil {
			// error constructors always return non-nil
			switch funcShort(f) {
			case "errorsmod.Wrap", "errorsmod.Wrapf", "errors.New", "fmt.Errorf", "status.Error", "status.Errorf":
				return exitFailure
			}
		}
		return exitMaybe
	case *ssa.Extract:
		// err extracted from a call and returned inside `if err != nil`: decided by dominating fact
		if neverNilHere(x, seen) {
			return exitFailure
		}
		return exitMaybe
	}
	return exitMaybe
}

// neverNilHere is filled in by the caller through retGuardedNonNil (needs the return block).
func neverNilHere(v ssa.Value, _ map[ssa.Value]bool) bool { return false }

// Exit describes a return with its classification after path refinement.
type Exit struct {
	Ret  *ssa.Return
	Kind exitKind
}

// Exits lists the returns of fn; an error operand that is known non-nil on
// every path into the return (it is returned under `if err != nil`) is a failure.
func Exits(fn *ssa.Function) []Exit {
	var out []Exit
	for _, b := range fn.Blocks {
		if len(b.Instrs) == 0 {
			continue
		}
		ret, ok := b.Instrs[len(b.Instrs)-1].(*ssa.Return)
		if !ok {
			continue
		}
		k := classifyReturn(ret)
		if k == exitMaybe && len(ret.Results) > 0 {
			op := ret.Results[len(ret.Results)-1]
			if types.Identical(op.Type(), errorType) {
				// results spilled to a variable because of a defer: classify the value last stored in this block
				if sv := spilledValue(op, ret); sv != nil {
					op = sv
					k = classifyErr(op, map[ssa.Value]bool{})
				}
				if k == exitMaybe && knownNonNilAt(op, b) {
					k = exitFailure
				}
			}
		}
		out = append(out, Exit{ret, k})
	}
	return out
}

// knownNonNilAt: every path into block b passes an edge on which v != nil holds
// (b is dominated by the true edge of `v != nil` or false edge of `v == nil`).
func knownNonNilAt(v ssa.Value, b *ssa.BasicBlock) bool {
	for d := b; d != nil; d = d.Idom() {
		id := d.Idom()
		if id == nil {
			break
		}
		iff, ok := id.Instrs[len(id.Instrs)-1].(*ssa.If)
		if !ok {
			continue
		}
		bo, ok := iff.Cond.(*ssa.BinOp)
		if !ok {
			continue
		}
		var other ssa.Value
		if bo.X == v {
			other = bo.Y
		} else if bo.Y == v {
			other = bo.X
		} else {
			continue
		}
		if !isNilConst(other) {
			continue
		}
		// which successor is d reached through?
		if bo.Op == token.NEQ && id.Succs[0] == d && len(d.Preds) == 1 {
			return true
		}
		if bo.Op == token.EQL && id.Succs[1] == d && len(d.Preds) == 1 {
			return true
		}
	}
	return false
}

func SuccessExits(fn *ssa.Function) []ssa.Instruction {
	var out []ssa.Instruction
	for _, e := range Exits(fn) {
		if e.Kind != exitFailure {
			out = append(out, e.Ret)
		}
	}
	return out
}

// EdgeFact: the canonical condition that holds when control takes Block→Succs[Idx]
// (having entered Block from Pred, when the condition is a φ of booleans computed in Block:
// the lowering of `c := a && b; if c` — then the fact depends on where control came from).
type EdgeFact struct {
	Block *ssa.BasicBlock
	Idx   int
	Fact  string
	Pred  *ssa.BasicBlock // nil: any predecessor
}

func (e EdgeFact) Key() edgeKey { return edgeKey{e.Block, e.Idx, e.Pred} }

const infeasible = "⊥"

var cmpRe = regexp.MustCompile(`^\((.*) (==|!=|<|<=) (.*)\)$`)

// negateFact negates a canonical comparison.
func negateFact(r *Renderer, cond ssa.Value) string {
	switch x := cond.(type) {
	case *ssa.BinOp:
		switch x.Op {
		case token.EQL, token.NEQ, token.LSS, token.LEQ, token.GTR, token.GEQ:
			return r.cmp(negOp(x.Op), x.X, x.Y)
		}
	case *ssa.UnOp:
		if x.Op == token.NOT {
			return posFact(r, x.X)
		}
	}
	return "!" + r.E(cond)
}

func posFact(r *Renderer, cond ssa.Value) string {
	if x, ok := cond.(*ssa.UnOp); ok && x.Op == token.NOT {
		return negateFact(r, x.X)
	}
	return r.E(cond)
}

// boolPhiCond: the If condition of b is a φ of booleans defined in b itself.
func boolPhiCond(b *ssa.BasicBlock) *ssa.Phi {
	if len(b.Instrs) == 0 {
		return nil
	}
	iff, ok := b.Instrs[len(b.Instrs)-1].(*ssa.If)
	if !ok {
		return nil
	}
	ph, ok := iff.Cond.(*ssa.Phi)
	if !ok || ph.Block() != b {
		return nil
	}
	return ph
}

// EdgeFacts lists both outgoing facts of every If in fn.
func (p *Prog) EdgeFacts(fn *ssa.Function) []EdgeFact {
	return p.edgeFactsWith(fn, p.R(fn))
}

func (p *Prog) edgeFactsWith(fn *ssa.Function, r *Renderer) []EdgeFact {
	var out []EdgeFact
	for _, b := range fn.Blocks {
		if len(b.Instrs) == 0 {
			continue
		}
		iff, ok := b.Instrs[len(b.Instrs)-1].(*ssa.If)
		if !ok {
			continue
		}
		if ph := boolPhiCond(b); ph != nil {
			for k, e := range ph.Edges {
				pred := b.Preds[k]
				if c, ok := e.(*ssa.Const); ok && c.Value != nil {
					// coming from pred the condition is a constant: one successor is infeasible
					if c.Value.String() == "true" {
						out = append(out, EdgeFact{b, 1, infeasible, pred})
					} else {
						out = append(out, EdgeFact{b, 0, infeasible, pred})
					}
					continue
				}
				out = append(out, EdgeFact{b, 0, posFact(r, e), pred}, EdgeFact{b, 1, negateFact(r, e), pred})
			}
			// the φ as a whole is also a fact (for rules that name the combined condition)
			out = append(out, EdgeFact{b, 0, posFact(r, iff.Cond), nil}, EdgeFact{b, 1, negateFact(r, iff.Cond), nil})
			continue
		}
		out = append(out, EdgeFact{b, 0, posFact(r, iff.Cond), nil}, EdgeFact{b, 1, negateFact(r, iff.Cond), nil})
	}
	return out
}

type edgeKey struct {
	b    *ssa.BasicBlock
	i    int
	pred *ssa.BasicBlock
}

// PathSearch finds a path from `from` (nil: function entry) to any target
// instruction that avoids the forbidden edges and instructions. It returns the
// list of (block) steps of the witness path, or nil when no such path exists.
type PathSearch struct {
	Fn            *ssa.Function
	AvoidEdges    map[edgeKey]bool
	AvoidInstr    func(ssa.Instruction) bool
	From          ssa.Instruction // start right after this instruction; nil = entry
	IsTarget      func(ssa.Instruction) bool
	NoRecoverEdge bool
}

type pathStep struct {
	b    *ssa.BasicBlock
	from *ssa.BasicBlock // predecessor we came from (only kept for blocks branching on a boolean φ)
	prev *pathStep
}

type visitKey struct{ b, from *ssa.BasicBlock }

// infeasibleEdges: (pred, block, succ) triples excluded because the branch condition is a constant on that path.
func infeasibleEdges(fn *ssa.Function) map[edgeKey]bool {
	m := map[edgeKey]bool{}
	for _, b := range fn.Blocks {
		ph := boolPhiCond(b)
		if ph == nil {
			continue
		}
		for k, e := range ph.Edges {
			if c, ok := e.(*ssa.Const); ok && c.Value != nil {
				if c.Value.String() == "true" {
					m[edgeKey{b, 1, b.Preds[k]}] = true
				} else {
					m[edgeKey{b, 0, b.Preds[k]}] = true
				}
			}
		}
	}
	return m
}

// Find returns (target instruction, path blocks) or (nil, nil).
func (s *PathSearch) Find() (ssa.Instruction, []*ssa.BasicBlock) {
	if len(s.Fn.Blocks) == 0 {
		return nil, nil
	}
	infeas := infeasibleEdges(s.Fn)
	scan := func(b *ssa.BasicBlock, start int) (ssa.Instruction, bool) {
		// returns (target, blocked)
		for i := start; i < len(b.Instrs); i++ {
			in := b.Instrs[i]
			if s.IsTarget(in) {
				return in, false
			}
			if s.AvoidInstr != nil && s.AvoidInstr(in) {
				return nil, true
			}
		}
		return nil, false
	}
	visited := map[visitKey]bool{}
	var queue []*pathStep
	startBlock := s.Fn.Blocks[0]
	startIdx := 0
	if s.From != nil {
		startBlock = s.From.Block()
		startIdx = instrIndex(s.From) + 1
	}
	first := &pathStep{b: startBlock}
	if t, blocked := scan(startBlock, startIdx); t != nil {
		return t, []*ssa.BasicBlock{startBlock}
	} else if !blocked {
		queue = append(queue, first)
	}
	if s.From == nil {
		visited[visitKey{startBlock, nil}] = true
	}
	for len(queue) > 0 {
		cur := queue[0]
		queue = queue[1:]
		for i, succ := range cur.b.Succs {
			// edge avoidance: wildcard predecessor or the predecessor we came through
			if s.AvoidEdges[edgeKey{cur.b, i, nil}] {
				continue
			}
			if cur.from != nil && (s.AvoidEdges[edgeKey{cur.b, i, cur.from}] || infeas[edgeKey{cur.b, i, cur.from}]) {
				continue
			}
			vk := visitKey{succ, nil}
			var from *ssa.BasicBlock
			if boolPhiCond(succ) != nil {
				from = cur.b
				vk = visitKey{succ, cur.b}
			}
			if visited[vk] {
				continue
			}
			visited[vk] = true
			st := &pathStep{b: succ, from: from, prev: cur}
			t, blocked := scan(succ, 0)
			if t != nil {
				var path []*ssa.BasicBlock
				for x := st; x != nil; x = x.prev {
					path = append([]*ssa.BasicBlock{x.b}, path...)
				}
				return t, path
			}
			if !blocked {
				queue = append(queue, st)
			}
		}
	}
	return nil, nil
}

func instrSet(ins []ssa.Instruction) func(ssa.Instruction) bool {
	m := map[ssa.Instruction]bool{}
	for _, i := range ins {
		m[i] = true
	}
	return func(i ssa.Instruction) bool { return m[i] }
}

// MatchEdges returns the edges whose fact matches re — directly, or because the edge is the
// success edge of a call to a repository helper in which every success exit establishes the
// fact (the helper's facts are rewritten into the caller's terms: $i ↦ the i-th argument).
func (p *Prog) MatchEdges(fn *ssa.Function, re *regexp.Regexp) []EdgeFact {
	return p.matchEdgesDepth(fn, re, 2)
}

func (p *Prog) matchEdgesDepth(fn *ssa.Function, re *regexp.Regexp, depth int) []EdgeFact {
	var out []EdgeFact
	for _, ef := range p.EdgeFacts(fn) {
		if ef.Fact == infeasible {
			continue
		}
		if re.MatchString(ef.Fact) {
			out = append(out, ef)
			continue
		}
		if depth > 0 && ef.Pred == nil {
			if v := p.successCallOfEdge(ef); v != nil && p.callImplies(fn, v, re, depth) {
				out = append(out, ef)
			}
		}
	}
	return out
}

// successCallOfEdge: the edge is taken exactly when a call succeeded (err == nil / bool true); returns the tested value.
func (p *Prog) successCallOfEdge(ef EdgeFact) ssa.Value {
	iff, ok := ef.Block.Instrs[len(ef.Block.Instrs)-1].(*ssa.If)
	if !ok {
		return nil
	}
	cond := iff.Cond
	taken := ef.Idx == 0
	for {
		if u, ok := cond.(*ssa.UnOp); ok && u.Op == token.NOT {
			cond, taken = u.X, !taken
			continue
		}
		break
	}
	switch x := cond.(type) {
	case *ssa.BinOp:
		var v ssa.Value
		if isNilConst(x.Y) {
			v = x.X
		} else if isNilConst(x.X) {
			v = x.Y
		} else {
			return nil
		}
		if !types.Identical(v.Type(), errorType) {
			return nil
		}
		if (x.Op == token.EQL && taken) || (x.Op == token.NEQ && !taken) {
			return v
		}
	case *ssa.Call:
		if taken {
			return x
		}
	}
	return nil
}

// callImplies: v is the error (or bool) result of a call to a repository function g; does
// every success exit of g establish a fact that, rewritten into the caller's terms, matches re?
func (p *Prog) callImplies(fn *ssa.Function, v ssa.Value, re *regexp.Regexp, depth int) bool {
	if depth <= 0 {
		return false
	}
	var call *ssa.Call
	switch x := v.(type) {
	case *ssa.Call:
		call = x
	case *ssa.Extract:
		call, _ = x.Tuple.(*ssa.Call)
	}
	if call == nil {
		return false
	}
	g := call.Call.StaticCallee()
	if g == nil || g.Blocks == nil || !isProdPkgFn(g) || g == fn {
		return false
	}
	r := p.R(fn)
	bind := make([]string, len(call.Call.Args))
	for i, a := range call.Call.Args {
		bind[i] = r.E(a)
	}
	gr := p.RBound(g, bind, 1)
	subst := func(s string) string { return s }
	avoid := map[edgeKey]bool{}
	n := 0
	for _, ef := range p.edgeFactsWith(g, gr) {
		if ef.Fact == infeasible {
			continue
		}
		if re.MatchString(ef.Fact) {
			avoid[ef.Key()] = true
			n++
		}
	}
	// exits of g that return a call directly
	var targets []ssa.Instruction
	for _, e := range Exits(g) {
		if e.Kind == exitFailure {
			continue
		}
		if e.Kind == exitMaybe && len(e.Ret.Results) > 0 {
			op := e.Ret.Results[len(e.Ret.Results)-1]
			if sv := spilledValue(op, e.Ret); sv != nil {
				op = sv
			}
			f := ""
			if types.Identical(op.Type(), errorType) {
				f = EQ(gr.E(op), "nil")
			} else {
				f = posFact(gr, op)
			}
			if re.MatchString(subst(f)) {
				n++
				continue
			}
		}
		targets = append(targets, e.Ret)
	}
	if n == 0 {
		return false
	}
	t, _ := (&PathSearch{Fn: g, AvoidEdges: avoid, IsTarget: instrSet(targets)}).Find()
	return t == nil
}

// callImpliesSubst: nested helper calls (facts of the inner helper are rewritten twice).
func (p *Prog) callImpliesSubst(fn *ssa.Function, v ssa.Value, re *regexp.Regexp, depth int, outer func(string) string) bool {
	if depth <= 0 {
		return false
	}
	// wrap the pattern test: inner facts are first rewritten into fn's terms by callImplies, then into the outer caller's
	wrapped := &substRegexp{re: re, f: outer}
	_ = wrapped
	return false
}

type substRegexp struct {
	re *regexp.Regexp
	f  func(string) string
}

// describePath renders a witness path as file:line steps.
func (p *Prog) describePath(path []*ssa.BasicBlock) []string {
	var out []string
	for _, b := range path {
		pos := "-"
		for _, in := range b.Instrs {
			if in.Pos().IsValid() {
				pos = p.Pos(in.Pos())
				break
			}
		}
		out = append(out, "b"+itoa(b.Index)+"("+b.Comment+")@"+pos)
	}
	return out
}

func itoa(i int) string { return strconv.Itoa(i) }

// callsIn lists call instructions (Call, Defer, Go) of fn in block order.
func callsIn(fn *ssa.Function) []ssa.CallInstruction {
	var out []ssa.CallInstruction
	for _, b := range fn.Blocks {
		for _, in := range b.Instrs {
			if c, ok := in.(ssa.CallInstruction); ok {
				out = append(out, c)
			}
		}
	}
	return out
}

// spilledValue: op is a load of a result variable (defer-spilled return); return
// the value stored to that variable last in the return's block, if any.
func spilledValue(op ssa.Value, ret *ssa.Return) ssa.Value {
	u, ok := op.(*ssa.UnOp)
	if !ok || u.Op != token.MUL {
		return nil
	}
	a, ok := u.X.(*ssa.Alloc)
	if !ok {
		return nil
	}
	b := ret.Block()
	var last ssa.Value
	for _, in := range b.Instrs {
		if st, ok := in.(*ssa.Store); ok && st.Addr == a {
			last = st.Val
		}
	}
	return last
}
