#!/bin/bash
# bt.sh <patch> "<props>" [dump-regexp] : analyse /repo with the patch overlaid (never modifies /repo), print VIOLATED lines
f="$1"; props="$2"
d=$(mktemp -d /tmp/bt-XXXXXX)
python3 /verif/mkoverlay.py "$f" $d/ov || { rm -rf $d; exit 3; }
for p in $props; do TMPDIR=$d /verif/bin/goatverif -repo /repo -overlay $d/ov -verif /verif -prop $p -no-evidence 2>&1 | grep "^VIOLATED\|   witness\|INFRA" | cut -c1-${COLS:-420}; done
if [ -n "$3" ]; then TMPDIR=$d /verif/bin/goatverif -repo /repo -overlay $d/ov -no-evidence -dump "$3"; fi
rm -rf $d
