#!/usr/bin/env python3
"""Regenerates /verif/MANIFEST.json from the table below (claimed checks) and properties.jsonl."""
import json, os

HERE = os.path.dirname(os.path.abspath(__file__))
props = [json.loads(l) for l in open(os.path.join(HERE, "properties.jsonl"))]

TRUST = ("Trusted: cosmos-sdk v0.50 baseapp (panic recovery, rollback on error), CometBFT v0.38, collections key order, "
         "blst/btcd/goat-geth/bitmap libraries, go/types + go/ssa (x/tools v0.29.0). Decides structural necessary conditions "
         "only; the behavioural property over all inputs/histories is NOT decided.")

# id -> (technique, what is decided, what is not)
CLAIMED = {
 "C01": ("must-pass guard facts on the SSA CFG of VerifyProposal + gate domination in the 5 voted handlers + SSA value provenance of keys/sign-doc",
         "every voted handler passes VerifyProposal's success edge before any state write; VerifyProposal contains the proposer/sequence/epoch/threshold/aggregate facts on every success path; the mark count compared with the threshold is tied to the keys verified; the signed document binds method, chain, proposer, sequence, epoch and every payload field; Threshold() has the ceil(2(n+1)/3) shape; voter records are created only after the new vote key was compared with the records of every status (two records never share a key, so one signature cannot take two seats)",
         "BLS soundness, arithmetic of the threshold for all n, SDK rollback"),
 "C02": ("who-may-write over collections call sites + call-graph callers + must-pass facts",
         "the sequence is written only by SetProposalSeq/genesis, called only by voted handlers, exactly once per success path with VerifyProposal's sequence + 1, paired with UpdateRandao(req); the accepted flag is flipped only after every guard; no package-level state is written from consensus code; the sign document of every voted message covers each field its handler acts on (C01/R4)",
         "rollback itself (SDK), cross-chain non-acceptance (crypto)"),
 "C03": ("must-pass guard facts and argument provenance in VerifyDeposit / NewDeposits (SSA)",
         "all deposit checks lie on every success path with the same txid/header/script/address objects; mark-before-next inside the batch loop; tx sizes > 64 enforced before verification; tax computed as value/10000*rate with min(cap) and subtracted from the credited amount; every parameter setting the module accepts (execution-layer updates and genesis validation) keeps the rate below 100%",
         "hash/Merkle/script soundness, the arithmetic identity for all 64-bit values"),
 "C04": ("must-pass guard facts and loop-shape matching on the SSA of VerifyMerkelProof",
         "length guards, parity-steered concatenation order, per-level shift, position < 2^len(path) before a true result, callers pass the position field their coinbase rule uses",
         "functional equivalence with Bitcoin's Merkle tree on all inputs"),
 "C05": ("enum typestate dataflow over Withdrawal.Status in every production function + pairing path searches + must-pass term facts",
         "the status transition relation the code can perform equals the allowed one (paid/canceled terminal, never rewritten); each terminal write is paired with exactly one queue notice of the same id; every term check precedes the record write in Process/Replace; Finalize needs txid membership, voted header hash, SPV and reports the matched output; every non-failing iteration of the Process/Replace loops records the output value for its withdrawal; the change-output check uses the system-address recipe the address builder uses (C17/R1); the voted MsgNewPubkey handler stores the voted key as the current relayer key on every success path and nothing else writes it at run time",
         "behaviour over interleavings as such, float rounding of the fee-rate comparison, id reuse by the execution layer"),
 "C20": ("must-pass relational guard facts on the stored SSA value for every runtime store to the three bounded parameters + who-may-write",
         "every runtime store to DepositTaxRate/MinDepositAmount/ConfirmationNumber is dominated by the bound on the very value stored (rate < 10000, amount > 1000, number >= 1); no other runtime writer; tax divisor equals the rate bound and division comes first; every parameter store fed from a request element is reached under the same request-dependent guards as the other stores fed from that element (an out-of-range request is ignored as a whole)",
         "the arithmetic consequence for every 64-bit value; genesis configuration"),
 "C06": ("call-graph who-may-call + SSA nonce/queue pop-shape analysis (value graph of the nonce, counter identity of index and re-slice) + must-pass facts",
         "the dequeue functions are reachable only via Dequeue/VerifyDequeue (tx context: NewEthBlock only); every emitted system tx is paired with nonce+1 and the stored nonce is Peek + emits; lists are consumed F[n] for n=0.. under len/cap bounds and re-sliced by the same n; queue and nonce are stored on every success path that emitted; block hashes are stored at tip+1.. with start == tip+1 and have no other writer; VerifyDequeue byte-compares the two dequeued lists in order and requires the declared count to reach zero, and in NewEthBlock it precedes the processing of the payload's own requests; other queue writers only append at the tail; the sweep of matured unlocks collects every entry it visits, in walk order (C15/R2); a claim queues exactly what the record holds and clears it before the next request (C12/R3); a withdrawal id enters the paid / rejected queue once (C05/R2)",
         "behaviour across abandoned proposal rounds and restarts (SDK state branching), numeric adequacy of the caps"),
 "C07": ("call-graph reachability to nondeterminism sources with a positive control + map-range loop-body effect analysis + process-local-state rules",
         "no time/rand/env/goroutine/channel/select reachable from tx, block-hook, ante or genesis code; every map range there is order-insensitive (no store access at all in gas-metered context; key-derived writes and order-free result in block context); no package-level or keeper-reachable mutable state; only exact IEEE float operations",
         "determinism of dependencies, restart equivalence of the store"),
 "C08": ("must-pass facts in ProcessProposal/PrepareProposal closures + sibling obligation comparison (proposal check vs execution) + inter-procedural read/write effect sets of errgroup closures + call-graph who-may-write of begin blockers against the collections read by the proposal-time checks",
         "ProcessProposal skeleton (1..16 txs, per-tx verification, first tx = single MsgNewEthBlock verified, none later, ACCEPT after the list); Prepare stops at the same cap; verifyEthBlockProposal and NewEthBlock agree on the structural checks (proposer, fee recipient, parent hash, number+1, 32-byte block hash, beacon root, system txs, requests) and createEthBlockProposal sources the same state; engine error/non-VALID rejects; no memory written by one errgroup closure is accessed by its sibling; every mempool tx entering the prepared proposal passes a size guard (including the block tx) against RequestPrepareProposal.MaxTxBytes; no begin-of-block code writes a collection that the proposal-time dequeue / head checks read (so the accepted proposal is finalised on the state it was built on); the cap constant is the 16 of the property; from every errgroup Go no path reaches a success exit or a read of a variable the goroutine writes without passing the group's Wait",
         "that honest proposals are always accepted (clocks, engine behaviour), races inside the SDK/mempool"),
 "C09": ("who-may-write + must-pass facts dominating the head writes + value provenance of the engine call arguments + typed AST of the app config",
         "Block/BeaconRoot written only by NewEthBlock and genesis, after every structural guard (incl. a 32-byte block hash: the engine sees a cropped hash, the head records the raw bytes) and request processor; Finalized returns both engine errors, fails on INVALID from either call, sends the recorded head with safe = finalized = parent; goat EndBlock returns Finalized's error and the module is wired as end-blocker; engine RPC wrappers propagate errors",
         "retry-after-fault equivalence, what the engine does"),
 "C10": ("typed decorator-chain check + must-pass facts on every path to next() + per-mode admission path search + extraction of the name predicate and evaluation over every registered Msg type of the app's import closure",
         "ante chain composition and installation; StdTx/memo/one-signer/timeout guards; in each of the five execution modes a message reaches next() only through relayerTxOnly (or the exact MsgNewEthBlock name with timeout == height in block modes); relayerTxOnly = namespace prefix + signer equals current relayer proposer; the predicate admits exactly the repository's bitcoin/relayer messages (administration messages found and rejected); admitted handlers bind the proposer before any write; only timeout < height counts as expired (a transaction whose timeout equals the block height — the block message — is not rejected by the expiry test); the proposal check hands every tx to ProcessProposalVerifyTx before it accepts (C08/R1)",
         "signature/sequence decorator internals (SDK)"),
 "C11": ("who-may-write on holdings/Slashed + canonical-expression pairing of the amounts taken and credited (SSA value provenance) + loop must-execute",
         "holdings are written only by lock/unlock/slash; unlock queues and subtracts the same value, which is min(requested, held); lock adds exactly the aggregated request; each slash credits Slashed[denom] with previous + exactly what leaves the holding (all of it when the truncated fraction is zero), for every coin, with the right fraction per offence; a validator record built from scratch is stored only under a key found absent; both slash fractions are validated into [0, 1); the locking hand-over consumes exactly the unlocks it emitted (C06/R2)",
         "the global conservation identity over histories, non-negativity for all amounts"),
 "C12": ("canonical-expression pairing of pool/remainder/share values + resolved rounding-mode of every LegacyDec operation on the share path + who-may-write",
         "the block reward moved into distribution equals what leaves the grant and is min(remaining, halved reward); each share is floor(pool x previous-block power / total) with round-down operations only, the same value is credited to the validator and subtracted from the remainder that is stored back; claim queues the accrued amounts read before the reset and stores record and queue; the locking BeginBlock hook reaches DistributeReward on every success path; a success path of UpdateRewardPool goes round the move into the distribution pool only when the amount to move is zero",
         "the emission numbers, proportionality beyond rounding direction, non-negativity over histories"),
 "C13": ("validator-status typestate (current and as-loaded) at every ranking/locking-index effect site + path searches for remove-before-change + positive-power guard facts",
         "ranking inserts use the record's current power, only for Pending/Active records and only under power > 0; power changes and status writes leaving {Pending,Active} of possibly-ranked records are preceded by removal of the loaded ranking entry; a removed ranking entry is re-inserted on every path on which the record stays Pending/Active with possibly positive power; the locking index is written only for Pending/Active records and fully cleared when a record leaves them; EndBlocker reports the loaded record's power, mirrors it in ValidatorSet and bounds the walk by MaxValidators; every explicit failure exit of the begin blocker's reward distribution is reached only with a non-empty last commit (a chain started from an exported state has a first block without one); every validator update reported to the consensus engine is paired with the matching ValidatorSet.Set / Remove (directly or in a helper that always makes the call); every write of the power ranking in production code is one of the examined sites, in a function holding the validator record, and every removed key is Join(record.Power, address) of such a record; a power converted to int64 for the consensus engine has an upper bound established at the conversion or where the power is increased (today it has not: known finding D18)",
         "top-K optimality over histories, ties, the total-power bound as a number (only that some bound exists), store errors"),
 "C14": ("enum typestate over Validator.Status in every locking function + must-pass guard facts at transitions",
         "the status transition relation equals the allowed one (nothing leaves Tombstoned; Inactive only to Tombstoned); unjail only after the jail time with all thresholds met; jail only under the missed-blocks guard on the stored counter (incremented or not by this block, never a value that may come from the window reset) with power 0, jail time and downtime slash; only Active validators are counted; the signing window is reset on (re)activation or jail; evidence is ignored only when both age limits are exceeded, and evidence of any kind older than both is ignored (the accused validator is loaded only past a not-older edge); locks never touch dead validators; unexpired evidence always ends in the Tombstoned write unless the record was Tombstoned when loaded; wherever the window offset restarts at 0 the missed counter restarts too; the locking BeginBlock hook reaches HandleVoteInfos and HandleEvidences on every success path; every piece of double-sign / light-client-attack evidence of a block is handed to handleEvidence",
         "window arithmetic across boundaries, exactly-once over time beyond the typestate argument"),
 "C15": ("phi-edge provenance of the maturity key + typestate/effect-site checks on the exiting branch + rendered-value checks of the sweep + interleaving search over read-modify-write pairs (through helpers)",
         "maturity = block time + exit delay exactly when status is Inactive/Tombstoned or the remainder falls below the threshold, else + unlock delay; the entry written is the stored entry for that instant extended by this unlock; exiting zeroes power, moves to Inactive, clears the locking index and never re-ranks; the sweep covers (-inf, block time], removes every visited key, appends every visited unlock once in order and stores the queue; no two read-modify-write sequences on one keeper map with different key expressions are interleaved (lost update); the end blocker evicts every member of the last set that is not re-elected, whatever its status (C13/R4); the locking EndBlock hook reaches the sweep on every success path",
         "time arithmetic, delivery caps over histories"),
 "C16": ("must-pass proof facts before any write in NewVoter + voter-status typestate with queue pairing + relational guard on the remaining-member count + election path searches",
         "a voter joins only after both proofs over the same registration sign doc bound to chain/epoch/proposer, with matching key hash and PENDING status; status transitions are the allowed ones and each boarding write is paired with one queue append; a removal is queued only if the remaining count stays >= 1; an election is skipped only within the period with an accepted proposer / no or unexpired timeout, and started only when the period elapsed or a configured timeout expired unaccepted; every election path increments the epoch once, stores the relayer, and replaces/swaps the proposer with a voter that leaves the voter list; applied queues are cleared and stored; a voter record is created only when its address is absent and after a branch on a lookup that receives the new vote key and reads the voter records, comparing records of every status (distinct members); the new record carries the height of its registration (NewVoter's proofs are bound to it); genesis import refuses a proposer that is also listed among the voters; wherever the module chooses between a voter's VoteKey field and its SHA-256, the raw field is taken only under status Pending and the hash only otherwise; a proposer that acts is marked accepted on every success exit of VerifyProposal / VerifyNonProposal; the relayer EndBlock hook runs the end blocker; a record stored with a possibly new proposer carries ProposerAccepted = false; after a voter record is retired no success exit is reached without the proposer having been compared with the retired addresses; the duplicate tests of the relayer genesis import record the key they test",
         "election timing over block-time histories, randomness quality"),
 "C17": ("sibling recipe extraction (canonical SSA expressions of builder vs verifier) + literal/guard facts + key-type matrix facts",
         "for each key type and version the address builder and the script verifier derive the witness program / data script by the same recipe over the same argument roles; verifier literals match the address kind; v1 is ECDSA-only on both sides and deposit verification does not delegate to a helper with a different key matrix; the query dispatches versions like verification; DecodeBtcAddress passes network, IsForNet, p2pk rejection and PayToAddrScript; the relayer's own address check (change / consolidation outputs) tests length, version opcode and push opcode per key type; no process-local state in the keepers the address query reads (C07/R3)",
         "equivalence with btcd on all strings (library behaviour)"),
 "C18": ("coverage analysis of keeper collections and GenesisState fields over Init/ExportGenesis (types + store call sites) + guard facts on derived-index rebuilds + abstract evaluation (known shapes, integer intervals) of import-side validators against runtime record writers + per-status path search to import panics",
         "every collection is exported and imported or is a derived index rebuilt on import; every GenesisState field is assigned on export and consumed on import; derived indices obey the runtime guards (ranked states, positive power, Active-only validator set, queue by voter status); the exported validator set is the recorded ValidatorSet with the validators' keys; every record the running chain builds with statically known field shapes passes the Validate method run on import; no named status value leads to a status-decided panic in code run on import; for every record the chain modifies field by field at run time, Validate (and the helpers it hands the record to) has no failure branch on a modified integer field that a storable value satisfies (interval evaluation against the guards dominating the stores); voter records are created only with an unused vote key (import refuses duplicates); the begin blocker cannot fail on the first block after import (no last commit); the order of the (not exported) voter queue is not copied into the persistent voter list of the group unless canonically ordered first; the exported block-hash window starts at the tip, descends by one and its loop bound does not exclude height 0; indices rebuilt by the locking genesis obey C13/R1,R3; the rebuilt voter queues hold every imported voter whose status says so",
         "equality of two exports, query equivalence (runtime)"),
 "C19": ("reachability from errgroup closures and block hooks + must-pass nil/length guard facts + reviewed table of explicit block-hook failures tied to the C13/C16 invariants + SSA referrer analysis of every error result (errcheck-like, exact exemption table) + failure-branch path search for state writes",
         "outside the framework's panic recovery: the payload nil guard precedes both verification goroutines, every index/slice of proposed data in VerifyDequeue is dominated by its length guard, no unchecked type assertion, explicit panic or dereference of a possibly-nil local pointer is reachable from a goroutine; nothing reachable from the ante handler writes a store (its writes would survive a failing message); the explicit failure exits of begin/end-of-block code are exactly the reviewed ones and the invariants excluding them hold (incl. the zero-power exit needing a non-empty last commit); no process-local state survives a failed tx; no error result is discarded in hand-written production code and no tested state-write failure reaches a success exit; no pointer dereference and no panic(err) on a path where a dominating branch established that the value is nil; every Params field consensus code divides by is validated positive; a store read whose error is tested lets the err != nil branch reach a success exit only over an errors.Is(err, …) edge; errors.Is is called with the error first and the sentinel second wherever a dead forgiving branch would fail a transaction, hook, proposal, import or export",
         "robustness against arbitrary bytes in general (decoders, dependencies) — a fuzzing property; panics inside handlers are recovered by baseapp and are rejections"),
}



NA_REASON = "check under construction in this round (static rules designed in DESIGN.md section 2, not yet wired)"

checks, na = [], []
for p in props:
    pid = p["id"]
    if pid in CLAIMED:
        tech, dec, notdec = CLAIMED[pid]
        checks.append({
            "property_id": pid,
            "quick_cmd": f"./run.sh {pid} quick",
            "thorough_cmd": f"./run.sh {pid} thorough",
            "evidence_file": f"/verif/evidence/{pid}.json",
            "replay_cmd_template": f"./run.sh {pid} quick   # re-decides every obligation of {pid}; the report {{path}} names rule, construct and witness path",
            "engine": "goatverif",
            "level_claimed": {
                "category": "other",
                "text": "Static analysis (no execution): decides, on every path of the code that is there, these structural necessary conditions of the property: " + dec + ". NOT decided: " + notdec + ".",
                "design_ref": f"DESIGN.md section 2, {pid}",
            },
            "level_note": TRUST,
            "technique": "static analysis: " + tech + "; on a tree with functions that are not in the reference inventory, a source-level normalisation (calls of new helpers expanded in place, type-checked again) gives a second view of the same behaviour and the alarm is raised only if neither view discharges every obligation",
        })
    else:
        na.append({"property_id": pid, "reason": NA_REASON})

m = {
 "version": 1,
 "setup_cmd": "./run.sh build",
 "hooks": {
   "guard": "verif",
   "enable": "static analysis loads /repo with -tags verif; no hook files exist (none are needed)",
   "baseline_off_cmd": "for m in $(cat /w/out/gomods.txt); do MF=$(cd /repo/$m && . /w/out/goenv.sh && gomodflag); (cd /repo/$m && go test $MF -json -vet=off -count=1 -timeout 25m ./...); done",
   "source_commits": [],
   "add_only": True,
 },
 "engines": [{"name": "goatverif", "path": "tool/", "serves_properties": sorted(CLAIMED),
              "kind_free_text": "custom static analyser over go/packages + go/types + go/ssa (x/tools v0.29.0, vendored): canonical SSA expression rendering, must-pass edge facts, enum typestate, who-may-write, repo call graph (CHA over production types); normalise.go: Go-to-Go expansion of calls to functions not in the reference inventory (tool/inventory.txt)"}],
 "checks": checks,
 "notes": "All checks are static analysis of /repo's current working tree; see DESIGN.md. fix: commits in /repo are listed in known_findings.txt.",
 "not_applicable": na,
}
json.dump(m, open(os.path.join(HERE, "MANIFEST.json"), "w"), indent=1)
print("claimed", len(checks), "not_applicable", len(na))
