#!/bin/bash
# seedcheck2.sh <agent-worktree> <SEEDn> <name> : confirm a seeded change (fresh worktree of /repo HEAD: applies, builds,
# full suite passes, demo fails with / passes without) and run ALL our checks against it as an overlay (never touches /repo).
# Copies the seed to /verif/seeded/<name>/ and prints one CONFIRM line and the VIOLATION lines.
set -u
SRC="$1"; SUB="$2"; NAME="$3"
export GOFLAGS=-mod=mod GOPROXY=off GOSUMDB=off GOTOOLCHAIN=local; unset GOWORK
SC=/tmp/sc-$NAME
rm -rf $SC; git -C /repo worktree prune; git -C /repo worktree add -q --detach $SC HEAD || exit 3
DEMO=$(ls $SRC/$SUB/*_test.go | head -1)
PKG=$(head -1 $SRC/$SUB/README.md | sed -n 's/^DEMO_PKG:[ ]*//p' | tr -d '`' | awk '{print $1}')
[ -n "$PKG" ] || { echo "NO DEMO_PKG in README"; exit 3; }
cd $SC
git apply $SRC/$SUB/patch.diff || { echo "CONFIRM $NAME PATCH-DOES-NOT-APPLY"; cd /; git -C /repo worktree remove --force $SC; exit 3; }
go build ./... || { echo "CONFIRM $NAME DOES-NOT-COMPILE"; cd /; git -C /repo worktree remove --force $SC; exit 3; }
go test -count=1 ./... > /tmp/sc-$NAME.full.log 2>&1; FULL=$?
cp $DEMO $PKG/
go test -count=1 ./$PKG/ > /tmp/sc-$NAME.with.log 2>&1; WITH=$?
git apply -R $SRC/$SUB/patch.diff
go test -count=1 ./$PKG/ > /tmp/sc-$NAME.without.log 2>&1; WITHOUT=$?
cd /verif
git -C /repo worktree remove --force $SC
mkdir -p /verif/seeded/$NAME
cp $SRC/$SUB/patch.diff /verif/seeded/$NAME/patch.diff
cp $DEMO /verif/seeded/$NAME/
cp $SRC/$SUB/README.md /verif/seeded/$NAME/README.agent.md 2>/dev/null
T=$(mktemp -d /tmp/sc2-XXXXXX)
python3 /verif/mkoverlay.py /verif/seeded/$NAME/patch.diff $T/ov || { echo "overlay failed"; rm -rf $T; exit 3; }
TMPDIR=$T GOMAXPROCS=4 /verif/bin/goatverif -repo /repo -overlay $T/ov -verif /verif -prop all -no-evidence > /tmp/sc-$NAME.check.log 2>&1
rm -rf $T
echo "CONFIRM $NAME full=$FULL with=$WITH(want!=0) without=$WITHOUT(want 0) pkg=$PKG demo=$(basename $DEMO)"
[ $FULL -ne 0 ] && grep -v "^ok\|no test files" /tmp/sc-$NAME.full.log | head -5
grep "^VIOLATION" /tmp/sc-$NAME.check.log | sed 's/replay=[^ ]* //' | cut -c1-260
grep -c "^VIOLATION" /tmp/sc-$NAME.check.log | sed "s/^/NVIOL $NAME /"
