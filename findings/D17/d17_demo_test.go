package relayer_test

// D17 demonstration: the relayer voter queue (keeper.Queue: OnBoarding / OffBoarding) is not part
// of the exported genesis. InitGenesis rebuilds it from genState.Voters, which ExportGenesis
// emits in the iteration order of the Voters map (bech32 address string order). The running
// chain keeps the queue in ARRIVAL order (msgServer.NewVoter appends). At the next election
// EndBlocker appends queue.OnBoarding to relayer.Voters and picks the proposer by index, so a
// chain re-initialised from an export can end the same block with another voter order and
// another proposer than the chain the export was taken from.
//
// Everything below drives the real code: ProcessRelayerRequest, msgServer.NewVoter (real
// secp256k1 + BLS proofs), relayer.ExportGenesis, relayer.InitGenesis and Keeper.EndBlocker.
// Nothing is written into the queue by hand.

import (
	"fmt"
	"slices"
	"testing"
	"time"

	"github.com/cosmos/cosmos-sdk/crypto/keys/secp256k1"
	sdk "github.com/cosmos/cosmos-sdk/types"
	authtypes "github.com/cosmos/cosmos-sdk/x/auth/types"
	"github.com/ethereum/go-ethereum/common"
	"github.com/ethereum/go-ethereum/core/types/goattypes"
	goatcrypto "github.com/goatnetwork/goat/pkg/crypto"
	keepertest "github.com/goatnetwork/goat/testutil/keeper"
	"github.com/goatnetwork/goat/testutil/mock"
	"github.com/goatnetwork/goat/x/relayer/keeper"
	relayer "github.com/goatnetwork/goat/x/relayer/module"
	"github.com/goatnetwork/goat/x/relayer/types"
	"github.com/stretchr/testify/require"
	"go.uber.org/mock/gomock"
)

// d17Voter is one relayer member with its secret keys (same fixtures as x/relayer/keeper/keeper_test.go).
type d17Voter struct {
	Address  string // bech32
	RawAddr  []byte // hash160(tx pubkey)
	TxPriv   []byte // secp256k1 secret
	VotePriv []byte // BLS secret
	VotePub  []byte // 96-byte BLS public key
}

var (
	// the existing group: proposer P and one voter V1 (both ACTIVATED)
	d17P = d17Voter{
		Address: "goat1d3mw054l0cy0593cnhx46zv09lccl8w2crw529",
		RawAddr: common.Hex2Bytes("6c76e7d2bf7e08fa16389dcd5d098f2ff18f9dca"),
		VotePub: common.Hex2Bytes("931e41003cdbb46fa624f0636bceb743ff4f16240e3c175eeafa75fb29d2f3e06e9cd0515840af9d5899621ccb7e16a21251431e69361702478f584b4314e2178443b802302f22be9e38d9bb15abc692fa560ab3e2724f03d27c611db1227552"),
	}
	d17V1 = d17Voter{
		Address: "goat1raazne03hxwxag4udd8vjznk2n42xdvc4tfsnw",
		RawAddr: common.Hex2Bytes("1f7a29e5f1b99c6ea2bc6b4ec90a7654eaa33598"),
		VotePub: common.Hex2Bytes("a05ad80960006177d2d5f424bcb8b68c0089cbb50de7482d1658ce3df4f01261db7df3c67cb4b459b441479e0b6aae8101a776335615749a61646f32fdd5812031f0318a63c7a13963b210dd64a68bc9abd530746190160aa781295e850ec1f5"),
	}

	// the two new voters. "goat163..." < "goat17w..." as strings, so d17Earlier sorts first
	// in the Voters map and d17Later sorts second.
	d17Earlier = d17Voter{
		Address:  "goat163d3yz3wklrz7vvan3zwdj42696j74mnvj322d",
		RawAddr:  common.Hex2Bytes("d45b120a2eb7c62f319d9c44e6caaad1752f5773"),
		TxPriv:   common.Hex2Bytes("39e7d9b0b9640ede2ab7b77c64d04e100357df5e6af9aeb1ec5d80c858b2b2f2"),
		VotePriv: common.Hex2Bytes("14a0d0cc11c712d476cc6c8184364dd65dfad3413a2d1b57aed01fb7e52051f9"),
		VotePub:  common.Hex2Bytes("91fcc71f6c7b6922d7cf6e1d6f2a13e72e13c78cf72e8ef1e24d8f6bea76b4bc040dfb864a541981129c55162e77829f0c346091d45a2cc5a5fc620ca4ab63b27a1192a2715211ae4a59c21044e60d947a59cb79a03e7ffc5fb81f76431436a1"),
	}
	d17Later = d17Voter{
		Address:  "goat17w2ehyfh7cdxn3kr87g6fehm0qx8wytyevyllx",
		RawAddr:  common.Hex2Bytes("f3959b9137f61a69c6c33f91a4e6fb780c771164"),
		TxPriv:   common.Hex2Bytes("c2195372b1041fc8f9dea7c2b19b7014f4afe29953b08a14be038b10435cc255"),
		VotePriv: common.Hex2Bytes("490ce61c00399491e4e0d2ecb729e0d24fb7a3cd64d8a85387329598cfc9e3fe"),
		VotePub:  common.Hex2Bytes("90856b5bd5b3916c5163f2afc27ca7bed1dbd743f7c348bf345f603f2f23e428dadd11c675a75da600413abbb4334fb4061544fa0736f6f3554a1827bc58e820eb02433bb8c025f9c0f6814c38e4674fc86b024c5304657a714dfada3a2488d9"),
	}
)

type d17Chain struct {
	k    keeper.Keeper
	ctx  sdk.Context
	acct *mock.MockAccountKeeper
}

func d17NewChain(t *testing.T, blockTime time.Time) d17Chain {
	t.Helper()
	ctl := gomock.NewController(t)
	acct := mock.NewMockAccountKeeper(ctl)
	k, ctx, _ := keepertest.RelayerKeeper(t, acct)
	return d17Chain{k: k, ctx: ctx.WithBlockTime(blockTime), acct: acct}
}

// d17NewVoter completes the registration of a pending voter through the real msgServer.NewVoter
// with real key proofs (same construction as x/relayer/keeper/tx_test.go).
func d17NewVoter(t *testing.T, c d17Chain, proposer string, epoch uint64, v d17Voter) {
	t.Helper()

	prvkey := &secp256k1.PrivKey{Key: v.TxPriv}
	addr := sdk.AccAddress(goatcrypto.Hash160Sum(prvkey.PubKey().Bytes()))
	require.Equal(t, v.RawAddr, addr.Bytes())

	pending, err := c.k.Voters.Get(c.ctx, v.Address)
	require.NoError(t, err)
	require.Equal(t, types.VOTER_STATUS_PENDING, pending.Status)

	reqMsg := types.NewOnBoardingVoterRequest(pending.Height, addr, goatcrypto.SHA256Sum(v.VotePub))
	// the cosmos secp256k1 key signs sha256(raw) and returns R||S, which is exactly the
	// (hash, 64-byte signature) pair ethcrypto.VerifySignature checks in NewVoter
	raw := slices.Concat(
		[]byte(c.ctx.ChainID()),
		goatcrypto.Uint64LE(0, epoch),
		[]byte(reqMsg.MethodName()),
		[]byte(proposer),
		reqMsg.SignDoc(),
	)
	sigMsg := types.VoteSignDoc(reqMsg.MethodName(), c.ctx.ChainID(), proposer, 0, epoch, reqMsg.SignDoc())
	require.Equal(t, sigMsg, goatcrypto.SHA256Sum(raw))
	txKeyProof, err := prvkey.Sign(raw)
	require.NoError(t, err)
	voteKeyProof := goatcrypto.Sign(new(goatcrypto.PrivateKey).Deserialize(v.VotePriv), sigMsg)

	// a brand new account => NewVoter takes the ON_BOARDING branch
	c.acct.EXPECT().HasAccount(gomock.Any(), addr).Return(false)
	c.acct.EXPECT().NewAccountWithAddress(gomock.Any(), addr).Return(authtypes.NewBaseAccountWithAddress(addr))
	c.acct.EXPECT().SetAccount(gomock.Any(), gomock.Any())

	_, err = keeper.NewMsgServerImpl(c.k).NewVoter(c.ctx, &types.MsgNewVoterRequest{
		Proposer:         proposer,
		VoterBlsKey:      v.VotePub,
		VoterTxKey:       prvkey.PubKey().Bytes(),
		VoterTxKeyProof:  txKeyProof,
		VoterBlsKeyProof: voteKeyProof,
	})
	require.NoError(t, err)

	got, err := c.k.Voters.Get(c.ctx, v.Address)
	require.NoError(t, err)
	require.Equal(t, types.VOTER_STATUS_ON_BOARDING, got.Status)
	require.Equal(t, v.VotePub, got.VoteKey)
}

func d17Describe(r types.Relayer) string {
	return fmt.Sprintf("epoch=%d proposer=%s voters=%v", r.Epoch, r.Proposer, r.Voters)
}

// d17Run builds chain A, lets the two new voters arrive in the given order, exports A,
// initialises chain B from the export, runs the same election block on both and returns
// whether they agree.
func d17Run(t *testing.T, arrival []d17Voter, randao []byte) {
	genesisTime := time.Date(2026, 1, 1, 0, 0, 0, 0, time.UTC)
	params := types.Params{ElectingPeriod: 10 * time.Minute, AcceptProposerTimeout: time.Minute}
	electionTime := genesisTime.Add(params.ElectingPeriod)

	// ---------------- chain A: the running chain ----------------
	a := d17NewChain(t, genesisTime)
	require.NoError(t, a.k.Params.Set(a.ctx, params))
	require.NoError(t, a.k.Randao.Set(a.ctx, randao))
	for _, v := range []d17Voter{d17P, d17V1} {
		require.NoError(t, a.k.Voters.Set(a.ctx, v.Address, types.Voter{
			Address: v.RawAddr, VoteKey: v.VotePub, Status: types.VOTER_STATUS_ACTIVATED, Height: 0,
		}))
	}
	require.NoError(t, a.k.Relayer.Set(a.ctx, types.Relayer{
		Proposer:         d17P.Address,
		Voters:           []string{d17V1.Address},
		LastElected:      genesisTime,
		ProposerAccepted: true,
	}))

	// the execution layer announces both candidates (PENDING records), then each of them
	// finishes the registration; arrival[0] first, arrival[1] second.
	adds := make([]*goattypes.AddVoterRequest, 0, len(arrival))
	for _, v := range arrival {
		adds = append(adds, &goattypes.AddVoterRequest{
			Voter: common.BytesToAddress(v.RawAddr), Pubkey: common.Hash(goatcrypto.SHA256Sum(v.VotePub)),
		})
	}
	require.NoError(t, a.k.ProcessRelayerRequest(a.ctx, goattypes.RelayerRequests{Adds: adds}))
	for _, v := range arrival {
		d17NewVoter(t, a, d17P.Address, 0, v)
	}

	queueA, err := a.k.Queue.Get(a.ctx)
	require.NoError(t, err)
	require.Equal(t, []string{arrival[0].Address, arrival[1].Address}, queueA.OnBoarding,
		"running chain keeps the queue in arrival order")

	// ---------------- export A, init B ----------------
	exported := relayer.ExportGenesis(a.ctx, a.k)
	require.NoError(t, exported.Validate())

	b := d17NewChain(t, genesisTime)
	relayer.InitGenesis(b.ctx, b.k, *exported)

	// the genesis document itself round-trips: the difference is invisible at this level
	require.Equal(t, exported, relayer.ExportGenesis(b.ctx, b.k), "export(init(export(A))) == export(A)")

	queueB, err := b.k.Queue.Get(b.ctx)
	require.NoError(t, err)
	t.Logf("before the election block: queue A (running)    OnBoarding=%v", queueA.OnBoarding)
	t.Logf("before the election block: queue B (re-imported) OnBoarding=%v", queueB.OnBoarding)

	// ---------------- the same next block on both chains ----------------
	ctxA := a.ctx.WithBlockTime(electionTime).WithBlockHeight(1)
	ctxB := b.ctx.WithBlockTime(electionTime).WithBlockHeight(1)
	require.NoError(t, a.k.EndBlocker(ctxA))
	require.NoError(t, b.k.EndBlocker(ctxB))

	relA, err := a.k.Relayer.Get(ctxA)
	require.NoError(t, err)
	relB, err := b.k.Relayer.Get(ctxB)
	require.NoError(t, err)
	require.EqualValues(t, 1, relA.Epoch, "an election must have happened on A")
	require.EqualValues(t, 1, relB.Epoch, "an election must have happened on B")

	t.Logf("after the election block:  A (running)     %s", d17Describe(relA))
	t.Logf("after the election block:  B (re-imported) %s", d17Describe(relB))

	genA, genB := relayer.ExportGenesis(ctxA, a.k), relayer.ExportGenesis(ctxB, b.k)

	if !(relA.Proposer == relB.Proposer && fmt.Sprint(relA.Voters) == fmt.Sprint(relB.Voters)) {
		t.Errorf("D17: the chain re-initialised from the export diverges from the running chain after the same block\n"+
			"  arrival order      : %v\n"+
			"  running chain   (A): proposer=%s voters=%v\n"+
			"  re-imported     (B): proposer=%s voters=%v\n"+
			"  same proposer      : %v",
			[]string{arrival[0].Address, arrival[1].Address},
			relA.Proposer, relA.Voters, relB.Proposer, relB.Voters, relA.Proposer == relB.Proposer)
	}
	require.Equal(t, relA, relB, "Relayer record of A and B after the same block")
	require.Equal(t, genA, genB, "ExportGenesis of A and B after the same block")
}

func TestD17VoterQueueOrderLostInExport(t *testing.T) {
	// Randao is part of the exported genesis, so both chains share it.
	// 32 zero bytes is the default genesis value; with epoch 1 the election index
	// sha256(randao||epoch) mod 3 is 1, i.e. the FIRST of the two new voters in relayer.Voters
	// ([V1, new, new]) becomes the proposer - whoever that is on the respective chain.
	randaoIdx1 := make([]byte, 32)
	// with this value the index is 0 (V1 is elected on both chains); only the order of
	// relayer.Voters differs, which is still a different state (and a different bitmap
	// position for every later VerifyProposal).
	randaoIdx0 := common.Hex2Bytes("631ce70cc1e6818ab1b0dd4c7d8c9af4b7a893ff9aed518a886f1c3c9823a970")

	// control: arrival order == address order. Both chains must agree (expected PASS).
	t.Run("control-arrival-in-address-order", func(t *testing.T) {
		d17Run(t, []d17Voter{d17Earlier, d17Later}, randaoIdx1)
	})

	// main case: the voter whose address sorts LATER registers first (expected FAIL on the
	// current code: this failure is the demonstration; the two chains elect different proposers).
	t.Run("arrival-against-address-order", func(t *testing.T) {
		d17Run(t, []d17Voter{d17Later, d17Earlier}, randaoIdx1)
	})

	// same as the main case but the election picks V1 on both chains: proposer equal,
	// voter order (hence stored state / app hash) still different (expected FAIL).
	t.Run("arrival-against-address-order-same-proposer", func(t *testing.T) {
		d17Run(t, []d17Voter{d17Later, d17Earlier}, randaoIdx0)
	})
}
