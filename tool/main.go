package main

import (
	"encoding/json"
	"flag"
	"fmt"
	"os"
	"regexp"
	"runtime"
	"runtime/debug"
	"sort"
	"strings"
	"time"

	"golang.org/x/tools/go/ssa"
)

type propFunc func(c *Check)

var props = map[string]propFunc{}

func register(id string, f propFunc) { props[id] = f }

func main() {
	repo := flag.String("repo", "/repo", "repository working tree to analyse")
	verif := flag.String("verif", "/verif", "verification directory (evidence, reports, known findings)")
	prop := flag.String("prop", "", "property id (C01..C20)")
	tier := flag.String("tier", "quick", "quick|thorough")
	dump := flag.String("dump", "", "dump rendered SSA facts/calls of functions whose key matches this regexp")
	noEvidence := flag.Bool("no-evidence", false, "do not write evidence/reports (used by the mutant self-test)")
	list := flag.Bool("list", false, "list function keys")
	selftest := flag.String("selftest", "", "JSON file with mutant self-test results to merge into the evidence (thorough tier)")
	writeInv := flag.Bool("write-inventory", false, "print the function inventory of the analysed tree (the reference for normalise.go)")
	overlay := flag.String("overlay", "", "directory of replacement files (paths relative to -repo) analysed in place of the working-tree files (mutant self-test only)")
	flag.Parse()
	if *overlay != "" && !*noEvidence {
		infraFail("-overlay is only allowed together with -no-evidence")
	}

	// watchdog: a runaway analysis is an infrastructure failure (exit 2, no verdict), never a hang
	go func() {
		limit := 20 * time.Minute
		if d, err := time.ParseDuration(os.Getenv("GOATVERIF_TIMEOUT")); err == nil && d > 0 {
			limit = d
		}
		deadline := time.Now().Add(limit)
		for {
			time.Sleep(2 * time.Second)
			var ms runtime.MemStats
			runtime.ReadMemStats(&ms)
			if ms.HeapAlloc > 9<<30 && os.Getenv("GOATVERIF_DEBUG") != "" {
				buf := make([]byte, 1<<20)
				os.Stderr.Write(buf[:runtime.Stack(buf, true)])
				os.Exit(2)
			}
			if ms.HeapAlloc > 12<<30 {
				infraFail("watchdog: heap grew beyond 12 GiB (runaway analysis)")
			}
			if time.Now().After(deadline) {
				infraFail("watchdog: analysis did not finish within %s", limit)
			}
		}
	}()

	defer func() {
		if r := recover(); r != nil {
			if u, ok := r.(unresolved); ok {
				infraFail("unresolved anchor: %s (the analysed tree no longer contains a construct the rules are anchored in)", string(u))
			}
			fmt.Fprintf(os.Stderr, "panic: %v\n%s\n", r, debug.Stack())
			infraFail("checker panic: %v", r)
		}
	}()

	p := Load(*repo, *overlay, true)
	if p.overlayJSON != "" {
		defer os.Remove(p.overlayJSON)
	}
	if *writeInv {
		fmt.Println("# function declarations of the production packages of the reference tree (goatverif -write-inventory)")
		fmt.Println(strings.Join(inventoryLines(p.Pkgs), "\n"))
		return
	}
	for _, l := range p.NormaliseLog {
		fmt.Println("normalise: " + l)
	}
	if *list {
		var keys []string
		for _, f := range p.Funcs {
			keys = append(keys, FuncKey(f))
		}
		sort.Strings(keys)
		fmt.Println(strings.Join(keys, "\n"))
		return
	}
	if *dump == "contexts" {
		p.dumpContexts()
		return
	}
	if *dump != "" {
		re := regexp.MustCompile(*dump)
		for _, f := range p.Funcs {
			if re.MatchString(FuncKey(f)) {
				p.Dump(f)
			}
		}
		return
	}
	ids := []string{*prop}
	if *prop == "all" {
		ids = nil
		for id := range props {
			ids = append(ids, id)
		}
		sort.Strings(ids)
	}
	rc := 0
	var p0 *Prog
	for _, id := range ids {
		f, ok := props[id]
		if !ok {
			infraFail("unknown property %q", id)
		}
		c := NewCheck(p, id, *tier)
		runProp(c, f)
		vd := *verif
		if len(p.NormaliseLog) > 0 && c.Unlisted(*verif) > 0 {
			// Two views of the same behaviour: the tree with the calls of new helpers expanded (p) and the tree as
			// written (p0). Each view is checked completely; the property's obligations are necessary conditions of
			// behaviour, which both views share, so a view in which every obligation is discharged decides the
			// property. The alarm is raised only when neither view discharges them all.
			if p0 == nil {
				p0 = Load(*repo, *overlay, false)
			}
			c0 := NewCheck(p0, id, *tier)
			runProp(c0, f)
			n1, n0 := c.Unlisted(*verif), c0.Unlisted(*verif)
			if n0 == 0 {
				c0.Notes = append(c0.Notes, fmt.Sprintf("decided on the tree as written; with the calls of new helpers expanded %d obligations were not discharged (see normalise.go)", n1))
				c = c0
			} else if n0 < n1 {
				c = c0
			}
		}
		if *noEvidence {
			vd = os.TempDir() + "/goatverif-noev"
			_ = os.MkdirAll(vd, 0o755)
			// known findings still come from the real directory
			if b, err := os.ReadFile(*verif + "/known_findings.txt"); err == nil {
				_ = os.WriteFile(vd+"/known_findings.txt", b, 0o644)
			}
		}
		var st map[string]any
		if *selftest != "" {
			if b, err := os.ReadFile(*selftest); err == nil {
				_ = json.Unmarshal(b, &st)
			}
		}
		if r := c.Finish(vd, st); r > rc {
			rc = r
		}
	}
	os.Exit(rc)
}

// runProp runs one property's rules. A construct the rules are anchored in that the analysed tree no longer has (a
// function, a closure found by what it calls, a type) leaves the property undecided in this view: reported as an open
// obligation (the check fails closed with a VIOLATION line), not as an infrastructure failure.
func runProp(c *Check, f propFunc) {
	defer func() {
		if r := recover(); r != nil {
			u, ok := r.(unresolved)
			if !ok {
				panic(r)
			}
			c.Violated("R0", "anchor: "+string(u), "", "the analysed tree no longer contains this construct, which the rules of the property are anchored in: undecided reason=not-established")
		}
	}()
	f(c)
}

// Dump prints, per block, the edge facts, calls and stores as the rules see them.
func (p *Prog) Dump(fn *ssa.Function) {
	r := p.R(fn)
	fmt.Printf("== %s  [%s]\n", FuncKey(fn), p.Pos(fn.Pos()))
	exits := map[ssa.Instruction]exitKind{}
	for _, e := range Exits(fn) {
		exits[e.Ret] = e.Kind
	}
	for _, b := range fn.Blocks {
		fmt.Printf(" b%d (%s) preds=%v succs=%v\n", b.Index, b.Comment, blockIdx(b.Preds), blockIdx(b.Succs))
		for _, in := range b.Instrs {
			switch x := in.(type) {
			case *ssa.If:
				fmt.Printf("    if  T: %s\n        F: %s\n", posFact(r, x.Cond), negateFact(r, x.Cond))
			case ssa.CallInstruction:
				fmt.Printf("    call %s   [%s]\n", p.CallStr(x), p.InstrPos(in))
			case *ssa.Store:
				fmt.Printf("    store %s = %s\n", r.E(x.Addr), r.E(x.Val))
			case *ssa.Return:
				var rs []string
				for _, v := range x.Results {
					rs = append(rs, r.E(v))
				}
				fmt.Printf("    return %s   kind=%v\n", strings.Join(rs, ", "), exits[x])
			case *ssa.MapUpdate:
				fmt.Printf("    mapupdate %s[%s] = %s\n", r.E(x.Map), r.E(x.Key), r.E(x.Value))
			case *ssa.Go:
				fmt.Printf("    go %s\n", p.CallStr(x))
			}
		}
	}
}

func blockIdx(bs []*ssa.BasicBlock) []int {
	var o []int
	for _, b := range bs {
		o = append(o, b.Index)
	}
	return o
}

func (p *Prog) dumpContexts() {
	c := p.Contexts()
	pr := func(n string, fs []*ssa.Function) {
		var ks []string
		for _, f := range fs {
			ks = append(ks, FuncKey(f))
		}
		sort.Strings(ks)
		fmt.Printf("%s (%d): %s\n", n, len(ks), strings.Join(ks, ", "))
	}
	pr("tx", c.Tx)
	pr("query", c.Query)
	pr("block", c.Block)
	pr("genesis", c.Genesis)
	pr("ante", c.Ante)
	pr("proposal", c.Proposal)
}
